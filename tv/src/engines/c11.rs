//! C11 — STBC container: total decoder/validator, exact round trip, validated means safe.
//!
//! Core X1 (bounded-exhaustive input enumeration on the real code):
//!  1. round trip over a program corpus (every `.st` file of the repository that compiles on its
//!     own, every directory of `.st` files that compiles as a project, and a fixed list of small
//!     generated programs that together emit every section kind and every type kind);
//!  2. totality under structure-aware exhaustive mutation of valid containers (CRC recomputed),
//!     each mutant executed `decode -> validate -> metadata -> apply_bytecode_bytes (-> hot reload
//!     continuation)` inside an `iso` worker process under RLIMIT_AS with a progress marker written
//!     before every stage, so that an abort is attributed to exactly one mutant and one stage.
//!
//! Oracle (exactly the statement): every stage returns Ok/Err — a caught panic, a process abort
//! (failed allocation under RLIMIT_AS = 1 GiB, stack overflow on 8 MiB) or a stage that does not
//! finish within 60 s is a violation; `validate(compile(p))` is Ok; `decode(encode(m)) == m`;
//! `encode(decode(e)) == e`; a mutant that validates is applied to a runtime (fresh per distinct
//! metadata) followed by the hot-reload continuation of scheduler.rs without panic. What the
//! *value* of Ok/Err is, is never judged. Re-encoding decoded mutants is exercised but not judged
//! (non-canonical padding/offsets cannot round-trip).
//!
//! The check can fail — tried on a scratch copy of the repository (see the engine report):
//! removing the `POU code out of bounds` check of validate, making encode drop `VarMeta.retain`,
//! an off-by-one section length in encode, `>` -> `> len+1` in `BytecodeReader::read_bytes`
//! are each reported; passing `depth` instead of `depth + 1` in the ARRAY-element / STRUCT-UNION-
//! field recursion of `validate_const_payload_entry` (guard counts alias hops only) is reported by
//! the "aggcycle" family as `C11/abort/stack-overflow:stage=validate:mut=aggcycle:section=TYPE_TABLE:
//! field=aggregate-only-cycle` (controls with one alias/subrange hop stay Err); with the repairs for the defects found on the unchanged tree applied, both
//! tiers are clean.
//!
//! Process model: the `iso` worker (RLIMIT_AS, RUST_BACKTRACE=0) is a fork server. It forks a
//! child that runs the mutants of a batch and streams one progress record before every stage and
//! one result record after every mutant; when the child dies the parent knows the mutant and the
//! stage, keeps everything before it, re-tries the mutant in a fresh child unless it was the
//! child's first one, and continues behind it.
//!
//! The container layout used to *label* mutated bytes (never as an oracle) is written from
//! `/repo/docs/specs/10-runtime.md`, "ST Bytecode Format Specification" §4–§7.

use crate::fw::*;
use crate::iso;
use crate::par::par_map;
use serde_json::{json, Value};
use std::collections::{BTreeMap, BTreeSet, HashSet};
use std::time::{Duration, Instant};
use trust_runtime::bytecode::{BytecodeModule, ConstEntry, Field, SectionData, SectionId, TypeData, TypeEntry, TypeKind};
use trust_runtime::harness::{CompileSession, SourceFile};

const RLIMIT_AS: u64 = 1 << 30;
const WORKER_STACK: usize = 8 << 20;

// ------------------------------------------------------------------------------------------------
// small helpers
// ------------------------------------------------------------------------------------------------

fn hex(b: &[u8]) -> String {
    const T: &[u8; 16] = b"0123456789abcdef";
    let mut s = String::with_capacity(b.len() * 2);
    for x in b {
        s.push(T[(x >> 4) as usize] as char);
        s.push(T[(x & 15) as usize] as char);
    }
    s
}

fn unhex(s: &str) -> Vec<u8> {
    let b = s.as_bytes();
    let v = |c: u8| match c {
        b'0'..=b'9' => c - b'0',
        b'a'..=b'f' => c - b'a' + 10,
        b'A'..=b'F' => c - b'A' + 10,
        _ => 0,
    };
    b.chunks(2).filter(|c| c.len() == 2).map(|c| (v(c[0]) << 4) | v(c[1])).collect()
}

fn fnv(b: &[u8]) -> u64 {
    let mut h: u64 = 0xcbf29ce484222325;
    for x in b {
        h ^= *x as u64;
        h = h.wrapping_mul(0x100000001b3);
    }
    h
}

/// CRC-32 (IEEE 802.3, reflected, init/xorout 0xffffffff) — what the spec calls "CRC32".
fn crc32(data: &[u8]) -> u32 {
    static TABLE: std::sync::OnceLock<[u32; 256]> = std::sync::OnceLock::new();
    let t = TABLE.get_or_init(|| {
        let mut t = [0u32; 256];
        for (i, e) in t.iter_mut().enumerate() {
            let mut c = i as u32;
            for _ in 0..8 {
                c = if c & 1 != 0 { 0xEDB88320 ^ (c >> 1) } else { c >> 1 };
            }
            *e = c;
        }
        t
    });
    let mut c = 0xffff_ffffu32;
    for b in data {
        c = t[((c ^ *b as u32) & 0xff) as usize] ^ (c >> 8);
    }
    c ^ 0xffff_ffff
}

fn rd16(b: &[u8], o: usize) -> u16 {
    u16::from_le_bytes([b[o], b[o + 1]])
}
fn rd32(b: &[u8], o: usize) -> u32 {
    u32::from_le_bytes([b[o], b[o + 1], b[o + 2], b[o + 3]])
}

/// Recompute the header checksum of a (possibly mutated) container, if the header is complete
/// and the section table offset lies inside the file (spec §4.1: CRC32 over
/// `section_table_off..EOF`, stored at byte 20).
fn fix_crc(b: &mut [u8]) {
    if b.len() < 24 {
        return;
    }
    let off = rd32(b, 16) as usize;
    if off < 24 || off > b.len() {
        return;
    }
    let c = crc32(&b[off..]);
    b[20..24].copy_from_slice(&c.to_le_bytes());
}

fn clip(s: &str, n: usize) -> String {
    let mut out: String = s.chars().take(n).collect();
    if s.chars().count() > n {
        out.push('…');
    }
    out
}

fn norm_msg(m: &str) -> String {
    let s: String = m.chars().map(|c| if c.is_ascii_digit() { '#' } else { c }).collect();
    // collapse runs of '#'
    let mut out = String::new();
    let mut last = ' ';
    for c in s.chars() {
        if c == '#' && last == '#' {
            continue;
        }
        out.push(c);
        last = c;
    }
    clip(&out, 70)
}

// ------------------------------------------------------------------------------------------------
// the program corpus
// ------------------------------------------------------------------------------------------------

/// Small generated programs; together they make the compiler emit every section kind and every
/// type kind it can emit, every elementary constant type it accepts, FBs with methods,
/// interfaces, classes, functions, CONFIGURATIONs with tasks / AT bindings / retain globals.
/// (Constructs this compiler rejects — array/struct initialisers, untyped literals beyond DINT,
/// two instances of one PROGRAM type, VAR_STAT — are left out.)
pub fn generated_programs() -> Vec<(&'static str, String)> {
    let mut v: Vec<(&'static str, String)> = Vec::new();
    let mut add = |n: &'static str, s: &str| v.push((n, s.to_string()));
    add("g00_empty", "PROGRAM P\nEND_PROGRAM\n");
    add("g01_counter", "PROGRAM P\nVAR c : INT := 0; END_VAR\nc := c + 1;\nEND_PROGRAM\n");
    add(
        "g02_int_consts",
        "PROGRAM P\nVAR a : SINT := 127; b : INT := 32767; c : DINT := -2147483647; d : LINT; e : USINT := 255; f : UINT := 65535; g : UDINT; h : ULINT; END_VAR\na := SINT#-128; b := INT#-2; c := DINT#2147483647; d := LINT#-9223372036854775807; e := USINT#5; f := UINT#6; g := UDINT#4294967295; h := ULINT#9223372036854775807;\nEND_PROGRAM\n",
    );
    add(
        "g03_bit_real_consts",
        "PROGRAM P\nVAR x : BOOL := TRUE; b : BYTE := 16#FF; w : WORD := 16#8000; d : DWORD; l : LWORD; r : REAL := 1.5; lr : LREAL := -2.25E3; END_VAR\nx := NOT x; b := BYTE#16#0F; w := WORD#1; d := DWORD#16#FFFFFFFF; l := LWORD#16#7FFFFFFFFFFFFFFF;\nr := r * REAL#2.0; lr := lr / LREAL#4.0;\nEND_PROGRAM\n",
    );
    add(
        "g04_time_date_consts",
        "PROGRAM P\nVAR t1 : TIME; t2 : LTIME; v1 : DATE; v2 : TIME_OF_DAY; v3 : DATE_AND_TIME; END_VAR\nt1 := T#1h2m3s4ms; t2 := LTIME#5us; v1 := D#2024-02-29; v2 := TOD#23:59:59; v3 := DT#2024-01-01-00:00:00;\nEND_PROGRAM\n",
    );
    add(
        "g05_long_date_consts",
        "PROGRAM P\nVAR v1 : LDATE; v2 : LTOD; v3 : LDT; END_VAR\nv1 := LDATE#2024-02-29; v2 := LTOD#23:59:59; v3 := LDT#2024-01-01-00:00:00;\nEND_PROGRAM\n",
    );
    add(
        "g06_strings",
        "PROGRAM P\nVAR s : STRING := 'abc'; s2 : STRING[10] := 'x'; n : INT; END_VAR\ns := CONCAT(s, 'de'); n := LEN(s); s2 := 'héllo';\nEND_PROGRAM\n",
    );
    add("g07_wstrings", "PROGRAM P\nVAR w : WSTRING := \"wide\"; s : STRING; END_VAR\nw := \"other\"; s := '';\nEND_PROGRAM\n");
    add(
        "g08_struct",
        "TYPE S : STRUCT a : INT; b : BOOL; END_STRUCT END_TYPE\nPROGRAM P\nVAR s : S; t : S; END_VAR\ns.a := t.a + 1; s.b := NOT t.b;\nEND_PROGRAM\n",
    );
    add(
        "g09_enum",
        "TYPE E : (Idle := 0, Run := 1, Stop := 5); END_TYPE\nPROGRAM P\nVAR e : E := E#Run; n : INT; END_VAR\nCASE e OF\n E#Idle: n := 0;\n E#Run: n := 1;\nELSE n := 2;\nEND_CASE;\ne := E#Stop;\nEND_PROGRAM\n",
    );
    add(
        "g10_enum_base",
        "TYPE E2 : (Red := 1, Green := 2, Blue := 3) INT; END_TYPE\nPROGRAM P\nVAR e : E2 := E2#Green; END_VAR\ne := E2#Blue;\nEND_PROGRAM\n",
    );
    add(
        "g11_array1",
        "PROGRAM P\nVAR a : ARRAY[-1..2] OF INT; i : INT; END_VAR\nFOR i := -1 TO 2 DO a[i] := a[i] + 1; END_FOR;\nEND_PROGRAM\n",
    );
    add("g12_array2", "PROGRAM P\nVAR m : ARRAY[0..1, 0..2] OF DINT; END_VAR\nm[1, 2] := m[0, 0] + DINT#1;\nEND_PROGRAM\n");
    add(
        "g13_alias_subrange",
        "TYPE\n MyAlias : INT;\n MySub : INT(0..10);\n MyArr : ARRAY[1..3] OF INT;\nEND_TYPE\nPROGRAM P\nVAR a : MyAlias := 3; s : MySub := 4; r : MyArr; END_VAR\na := a + 1; s := 5; r[1] := a;\nEND_PROGRAM\n",
    );
    add(
        "g14_union_ref",
        "TYPE\n U : UNION u1 : INT; u2 : BOOL; END_UNION;\n R : REF_TO INT;\nEND_TYPE\nPROGRAM P\nVAR u : U; r : R; x : INT; END_VAR\nr := REF(x);\nr^ := 2;\nEND_PROGRAM\n",
    );
    add(
        "g15_nested_types",
        "TYPE\n Inner : STRUCT v : ARRAY[0..1] OF INT; f : REAL; END_STRUCT;\n Outer : STRUCT i : Inner; n : INT; END_STRUCT;\nEND_TYPE\nPROGRAM P\nVAR o : Outer; arr : ARRAY[0..1] OF Inner; k : INT; END_VAR\no.n := 7; k := o.n;\nEND_PROGRAM\n",
    );
    add(
        "g16_function",
        "FUNCTION Add : INT\nVAR_INPUT a : INT; b : INT := 2; END_VAR\nAdd := a + b;\nEND_FUNCTION\nPROGRAM P\nVAR r : INT; END_VAR\nr := Add(1, 2); r := Add(a := 3);\nEND_PROGRAM\n",
    );
    add(
        "g17_function_inout",
        "FUNCTION Swap : BOOL\nVAR_IN_OUT a : INT; b : INT; END_VAR\nVAR_OUTPUT done : BOOL; END_VAR\nVAR t : INT; END_VAR\nt := a; a := b; b := t; done := TRUE; Swap := TRUE;\nEND_FUNCTION\nPROGRAM P\nVAR x : INT := 1; y : INT := 2; ok : BOOL; d : BOOL; END_VAR\nok := Swap(a := x, b := y, done => d);\nEND_PROGRAM\n",
    );
    add(
        "g18_fb",
        "FUNCTION_BLOCK Acc\nVAR_INPUT inc : INT; END_VAR\nVAR_OUTPUT total : INT; END_VAR\nVAR n : INT := 0; END_VAR\nn := n + inc; total := n;\nEND_FUNCTION_BLOCK\nPROGRAM P\nVAR a : Acc; b : Acc; r : INT; END_VAR\na(inc := 1); b(inc := 2, total => r); r := r + a.total;\nEND_PROGRAM\n",
    );
    add(
        "g19_fb_method",
        "FUNCTION_BLOCK Cnt\nVAR v : INT := 0; END_VAR\nMETHOD PUBLIC Inc : INT\nVAR_INPUT amount : INT; END_VAR\nv := v + amount; Inc := v;\nEND_METHOD\nMETHOD PUBLIC Reset\nv := 0;\nEND_METHOD\nEND_FUNCTION_BLOCK\nPROGRAM P\nVAR c : Cnt; r : INT; END_VAR\nr := c.Inc(amount := 2); c.Reset();\nEND_PROGRAM\n",
    );
    add(
        "g20_interface",
        "INTERFACE ICount\nMETHOD Inc : INT\nEND_METHOD\nMETHOD Cur : INT\nEND_METHOD\nEND_INTERFACE\nFUNCTION_BLOCK Impl IMPLEMENTS ICount\nVAR v : INT; END_VAR\nMETHOD PUBLIC Inc : INT\nv := v + 1; Inc := v;\nEND_METHOD\nMETHOD PUBLIC Cur : INT\nCur := v;\nEND_METHOD\nEND_FUNCTION_BLOCK\nPROGRAM P\nVAR i : ICount; f : Impl; r : INT; END_VAR\ni := f; r := i.Inc(); r := i.Cur();\nEND_PROGRAM\n",
    );
    add(
        "g21_class_inherit",
        "CLASS Base\nMETHOD PUBLIC Foo : INT\nFoo := INT#1;\nEND_METHOD\nEND_CLASS\nCLASS Derived EXTENDS Base\nMETHOD PUBLIC OVERRIDE Foo : INT\nFoo := INT#2;\nEND_METHOD\nMETHOD PUBLIC Bar : INT\nBar := INT#3;\nEND_METHOD\nEND_CLASS\nPROGRAM P\nVAR o : Derived; r : INT; END_VAR\nr := o.Foo(); r := o.Bar();\nEND_PROGRAM\n",
    );
    add(
        "g22_iface_inherit",
        "INTERFACE IBase\nMETHOD Foo : INT\nEND_METHOD\nEND_INTERFACE\nINTERFACE IDerived EXTENDS IBase\nMETHOD Bar : INT\nEND_METHOD\nEND_INTERFACE\nCLASS Impl IMPLEMENTS IDerived\nMETHOD PUBLIC Foo : INT\nFoo := INT#1;\nEND_METHOD\nMETHOD PUBLIC Bar : INT\nBar := INT#2;\nEND_METHOD\nEND_CLASS\nPROGRAM P\nVAR i : IDerived; b : IBase; c : Impl; END_VAR\ni := c;\nEND_PROGRAM\n",
    );
    add(
        "g23_fb_extends",
        "FUNCTION_BLOCK A\nVAR x : INT; END_VAR\nMETHOD PUBLIC M : INT\nM := x;\nEND_METHOD\nx := x + 1;\nEND_FUNCTION_BLOCK\nFUNCTION_BLOCK B EXTENDS A\nVAR y : INT; END_VAR\nMETHOD PUBLIC OVERRIDE M : INT\nM := y;\nEND_METHOD\ny := y + 2;\nEND_FUNCTION_BLOCK\nPROGRAM P\nVAR b : B; r : INT; END_VAR\nb(); r := b.M();\nEND_PROGRAM\n",
    );
    add(
        "g24_config_task",
        "PROGRAM Main\nVAR c : INT := 0; END_VAR\nc := c + 1;\nEND_PROGRAM\nCONFIGURATION C\nRESOURCE R ON CPU\nTASK T (INTERVAL := T#10ms, PRIORITY := 0);\nPROGRAM Main WITH T : Main;\nEND_RESOURCE\nEND_CONFIGURATION\n",
    );
    add(
        "g25_config_two_tasks",
        "PROGRAM A\nVAR n : INT; END_VAR\nn := n + 1;\nEND_PROGRAM\nPROGRAM B\nVAR n : INT; END_VAR\nn := n + 2;\nEND_PROGRAM\nPROGRAM D\nVAR n : INT; END_VAR\nn := n + 3;\nEND_PROGRAM\nCONFIGURATION C\nVAR_GLOBAL trigger : BOOL := FALSE; END_VAR\nTASK Fast (INTERVAL := T#1ms, PRIORITY := 1);\nTASK Ev (SINGLE := trigger, PRIORITY := 1);\nPROGRAM PA WITH Fast : A;\nPROGRAM PB WITH Ev : B;\nPROGRAM PD : D;\nEND_CONFIGURATION\n",
    );
    add(
        "g26_config_fb_task",
        "FUNCTION_BLOCK FB\nVAR_INPUT IN : BOOL; END_VAR\nVAR_OUTPUT OUT : BOOL; END_VAR\nOUT := IN;\nEND_FUNCTION_BLOCK\nPROGRAM P\nVAR fb : FB; END_VAR\nEND_PROGRAM\nCONFIGURATION C\nRESOURCE R ON CPU\nVAR_GLOBAL trigger : BOOL; END_VAR\nTASK T (SINGLE := trigger, INTERVAL := T#0ms, PRIORITY := 0);\nPROGRAM P1 WITH T : P (fb WITH T);\nEND_RESOURCE\nEND_CONFIGURATION\n",
    );
    add(
        "g27_var_config_at",
        "PROGRAM D\nVAR raw : WORD; alarm : BOOL; END_VAR\nalarm := WORD_TO_UINT(raw) >= 500;\nEND_PROGRAM\nCONFIGURATION C\nTASK Cycle (INTERVAL := T#100ms, PRIORITY := 1);\nPROGRAM P1 WITH Cycle : D;\nVAR_CONFIG\n P1.raw AT %IW0 : WORD;\n P1.alarm AT %QX0.0 : BOOL;\nEND_VAR\nEND_CONFIGURATION\n",
    );
    add(
        "g28_at_direct",
        "PROGRAM P\nVAR\n i0 AT %IX0.0 : BOOL; q0 AT %QX1.7 : BOOL; iw AT %IW2 : INT; qd AT %QD4 : DINT; mb AT %MB0 : BYTE; ml AT %ML8 : LWORD;\nEND_VAR\nq0 := i0; qd := iw; mb := BYTE#1;\nEND_PROGRAM\n",
    );
    add(
        "g29_globals_retain",
        "PROGRAM Main\nVAR_EXTERNAL g : INT; r : DINT; END_VAR\ng := g + 1; r := r + DINT#1;\nEND_PROGRAM\nCONFIGURATION C\nVAR_GLOBAL g : INT := 7; END_VAR\nVAR_GLOBAL RETAIN r : DINT := 42; keep : STRING := 'keep'; END_VAR\nVAR_GLOBAL PERSISTENT pers : REAL := 1.5; END_VAR\nVAR_GLOBAL NON_RETAIN nr : BOOL := TRUE; END_VAR\nVAR_GLOBAL CONSTANT K : INT := 3; END_VAR\nPROGRAM P1 : Main;\nEND_CONFIGURATION\n",
    );
    add(
        "g30_local_retain",
        "PROGRAM P\nVAR RETAIN a : INT := 1; END_VAR\nVAR PERSISTENT b : INT := 2; END_VAR\nVAR NON_RETAIN c : INT := 3; END_VAR\nVAR CONSTANT K : INT := 9; END_VAR\nVAR_TEMP t : INT; END_VAR\nt := K; a := a + t; b := b + c;\nEND_PROGRAM\n",
    );
    add(
        "g31_global_aggregates",
        "TYPE S : STRUCT a : INT; b : ARRAY[0..2] OF BOOL; END_STRUCT; E : (X0, X1); END_TYPE\nPROGRAM Main\nEND_PROGRAM\nCONFIGURATION C\nVAR_GLOBAL RETAIN gs : S; arr : ARRAY[0..2] OF INT; ge : E := E#X1; gt : TIME := T#5s; END_VAR\nPROGRAM P1 : Main;\nEND_CONFIGURATION\n",
    );
    add(
        "g32_control_flow",
        "PROGRAM P\nVAR i : INT; n : INT; b : BOOL; END_VAR\nIF n = 0 THEN n := 1; ELSIF n = 1 THEN n := 2; ELSE n := 3; END_IF;\nCASE n OF 1, 2: b := TRUE; 3..5: b := FALSE; ELSE b := NOT b; END_CASE;\nFOR i := 0 TO 10 BY 2 DO IF i = 4 THEN CONTINUE; END_IF; IF i = 8 THEN EXIT; END_IF; n := n + i; END_FOR;\nWHILE n > 0 DO n := n - 1; END_WHILE;\nREPEAT n := n + 1; UNTIL n >= 3 END_REPEAT;\nIF b THEN RETURN; END_IF;\nn := 0;\nEND_PROGRAM\n",
    );
    add(
        "g33_std_fbs",
        "PROGRAM P\nVAR t : TON; c : CTU; r : R_TRIG; q : BOOL; pv : INT := 3; END_VAR\nt(IN := TRUE, PT := T#1s); q := t.Q;\nr(CLK := q); c(CU := r.Q, R := FALSE, PV := pv); q := c.Q;\nEND_PROGRAM\n",
    );
    add(
        "g34_std_functions",
        "PROGRAM P\nVAR a : INT := -3; r : REAL := 2.0; d : DINT; b : BOOL; END_VAR\na := ABS(a); r := SQRT(r); a := MAX(a, 4); a := MIN(a, 9); a := SEL(b, a, 1); a := LIMIT(0, a, 5);\nd := INT_TO_DINT(a); r := DINT_TO_REAL(d); a := a MOD 3; r := r ** 2.0;\nEND_PROGRAM\n",
    );
    add(
        "g35_bit_ops",
        "PROGRAM P\nVAR w : WORD := 16#00F0; b : BOOL; END_VAR\nw := SHL(w, 2); w := SHR(w, 1); w := ROL(w, 3); w := ROR(w, 3);\nb := (w > WORD#1) AND (w <> WORD#0) XOR TRUE; b := w <= WORD#5 OR w >= WORD#6 OR w < WORD#7;\nEND_PROGRAM\n",
    );
    add(
        "g36_namespace",
        "NAMESPACE N1\nFUNCTION Twice : INT\nVAR_INPUT a : INT; END_VAR\nTwice := a * 2;\nEND_FUNCTION\nEND_NAMESPACE\nPROGRAM P\nVAR r : INT; END_VAR\nr := N1.Twice(4);\nEND_PROGRAM\n",
    );
    add(
        "g37_fb_array_nested",
        "FUNCTION_BLOCK Leaf\nVAR n : INT; END_VAR\nn := n + 1;\nEND_FUNCTION_BLOCK\nFUNCTION_BLOCK Node\nVAR l : Leaf; k : ARRAY[0..1] OF Leaf; END_VAR\nl(); k[0](); k[1]();\nEND_FUNCTION_BLOCK\nPROGRAM P\nVAR n : Node; END_VAR\nn();\nEND_PROGRAM\n",
    );
    add(
        "g38_property",
        "FUNCTION_BLOCK Pr\nVAR v : INT; END_VAR\nPUBLIC PROPERTY Val : INT\nGET\nVal := v;\nEND_GET\nSET\nv := Val;\nEND_SET\nEND_PROPERTY\nEND_FUNCTION_BLOCK\nPROGRAM P\nVAR p1 : Pr; r : INT; END_VAR\np1.Val := 3; r := p1.Val;\nEND_PROGRAM\n",
    );
    add(
        "g39_struct_defaults",
        "TYPE S : STRUCT a : INT := 1; s : STRING := 'x'; t : TIME := T#1s; END_STRUCT END_TYPE\nPROGRAM P\nVAR x : S; y : ARRAY[0..1] OF S; END_VAR\nx.a := x.a + 1;\nEND_PROGRAM\n",
    );
    add(
        "g40_two_programs_shared",
        "FUNCTION F : DINT\nVAR_INPUT a : DINT; END_VAR\nF := a + DINT#1;\nEND_FUNCTION\nPROGRAM A\nVAR v : DINT; END_VAR\nv := F(v);\nEND_PROGRAM\nPROGRAM B\nVAR v : DINT; END_VAR\nv := F(F(v));\nEND_PROGRAM\nCONFIGURATION C\nTASK T1 (INTERVAL := T#5ms, PRIORITY := 2);\nTASK T2 (INTERVAL := T#1s, PRIORITY := 65535);\nPROGRAM IA WITH T1 : A;\nPROGRAM IB WITH T2 : B;\nEND_CONFIGURATION\n",
    );
    add(
        "g41_unused_fb",
        "PROGRAM P\nVAR n : INT; END_VAR\nn := n + 1;\nEND_PROGRAM\nFUNCTION_BLOCK W\nVAR calls : UDINT; END_VAR\ncalls := calls + 1;\nEND_FUNCTION_BLOCK\n",
    );
    v
}

#[derive(Clone)]
pub struct Prog {
    pub name: String,
    /// (path, text); one entry for single-file programs
    pub files: Vec<(String, String)>,
    pub origin: &'static str, // "gen" | "file" | "project"
}

impl Prog {
    fn session(&self) -> CompileSession {
        if self.files.len() == 1 && self.origin != "project" {
            CompileSession::from_source(self.files[0].1.clone())
        } else {
            CompileSession::from_sources(
                self.files.iter().map(|(p, t)| SourceFile::with_path(p.clone(), t.clone())).collect(),
            )
        }
    }
    fn to_json(&self) -> Value {
        json!({"name": self.name, "origin": self.origin,
               "files": self.files.iter().map(|(p, t)| json!([p, t])).collect::<Vec<_>>()})
    }
    fn from_json(v: &Value) -> Prog {
        let origin = match v["origin"].as_str() {
            Some("gen") => "gen",
            Some("project") => "project",
            _ => "file",
        };
        Prog {
            name: v["name"].as_str().unwrap_or("?").to_string(),
            origin,
            files: v["files"]
                .as_array()
                .cloned()
                .unwrap_or_default()
                .iter()
                .map(|f| (f[0].as_str().unwrap_or("").to_string(), f[1].as_str().unwrap_or("").to_string()))
                .collect(),
        }
    }
}

pub fn section_name(id: u16) -> &'static str {
    match id {
        1 => "STRING_TABLE",
        2 => "TYPE_TABLE",
        3 => "CONST_POOL",
        4 => "REF_TABLE",
        5 => "POU_INDEX",
        6 => "POU_BODIES",
        7 => "RESOURCE_META",
        8 => "IO_MAP",
        9 => "DEBUG_MAP",
        10 => "DEBUG_STRING_TABLE",
        11 => "VAR_META",
        12 => "RETAIN_INIT",
        _ => "UNKNOWN",
    }
}

/// Result of the round-trip clauses on one program.
pub struct RoundTrip {
    /// None = the program does not compile to bytecode (not a case); Some(reason)
    pub not_a_case: Option<String>,
    pub bytes: Vec<u8>,
    /// (clause, feature, detail)
    pub bad: Vec<(String, String, String)>,
    pub section_ids: Vec<u16>,
    pub type_kinds: Vec<u8>,
    pub apply_ok: bool,
    /// the emitted bytes decode and validate (usable as a mutation seed)
    pub valid_container: bool,
}

/// Runs every round-trip clause on one program (in-process; panics of the subject are caught).
pub fn roundtrip(p: &Prog) -> RoundTrip {
    let mut rt = RoundTrip { not_a_case: None, bytes: Vec::new(), bad: Vec::new(), section_ids: Vec::new(), type_kinds: Vec::new(), apply_ok: false, valid_container: false };
    let sess = p.session();
    let module = match catch(|| sess.build_bytecode_module()) {
        Ok(Ok(m)) => m,
        Ok(Err(e)) => {
            rt.not_a_case = Some(format!("compile error: {}", clip(&e.to_string(), 100)));
            return rt;
        }
        Err(m) => {
            rt.not_a_case = Some(format!("compiler panic: {}", clip(&m, 100)));
            return rt;
        }
    };
    // (1) every container the compiler emits validates
    match catch(|| module.validate()) {
        Ok(Ok(())) => {}
        Ok(Err(e)) => rt.bad.push(("emit-validates".into(), variant_of(&format!("{e:?}")), format!("validate(compile(p)) = Err({e})"))),
        Err(m) => rt.bad.push(("panic".into(), "validate".into(), m)),
    }
    let bytes = match catch(|| module.encode()) {
        Ok(Ok(b)) => b,
        Ok(Err(e)) => {
            rt.bad.push(("encode".into(), variant_of(&format!("{e:?}")), format!("encode(compile(p)) = Err({e})")));
            return rt;
        }
        Err(m) => {
            rt.bad.push(("panic".into(), "encode".into(), m));
            return rt;
        }
    };
    rt.bytes = bytes.clone();
    for s in &module.sections {
        rt.section_ids.push(s.id);
        if let SectionData::TypeTable(t) = &s.data {
            for e in &t.entries {
                rt.type_kinds.push(e.kind as u8);
            }
        }
    }
    // (2) decode(encode(m)) == m
    let decoded = match catch(|| BytecodeModule::decode(&bytes)) {
        Ok(Ok(d)) => d,
        Ok(Err(e)) => {
            rt.bad.push(("decode-of-encoded".into(), variant_of(&format!("{e:?}")), format!("decode(encode(m)) = Err({e})")));
            return rt;
        }
        Err(m) => {
            rt.bad.push(("panic".into(), "decode".into(), m));
            return rt;
        }
    };
    if decoded != module {
        let mut feat = "header".to_string();
        let mut detail = format!("version/flags {:?}/{:#x} vs {:?}/{:#x}", decoded.version, decoded.flags, module.version, module.flags);
        if decoded.sections.len() != module.sections.len() {
            feat = "section-count".into();
            detail = format!("{} sections decoded, {} encoded", decoded.sections.len(), module.sections.len());
        } else {
            for (a, b) in decoded.sections.iter().zip(&module.sections) {
                if a != b {
                    feat = section_name(b.id).to_string();
                    let (da, db) = (format!("{:?}", a.data), format!("{:?}", b.data));
                    let p = da.bytes().zip(db.bytes()).position(|(x, y)| x != y).unwrap_or(da.len().min(db.len()));
                    let ctx = |t: &str| {
                        let st = p.saturating_sub(60);
                        let st = (0..=st).rev().find(|i| t.is_char_boundary(*i)).unwrap_or(0);
                        clip(&t[st..], 110)
                    };
                    detail = format!("section {} differs after decode(encode(m)): decoded …{} vs compiled …{}", feat, ctx(&da), ctx(&db));
                    break;
                }
            }
        }
        rt.bad.push(("decode-encode-module".into(), feat, detail));
    }
    // every emitted container validates (as bytes, after decoding)
    match catch(|| decoded.validate()) {
        Ok(Ok(())) => rt.valid_container = true,
        Ok(Err(e)) => rt.bad.push(("emit-validates".into(), variant_of(&format!("{e:?}")), format!("validate(decode(encode(compile(p)))) = Err({e})"))),
        Err(m) => rt.bad.push(("panic".into(), "validate".into(), m)),
    }
    // (3) encode(decode(e)) == e byte for byte
    match catch(|| decoded.encode()) {
        Ok(Ok(b2)) => {
            if b2 != bytes {
                // first differing byte behind the header if there is one (the checksum at 20..24 differs
                // whenever anything behind it does), else the first differing byte
                let first = |from: usize| (from..b2.len().min(bytes.len())).find(|&i| b2[i] != bytes[i]);
                let pos = first(24).or_else(|| first(0)).unwrap_or(b2.len().min(bytes.len()));
                let (sec, fld) = match walk(&bytes) {
                    Ok(l) => l.label_at(pos),
                    Err(_) if pos < 24 => ("HEADER", ["magic", "magic", "version", "version", "flags", "flags", "header_size", "section_count", "section_table_off", "section_table_off", "checksum", "checksum"][pos / 2]),
                    Err(_) => ("BODY", "unwalkable"),
                };
                rt.bad.push((
                    "encode-decode-bytes".into(),
                    format!("{sec}.{fld}"),
                    format!("encode(decode(e)) differs from e at byte {pos} ({sec}.{fld}); lengths {} vs {}", b2.len(), bytes.len()),
                ));
            }
        }
        Ok(Err(e)) => rt.bad.push(("encode".into(), variant_of(&format!("{e:?}")), format!("encode(decode(e)) = Err({e})"))),
        Err(m) => rt.bad.push(("panic".into(), "encode".into(), m)),
    }
    // metadata + apply to the runtime compiled from the same program: must not panic
    match catch(|| decoded.metadata()) {
        Ok(_) => {}
        Err(m) => rt.bad.push(("panic".into(), "metadata".into(), m)),
    }
    match catch(|| sess.build_runtime()) {
        Ok(Ok(mut runtime)) => match catch(move || {
            let r = runtime.apply_bytecode_bytes(&bytes, None);
            let ok = r.is_ok();
            if ok {
                let _ = runtime.restart(trust_runtime::RestartMode::Warm);
                let _ = runtime.load_retain_store();
                let _ = runtime.metadata_snapshot();
            }
            ok
        }) {
            Ok(ok) => rt.apply_ok = ok,
            Err(m) => rt.bad.push(("panic".into(), "apply".into(), m)),
        },
        _ => {}
    }
    rt
}

/// `InvalidIndex { kind: "type", index: 3 }` -> `InvalidIndex:type`; `UnexpectedEof` -> itself.
fn variant_of(dbg: &str) -> String {
    let name: String = dbg.chars().take_while(|c| c.is_ascii_alphanumeric()).collect();
    if name == "InvalidIndex" {
        if let Some(p) = dbg.find("kind: \"") {
            let k: String = dbg[p + 7..].chars().take_while(|c| *c != '"').collect();
            return format!("{name}:{k}");
        }
    }
    if name == "InvalidSection" || name == "InvalidHeader" || name == "InvalidSectionTable" || name == "MissingSection" {
        if let Some(p) = dbg.find('"') {
            let k: String = dbg[p + 1..].chars().take_while(|c| *c != '"' && *c != '\'').collect();
            let k: String = k.trim().chars().map(|c| if c.is_ascii_alphanumeric() { c } else { '_' }).collect();
            return format!("{name}:{}", clip(&k, 40));
        }
    }
    name
}

// ------------------------------------------------------------------------------------------------
// layout walker (labels only; written from docs/specs/10-runtime.md "ST Bytecode Format" §4–§7)
// ------------------------------------------------------------------------------------------------

#[derive(Clone, Copy, PartialEq, Eq, Debug)]
pub enum Role {
    /// u32/u16 element count that sizes an array in the file
    Count,
    /// byte length / size / offset
    Len,
    /// index into another table
    Index,
    /// index into TYPE_TABLE (participates in the type-reference family)
    TypeRef,
    /// enumeration tag with a small domain (`dom` = number of valid values)
    Tag(u8),
    /// plain value
    Val,
    /// raw bytes / padding
    Bytes,
}

#[derive(Clone, Debug)]
pub struct Fld {
    pub off: usize,
    pub len: usize,
    pub sec: &'static str,
    pub name: &'static str,
    pub role: Role,
}

#[derive(Clone, Debug)]
pub struct SecInfo {
    pub entry_off: usize,
    pub id: u16,
    pub off: usize,
    pub len: usize,
}

#[derive(Clone, Debug, Default)]
pub struct Layout {
    pub flds: Vec<Fld>,
    pub secs: Vec<SecInfo>,
    /// (offset of the first byte of type entry i, end)
    pub type_entries: Vec<(usize, usize)>,
    /// offsets of `type_id` of const entries
    pub const_type_fields: Vec<usize>,
    pub minor: u16,
}

impl Layout {
    pub fn field_at(&self, pos: usize) -> Option<&Fld> {
        // fields are sorted by offset per construction order is not guaranteed: sort done in walk()
        let i = self.flds.partition_point(|f| f.off + f.len <= pos);
        self.flds.get(i).filter(|f| f.off <= pos && pos < f.off + f.len)
    }
    pub fn label_at(&self, pos: usize) -> (&'static str, &'static str) {
        match self.field_at(pos) {
            Some(f) => (f.sec, f.name),
            None => ("EOF", "end"),
        }
    }
    pub fn section_of(&self, pos: usize) -> Option<&SecInfo> {
        self.secs.iter().find(|s| s.off <= pos && pos < s.off + s.len)
    }
}

struct Cur<'a> {
    b: &'a [u8],
    pos: usize,
    end: usize,
    sec: &'static str,
    out: Vec<Fld>,
}

impl<'a> Cur<'a> {
    fn take(&mut self, n: usize, name: &'static str, role: Role) -> Result<usize, String> {
        if self.pos + n > self.end {
            return Err(format!("layout walker: {}.{} needs {} bytes at {}, section ends at {}", self.sec, name, n, self.pos, self.end));
        }
        let o = self.pos;
        if n > 0 {
            self.out.push(Fld { off: o, len: n, sec: self.sec, name, role });
        }
        self.pos += n;
        Ok(o)
    }
    fn u8(&mut self, name: &'static str, role: Role) -> Result<u8, String> {
        let o = self.take(1, name, role)?;
        Ok(self.b[o])
    }
    fn u16(&mut self, name: &'static str, role: Role) -> Result<u16, String> {
        let o = self.take(2, name, role)?;
        Ok(rd16(self.b, o))
    }
    fn u32(&mut self, name: &'static str, role: Role) -> Result<u32, String> {
        let o = self.take(4, name, role)?;
        Ok(rd32(self.b, o))
    }
    fn i64(&mut self, name: &'static str) -> Result<(), String> {
        self.take(8, name, Role::Val).map(|_| ())
    }
}

fn walk_string_table(c: &mut Cur, minor: u16) -> Result<(), String> {
    let n = c.u32("count", Role::Count)?;
    for _ in 0..n {
        let l = c.u32("str_len", Role::Len)? as usize;
        c.take(l, "str_bytes", Role::Bytes)?;
        if minor >= 1 {
            let pad = (4 - (4 + l) % 4) % 4;
            c.take(pad, "str_pad", Role::Bytes)?;
        }
    }
    Ok(())
}

fn walk_type_entry(c: &mut Cur) -> Result<(), String> {
    let kind = c.u8("kind", Role::Tag(11))?;
    c.u8("flags", Role::Val)?;
    c.u16("reserved", Role::Val)?;
    c.u32("name_idx", Role::Index)?;
    match kind {
        0 => {
            c.u16("prim_id", Role::Val)?;
            c.u16("max_length", Role::Val)?;
        }
        1 => {
            c.u32("elem_type_id", Role::TypeRef)?;
            let n = c.u32("dim_count", Role::Count)?;
            for _ in 0..n {
                c.i64("dim_lower")?;
                c.i64("dim_upper")?;
            }
        }
        2 | 7 => {
            let n = c.u32("field_count", Role::Count)?;
            for _ in 0..n {
                c.u32("field_name_idx", Role::Index)?;
                c.u32("field_type_id", Role::TypeRef)?;
            }
        }
        3 => {
            c.u32("base_type_id", Role::TypeRef)?;
            let n = c.u32("variant_count", Role::Count)?;
            for _ in 0..n {
                c.u32("variant_name_idx", Role::Index)?;
                c.i64("variant_value")?;
            }
        }
        4 | 6 => {
            c.u32("target_type_id", Role::TypeRef)?;
        }
        5 => {
            c.u32("base_type_id", Role::TypeRef)?;
            c.i64("sub_lower")?;
            c.i64("sub_upper")?;
        }
        8 | 9 => {
            c.u32("pou_id", Role::Index)?;
        }
        10 => {
            let n = c.u32("method_count", Role::Count)?;
            for _ in 0..n {
                c.u32("method_name_idx", Role::Index)?;
                c.u32("method_slot", Role::Val)?;
            }
        }
        k => return Err(format!("layout walker: unknown type kind {k}")),
    }
    Ok(())
}

fn walk_pou_bodies(c: &mut Cur, ranges: &[(usize, usize)]) {
    // per-POU instruction streams (spec §7.3); anything not covered is labelled "code"
    let base = c.pos;
    let end = c.end;
    let mut covered = vec![false; end - base];
    let mut ranges: Vec<(usize, usize)> = ranges.to_vec();
    ranges.sort();
    ranges.dedup();
    for (o, l) in ranges {
        if o + l > end - base {
            continue;
        }
        let mut p = base + o;
        let stop = base + o + l;
        let mut tmp: Vec<Fld> = Vec::new();
        let mut ok = true;
        while p < stop {
            let op = c.b[p];
            let operands: &[(usize, &'static str, Role)] = match op {
                0x00 | 0x01 | 0x06 | 0x11..=0x15 | 0x23 | 0x31..=0x33 | 0x40..=0x4E | 0x50..=0x55 => &[],
                0x02..=0x04 => &[(4, "jump_offset", Role::Val)],
                0x05 => &[(4, "call_pou_id", Role::Index)],
                0x07 => &[(4, "method_slot", Role::Val)],
                0x08 => &[(4, "virt_type_id", Role::Index), (4, "virt_slot", Role::Val)],
                0x10 => &[(4, "const_idx", Role::Index)],
                0x16 => &[(1, "pick_n", Role::Val)],
                0x20..=0x22 => &[(4, "ref_idx", Role::Index)],
                0x30 => &[(4, "field_name_idx", Role::Index)],
                0x60 => &[(4, "cast_type_id", Role::Index)],
                0x70 => &[(4, "std_id", Role::Val)],
                _ => {
                    ok = false;
                    break;
                }
            };
            tmp.push(Fld { off: p, len: 1, sec: "POU_BODIES", name: "opcode", role: Role::Tag(0) });
            p += 1;
            for (n, name, role) in operands {
                if p + n > stop {
                    ok = false;
                    break;
                }
                tmp.push(Fld { off: p, len: *n, sec: "POU_BODIES", name, role: *role });
                p += n;
            }
            if !ok {
                break;
            }
        }
        if ok && tmp.iter().all(|f| (f.off..f.off + f.len).all(|q| !covered[q - base])) {
            for f in &tmp {
                for q in f.off..f.off + f.len {
                    covered[q - base] = true;
                }
            }
            c.out.extend(tmp);
        }
    }
    // uncovered bytes
    let mut q = base;
    while q < end {
        if covered[q - base] {
            q += 1;
            continue;
        }
        let s = q;
        while q < end && !covered[q - base] {
            q += 1;
        }
        c.out.push(Fld { off: s, len: q - s, sec: "POU_BODIES", name: "code", role: Role::Bytes });
    }
    c.pos = end;
}

/// Labels every byte of a VALID container. An error means the walker (machinery) and the
/// encoder disagree about the layout.
pub fn walk(b: &[u8]) -> Result<Layout, String> {
    if b.len() < 24 || &b[0..4] != b"STBC" {
        return Err("layout walker: no STBC header".into());
    }
    let mut lay = Layout::default();
    let mut c = Cur { b, pos: 0, end: 24, sec: "HEADER", out: Vec::new() };
    c.take(4, "magic", Role::Bytes)?;
    c.u16("version_major", Role::Val)?;
    let minor = c.u16("version_minor", Role::Val)?;
    c.u32("flags", Role::Val)?;
    c.u16("header_size", Role::Len)?;
    let nsec = c.u16("section_count", Role::Count)? as usize;
    let toff = c.u32("section_table_off", Role::Len)? as usize;
    c.u32("checksum", Role::Val)?;
    lay.minor = minor;
    if toff < 24 || toff + nsec * 12 > b.len() {
        return Err("layout walker: section table out of bounds".into());
    }
    c.sec = "SECTION_TABLE";
    c.pos = toff;
    c.end = toff + nsec * 12;
    for _ in 0..nsec {
        let eo = c.pos;
        let id = c.u16("id", Role::Tag(13))?;
        c.u16("flags", Role::Val)?;
        let off = c.u32("offset", Role::Len)? as usize;
        let len = c.u32("length", Role::Len)? as usize;
        if off + len > b.len() {
            return Err("layout walker: section out of bounds".into());
        }
        lay.secs.push(SecInfo { entry_off: eo, id, off, len });
    }
    // POU code ranges are needed for POU_BODIES; walk POU_INDEX before POU_BODIES
    let mut order: Vec<usize> = (0..lay.secs.len()).collect();
    order.sort_by_key(|&i| if lay.secs[i].id == 6 { 1 } else { 0 });
    let mut code_ranges: Vec<(usize, usize)> = Vec::new();
    for i in order {
        let s = lay.secs[i].clone();
        c.sec = section_name(s.id);
        c.pos = s.off;
        c.end = s.off + s.len;
        match s.id {
            1 | 10 => walk_string_table(&mut c, minor)?,
            2 => {
                let n = c.u32("count", Role::Count)? as usize;
                if minor >= 1 {
                    let mut offs = Vec::new();
                    for _ in 0..n {
                        offs.push(c.u32("entry_offset", Role::Len)? as usize);
                    }
                    for (k, o) in offs.iter().enumerate() {
                        if s.off + o != c.pos {
                            return Err(format!("layout walker: type entry {k} offset {o} not back-to-back"));
                        }
                        let st = c.pos;
                        walk_type_entry(&mut c)?;
                        lay.type_entries.push((st, c.pos));
                    }
                } else {
                    for _ in 0..n {
                        let st = c.pos;
                        walk_type_entry(&mut c)?;
                        lay.type_entries.push((st, c.pos));
                    }
                }
            }
            3 => {
                let n = c.u32("count", Role::Count)?;
                for _ in 0..n {
                    lay.const_type_fields.push(c.pos);
                    c.u32("type_id", Role::TypeRef)?;
                    let l = c.u32("payload_len", Role::Len)? as usize;
                    c.take(l, "payload", Role::Bytes)?;
                }
            }
            4 => {
                let n = c.u32("count", Role::Count)?;
                for _ in 0..n {
                    c.u8("location", Role::Tag(5))?;
                    c.u8("flags", Role::Val)?;
                    c.u16("reserved", Role::Val)?;
                    c.u32("owner_id", Role::Val)?;
                    c.u32("offset", Role::Val)?;
                    let m = c.u32("segment_count", Role::Count)?;
                    for _ in 0..m {
                        let k = c.u8("seg_kind", Role::Tag(2))?;
                        c.take(3, "seg_reserved", Role::Bytes)?;
                        if k == 0 {
                            let q = c.u32("index_count", Role::Count)?;
                            for _ in 0..q {
                                c.i64("index")?;
                            }
                        } else {
                            c.u32("field_name_idx", Role::Index)?;
                        }
                    }
                }
            }
            5 => {
                let n = c.u32("count", Role::Count)?;
                for _ in 0..n {
                    c.u32("id", Role::Val)?;
                    c.u32("name_idx", Role::Index)?;
                    let kind = c.u8("kind", Role::Tag(5))?;
                    c.u8("flags", Role::Val)?;
                    c.u16("reserved", Role::Val)?;
                    let co = c.u32("code_offset", Role::Len)? as usize;
                    let cl = c.u32("code_length", Role::Len)? as usize;
                    code_ranges.push((co, cl));
                    c.u32("local_ref_start", Role::Index)?;
                    c.u32("local_ref_count", Role::Val)?;
                    c.u32("return_type_id", Role::Index)?;
                    c.u32("owner_pou_id", Role::Index)?;
                    let pc = c.u32("param_count", Role::Count)?;
                    for _ in 0..pc {
                        c.u32("param_name_idx", Role::Index)?;
                        c.u32("param_type_id", Role::Index)?;
                        c.u8("param_direction", Role::Tag(3))?;
                        c.u8("param_flags", Role::Val)?;
                        c.u16("param_reserved", Role::Val)?;
                        if minor >= 1 {
                            c.u32("param_default_const_idx", Role::Index)?;
                        }
                    }
                    if kind == 1 || kind == 3 {
                        c.u32("parent_pou_id", Role::Index)?;
                        let ic = c.u32("interface_count", Role::Count)?;
                        for _ in 0..ic {
                            c.u32("interface_type_id", Role::Index)?;
                            let mc = c.u32("vtable_slot_count", Role::Count)?;
                            for _ in 0..mc {
                                c.u32("vtable_slot", Role::Val)?;
                            }
                        }
                        let mc = c.u32("method_count", Role::Count)?;
                        for _ in 0..mc {
                            c.u32("method_name_idx", Role::Index)?;
                            c.u32("method_pou_id", Role::Index)?;
                            c.u32("method_vtable_slot", Role::Val)?;
                            c.u8("method_access", Role::Tag(3))?;
                            c.u8("method_flags", Role::Val)?;
                            c.u16("method_reserved", Role::Val)?;
                        }
                    }
                }
            }
            6 => walk_pou_bodies(&mut c, &code_ranges),
            7 => {
                let n = c.u32("resource_count", Role::Count)?;
                for _ in 0..n {
                    c.u32("name_idx", Role::Index)?;
                    c.u32("inputs_size", Role::Len)?;
                    c.u32("outputs_size", Role::Len)?;
                    c.u32("memory_size", Role::Len)?;
                    let t = c.u32("task_count", Role::Count)?;
                    for _ in 0..t {
                        c.u32("task_name_idx", Role::Index)?;
                        c.u32("task_priority", Role::Val)?;
                        c.i64("task_interval")?;
                        c.u32("task_single_name_idx", Role::Index)?;
                        let p = c.u32("program_count", Role::Count)?;
                        for _ in 0..p {
                            c.u32("program_name_idx", Role::Index)?;
                        }
                        let f = c.u32("fb_ref_count", Role::Count)?;
                        for _ in 0..f {
                            c.u32("fb_ref_idx", Role::Index)?;
                        }
                    }
                }
            }
            8 => {
                let n = c.u32("binding_count", Role::Count)?;
                for _ in 0..n {
                    c.u32("address_str_idx", Role::Index)?;
                    c.u32("ref_idx", Role::Index)?;
                    c.u32("type_id", Role::Index)?;
                }
            }
            9 => {
                let n = c.u32("entry_count", Role::Count)?;
                for _ in 0..n {
                    c.u32("pou_id", Role::Index)?;
                    c.u32("code_offset", Role::Len)?;
                    c.u32("file_idx", Role::Index)?;
                    c.u32("line", Role::Val)?;
                    c.u32("column", Role::Val)?;
                    c.u8("kind", Role::Val)?;
                    c.take(3, "reserved", Role::Bytes)?;
                }
            }
            11 => {
                let n = c.u32("entry_count", Role::Count)?;
                for _ in 0..n {
                    c.u32("name_idx", Role::Index)?;
                    c.u32("type_id", Role::Index)?;
                    c.u32("ref_idx", Role::Index)?;
                    c.u8("retain", Role::Tag(4))?;
                    c.u8("reserved", Role::Val)?;
                    c.u16("reserved2", Role::Val)?;
                    c.u32("init_const_idx", Role::Index)?;
                }
            }
            12 => {
                let n = c.u32("entry_count", Role::Count)?;
                for _ in 0..n {
                    c.u32("ref_idx", Role::Index)?;
                    c.u32("const_idx", Role::Index)?;
                }
            }
            _ => {
                let l = c.end - c.pos;
                c.take(l, "raw", Role::Bytes)?;
            }
        }
        if c.pos != c.end {
            return Err(format!("layout walker: section {} has {} trailing bytes", c.sec, c.end - c.pos));
        }
    }
    let mut flds = std::mem::take(&mut c.out);
    flds.sort_by_key(|f| f.off);
    // gaps = padding
    let mut all = Vec::with_capacity(flds.len() + 16);
    let mut pos = 0usize;
    for f in flds {
        if f.off < pos {
            return Err(format!("layout walker: overlapping fields at {}", f.off));
        }
        if f.off > pos {
            all.push(Fld { off: pos, len: f.off - pos, sec: "PADDING", name: "pad", role: Role::Bytes });
        }
        pos = f.off + f.len;
        all.push(f);
    }
    if pos < b.len() {
        all.push(Fld { off: pos, len: b.len() - pos, sec: "PADDING", name: "pad", role: Role::Bytes });
    }
    lay.flds = all;
    Ok(lay)
}

// ------------------------------------------------------------------------------------------------
// mutation families
// ------------------------------------------------------------------------------------------------

pub const FAMILIES: &[&str] = &[
    "byte", "u16", "u32", "i64", "tag", "trunc", "trunc-fixup", "seclen", "table", "typeref", "header", "aggcycle",
];

// ---- family "aggregate type cycles": containers REBUILT (not edited in place) from a seed: type
// entries are appended / rewritten so that a type refers to itself through STRUCT / UNION / ARRAY
// (and, as controls, through exactly one ALIAS / SUBRANGE hop), and a CONST_POOL entry of that
// type is appended whose payload is the repetition that keeps the constant-payload walk of
// validate going: one `u32 count` per aggregate level. Lengths, offsets and CRC are produced by
// the subject's own `encode` (used as a builder only; nothing about it is judged here).

pub const AGG_LEVELS: &[usize] = &[1, 16, 256, 4096, 65_536, 1_048_576];

/// (shape, has an alias/subrange hop in the cycle)
pub const AGG_SHAPES: &[(&str, bool)] = &[
    ("struct-self", false),
    ("union-self", false),
    ("array-self", false),
    ("struct<->array", false),
    ("struct<->union", false),
    ("array<->union", false),
    ("rewrite-struct-self", false),
    ("rewrite-union-self", false),
    ("rewrite-array-self", false),
    ("struct->alias->struct", true),
    ("array->subrange->array", true),
    ("union->subrange->union", true),
    ("struct->array->alias->struct", true),
];

fn agg_class(shape: &str) -> &'static str {
    match AGG_SHAPES.iter().find(|(n, _)| *n == shape) {
        Some((_, true)) => "cycle-with-alias-hop",
        _ => "aggregate-only-cycle",
    }
}

/// Builds the container of one (shape, levels) recipe from a valid seed. None = the shape does not
/// apply to this seed (no string to name a field with, no entry of the kind to rewrite) or the
/// builder failed.
pub fn agg_container(seed: &[u8], shape: &str, levels: usize) -> Option<Vec<u8>> {
    catch(|| {
        let mut m = BytecodeModule::decode(seed).ok()?;
        let has_string = matches!(m.section(SectionId::StringTable), Some(SectionData::StringTable(t)) if !t.entries.is_empty());
        if !has_string {
            return None;
        }
        let mk = |kind: TypeKind, data: TypeData| TypeEntry { kind, name_idx: None, data };
        let st = |to: u32| mk(TypeKind::Struct, TypeData::Struct { fields: vec![Field { name_idx: 0, type_id: to }] });
        let un = |to: u32| mk(TypeKind::Union, TypeData::Union { fields: vec![Field { name_idx: 0, type_id: to }] });
        let ar = |to: u32| mk(TypeKind::Array, TypeData::Array { elem_type_id: to, dims: vec![(0, 0)] });
        let al = |to: u32| mk(TypeKind::Alias, TypeData::Alias { target_type_id: to });
        let su = |to: u32| mk(TypeKind::Subrange, TypeData::Subrange { base_type_id: to, lower: 0, upper: 0 });
        let (const_type, word): (u32, u32);
        {
            let Some(SectionData::TypeTable(tt)) = m.section_mut(SectionId::TypeTable) else { return None };
            let t = tt.entries.len() as u32;
            const_type = t;
            word = 1;
            let mut rewritten: Option<(u32, u32)> = None;
            match shape {
                "struct-self" => tt.entries.push(st(t)),
                "union-self" => tt.entries.push(un(t)),
                "array-self" => tt.entries.push(ar(t)),
                "struct<->array" => tt.entries.extend([st(t + 1), ar(t)]),
                "struct<->union" => tt.entries.extend([st(t + 1), un(t)]),
                "array<->union" => tt.entries.extend([ar(t + 1), un(t)]),
                "struct->alias->struct" => tt.entries.extend([st(t + 1), al(t)]),
                "array->subrange->array" => tt.entries.extend([ar(t + 1), su(t)]),
                "union->subrange->union" => tt.entries.extend([un(t + 1), su(t)]),
                "struct->array->alias->struct" => tt.entries.extend([st(t + 1), ar(t + 2), al(t)]),
                "rewrite-struct-self" | "rewrite-union-self" | "rewrite-array-self" => {
                    for (i, e) in tt.entries.iter_mut().enumerate() {
                        let i = i as u32;
                        match (&mut e.data, shape) {
                            (TypeData::Struct { fields }, "rewrite-struct-self") | (TypeData::Union { fields }, "rewrite-union-self") if !fields.is_empty() => {
                                fields[0].type_id = i;
                                rewritten = Some((i, fields.len() as u32));
                            }
                            (TypeData::Array { elem_type_id, .. }, "rewrite-array-self") => {
                                *elem_type_id = i;
                                rewritten = Some((i, 1));
                            }
                            _ => continue,
                        }
                        break;
                    }
                    rewritten?;
                }
                _ => return None,
            }
            tt.offsets.clear();
            if let Some((i, w)) = rewritten {
                // const of the rewritten entry; every level = `u32 field_count` (first field recurses)
                let mut payload = Vec::with_capacity(levels * 4);
                for _ in 0..levels {
                    payload.extend_from_slice(&w.to_le_bytes());
                }
                let Some(SectionData::ConstPool(cp)) = m.section_mut(SectionId::ConstPool) else { return None };
                cp.entries.push(ConstEntry { type_id: i, payload });
                return m.encode().ok();
            }
        }
        let mut payload = Vec::with_capacity(levels * 4);
        for _ in 0..levels {
            payload.extend_from_slice(&word.to_le_bytes());
        }
        let Some(SectionData::ConstPool(cp)) = m.section_mut(SectionId::ConstPool) else { return None };
        cp.entries.push(ConstEntry { type_id: const_type, payload });
        m.encode().ok()
    })
    .ok()
    .flatten()
}

#[derive(Clone, Copy)]
pub struct Edit {
    pub off: u32,
    pub len: u8,
    pub data: [u8; 12],
}

#[derive(Clone, Copy)]
pub struct Mutant {
    pub family: u8,
    pub fix: bool,
    /// u32::MAX = no truncation
    pub trunc: u32,
    pub e0: u32,
    pub en: u8,
    /// offset whose layout label names the mutant
    pub at: u32,
}

pub struct MutSet {
    pub muts: Vec<Mutant>,
    pub edits: Vec<Edit>,
    pub per_family: BTreeMap<&'static str, u64>,
    pub duplicates_dropped: u64,
}

impl MutSet {
    pub fn edits_of(&self, m: &Mutant) -> &[Edit] {
        &self.edits[m.e0 as usize..m.e0 as usize + m.en as usize]
    }
    pub fn apply(&self, m: &Mutant, seed: &[u8]) -> Vec<u8> {
        apply_mut(seed, m.trunc, m.fix, self.edits_of(m).iter().map(|e| (e.off as usize, &e.data[..e.len as usize])))
    }
    /// compact text form understood by the worker: `<fam>/<trunc|->/<0|1>/<off>:<hex>[,<off>:<hex>]*`
    pub fn text(&self, m: &Mutant) -> String {
        let mut s = String::new();
        s.push_str(&m.family.to_string());
        s.push('/');
        if m.trunc == u32::MAX {
            s.push('-');
        } else {
            s.push_str(&m.trunc.to_string());
        }
        s.push('/');
        s.push(if m.fix { '1' } else { '0' });
        s.push('/');
        for (k, e) in self.edits_of(m).iter().enumerate() {
            if k > 0 {
                s.push(',');
            }
            s.push_str(&e.off.to_string());
            s.push(':');
            s.push_str(&hex(&e.data[..e.len as usize]));
        }
        s
    }
    pub fn describe(&self, m: &Mutant) -> String {
        let mut s = String::new();
        if m.trunc != u32::MAX {
            s.push_str(&format!("truncate to {} bytes; ", m.trunc));
        }
        for e in self.edits_of(m) {
            s.push_str(&format!("bytes[{}..{}] <- {}; ", e.off, e.off + e.len as u32, hex(&e.data[..e.len as usize])));
        }
        s.push_str(if m.fix { "CRC recomputed" } else { "CRC left" });
        s
    }
}

fn apply_mut<'a>(seed: &[u8], trunc: u32, fix: bool, edits: impl Iterator<Item = (usize, &'a [u8])>) -> Vec<u8> {
    let mut b = seed.to_vec();
    if trunc != u32::MAX {
        b.truncate(trunc as usize);
    }
    for (off, data) in edits {
        for (k, x) in data.iter().enumerate() {
            if off + k < b.len() {
                b[off + k] = *x;
            }
        }
    }
    if fix {
        fix_crc(&mut b);
    }
    b
}

/// parses the text form; returns (family, trunc, fix, edits)
fn parse_mut(t: &str) -> Option<(u8, u32, bool, Vec<(usize, Vec<u8>)>)> {
    let mut it = t.splitn(4, '/');
    let fam: u8 = it.next()?.parse().ok()?;
    let tr = it.next()?;
    let trunc = if tr == "-" { u32::MAX } else { tr.parse().ok()? };
    let fix = it.next()? == "1";
    let mut edits = Vec::new();
    let rest = it.next()?;
    if !rest.is_empty() {
        for e in rest.split(',') {
            let (o, h) = e.split_once(':')?;
            edits.push((o.parse().ok()?, unhex(h)));
        }
    }
    Some((fam, trunc, fix, edits))
}

const OPCODES: &[u8] = &[
    0x00, 0x01, 0x02, 0x03, 0x04, 0x05, 0x06, 0x07, 0x08, 0x10, 0x11, 0x12, 0x13, 0x14, 0x15, 0x16, 0x20, 0x21, 0x22,
    0x23, 0x30, 0x31, 0x32, 0x33, 0x40, 0x41, 0x42, 0x43, 0x44, 0x45, 0x46, 0x47, 0x48, 0x49, 0x4A, 0x4B, 0x4C, 0x4D,
    0x4E, 0x50, 0x51, 0x52, 0x53, 0x54, 0x55, 0x60, 0x70, /* undefined: */ 0x09, 0x80, 0xF0,
];

struct Gen<'a> {
    seed: &'a [u8],
    set: MutSet,
    seen: HashSet<u64>,
}

impl<'a> Gen<'a> {
    fn push(&mut self, family: &'static str, trunc: Option<usize>, fix: bool, at: usize, edits: &[(usize, &[u8])]) {
        let trunc = trunc.map(|t| t as u32).unwrap_or(u32::MAX);
        let out = apply_mut(self.seed, trunc, fix, edits.iter().map(|(o, d)| (*o, *d)));
        if out == self.seed {
            return;
        }
        if !self.seen.insert(fnv(&out) ^ (out.len() as u64).rotate_left(48)) {
            self.set.duplicates_dropped += 1;
            return;
        }
        let e0 = self.set.edits.len() as u32;
        let mut en = 0u8;
        for (o, d) in edits {
            // split into chunks of at most 12 bytes
            for (k, ch) in d.chunks(12).enumerate() {
                let mut data = [0u8; 12];
                data[..ch.len()].copy_from_slice(ch);
                self.set.edits.push(Edit { off: (*o + k * 12) as u32, len: ch.len() as u8, data });
                en += 1;
            }
        }
        let fam = FAMILIES.iter().position(|f| *f == family).expect("family") as u8;
        self.set.muts.push(Mutant { family: fam, fix, trunc, e0, en, at: at as u32 });
        *self.set.per_family.entry(family).or_insert(0) += 1;
    }
}

/// Enumerates all mutants of one valid container (deterministic, duplicates by resulting bytes
/// dropped, the identity dropped).
pub fn mutants(seed: &[u8], lay: &Layout, header_product: bool) -> MutSet {
    let n = seed.len();
    let mut g = Gen {
        seed,
        set: MutSet { muts: Vec::new(), edits: Vec::new(), per_family: BTreeMap::new(), duplicates_dropped: 0 },
        seen: HashSet::new(),
    };
    let sec_len_at = |o: usize| -> (usize, usize) {
        // (length of the enclosing section or the file, bytes remaining after a 4-byte field)
        match lay.section_of(o) {
            Some(s) => (s.len, (s.off + s.len).saturating_sub(o + 4)),
            None => (n, n.saturating_sub(o + 4)),
        }
    };

    // F1 every byte
    for o in 0..n {
        let b = seed[o];
        let fix = !(20..24).contains(&o);
        for v in [0x00, 0x01, 0x7F, 0x80, 0xFF, b.wrapping_add(1), b.wrapping_sub(1)] {
            g.push("byte", None, fix, o, &[(o, &[v])]);
        }
    }
    // F2 u16: every even offset + every 2-byte field of the layout
    let mut pos16: BTreeSet<usize> = (0..n.saturating_sub(1)).step_by(2).collect();
    pos16.extend(lay.flds.iter().filter(|f| f.len == 2).map(|f| f.off));
    for &o in &pos16 {
        // the checksum field itself is covered by the byte family (recomputing would undo it)
        if o + 2 > n || (19..24).contains(&o) {
            continue;
        }
        let v = rd16(seed, o);
        let (sl, _) = sec_len_at(o);
        let mut vals: Vec<u16> = vec![0, 1, 0x7fff, 0x8000, 0xffff, v.wrapping_add(1), v.wrapping_sub(1)];
        if sl <= 0xffff {
            vals.push(sl as u16);
            vals.push((sl as u16).wrapping_add(1));
        }
        for x in vals {
            g.push("u16", None, true, o, &[(o, &x.to_le_bytes())]);
        }
    }
    // F3 u32: every 4-aligned offset + every 4-byte field of the layout
    let mut pos32: BTreeSet<usize> = (0..n.saturating_sub(3)).step_by(4).collect();
    pos32.extend(lay.flds.iter().filter(|f| f.len == 4).map(|f| f.off));
    for &o in &pos32 {
        if o + 4 > n || (17..24).contains(&o) {
            continue;
        }
        let v = rd32(seed, o);
        let (sl, rem) = sec_len_at(o);
        let vals: [u32; 16] = [
            0, 1, 0x7fff, 0x8000, 0xffff, 0x7fff_ffff, 0x8000_0000, 0xffff_ffff,
            v.wrapping_add(1), v.wrapping_sub(1), sl as u32, sl as u32 + 1, n as u32, n as u32 + 1, rem as u32, rem as u32 + 1,
        ];
        for x in vals {
            g.push("u32", None, true, o, &[(o, &x.to_le_bytes())]);
        }
    }
    // F4 i64 fields
    for f in lay.flds.iter().filter(|f| f.len == 8) {
        let o = f.off;
        let v = i64::from_le_bytes(seed[o..o + 8].try_into().unwrap());
        for x in [0i64, 1, -1, i64::MIN, i64::MAX, 0x7fff_ffff, 0x8000_0000, 0xffff_ffff, v.wrapping_add(1), v.wrapping_sub(1), i64::MIN + 1, i64::MAX - 1] {
            g.push("i64", None, true, o, &[(o, &x.to_le_bytes())]);
        }
    }
    // F5 tags: every value of the tag's domain plus the first invalid one; opcodes: every defined opcode + 3 undefined
    for f in lay.flds.iter() {
        if let Role::Tag(d) = f.role {
            if f.len != 1 {
                continue;
            }
            if d == 0 {
                for &op in OPCODES {
                    g.push("tag", None, true, f.off, &[(f.off, &[op])]);
                }
            } else {
                for v in 0..=d {
                    g.push("tag", None, true, f.off, &[(f.off, &[v])]);
                }
            }
        }
    }
    // F6 every truncation (raw, CRC recomputed)
    for l in 0..n {
        g.push("trunc", Some(l), true, l, &[]);
    }
    // F6b every truncation with the section table repaired so that framing passes: sections cut by
    // the new end are shortened, sections entirely beyond it become empty sections at offset 24
    let table_end = lay.secs.iter().map(|s| s.entry_off + 12).max().unwrap_or(24);
    for l in table_end..n {
        let mut owned: Vec<(usize, [u8; 8])> = Vec::new();
        for s in &lay.secs {
            if s.off + s.len <= l {
                continue;
            }
            let (no, nl) = if s.off >= l { (24usize, 0usize) } else { (s.off, l - s.off) };
            let mut d = [0u8; 8];
            d[..4].copy_from_slice(&(no as u32).to_le_bytes());
            d[4..].copy_from_slice(&(nl as u32).to_le_bytes());
            owned.push((s.entry_off + 4, d));
        }
        let edits: Vec<(usize, &[u8])> = owned.iter().map(|(o, d)| (*o, &d[..])).collect();
        g.push("trunc-fixup", Some(l), true, l, &edits);
    }
    // F7 every section shortened to every length (payload bytes stay in the file as a gap)
    for s in &lay.secs {
        for l in 0..s.len {
            g.push("seclen", None, true, s.off + l, &[(s.entry_off + 8, &(l as u32).to_le_bytes())]);
        }
    }
    // F8 section table: swaps, copies, id retagging, aliasing, extension into the neighbour, table relocation
    let k = lay.secs.len();
    for i in 0..k {
        let ei = lay.secs[i].entry_off;
        for j in 0..k {
            if i == j {
                continue;
            }
            let ej = lay.secs[j].entry_off;
            if i < j {
                let a = seed[ei..ei + 12].to_vec();
                let b = seed[ej..ej + 12].to_vec();
                g.push("table", None, true, ei, &[(ei, &b), (ej, &a)]);
            }
            // copy entry j over entry i (duplicate)
            let b = seed[ej..ej + 12].to_vec();
            g.push("table", None, true, ei, &[(ei, &b)]);
            // entry i aliases the payload of j (empty / own length / j's length)
            let oj = (lay.secs[j].off as u32).to_le_bytes();
            for l in [0u32, lay.secs[i].len as u32, lay.secs[j].len as u32] {
                g.push("table", None, true, ei + 4, &[(ei + 4, &oj), (ei + 8, &l.to_le_bytes())]);
            }
        }
        for id in (0u16..=13).chain([0x8000, 0xffff]) {
            g.push("table", None, true, ei, &[(ei, &id.to_le_bytes())]);
        }
        // extend into the next section in file order
        if let Some(nx) = lay.secs.iter().filter(|s| s.off > lay.secs[i].off).min_by_key(|s| s.off) {
            let l = (nx.off + nx.len - lay.secs[i].off) as u32;
            g.push("table", None, true, ei + 8, &[(ei + 8, &l.to_le_bytes())]);
            let l = (nx.off + 4 - lay.secs[i].off) as u32;
            g.push("table", None, true, ei + 8, &[(ei + 8, &l.to_le_bytes())]);
        }
        // section table relocated onto this section's payload
        g.push("table", None, true, 16, &[(16, &(lay.secs[i].off as u32).to_le_bytes())]);
    }
    // F9 type references: every type-id field of the type table and of the const pool <- every
    // type index (incl. itself); self/2-cycle aliases combined with a constant of that type
    let t = lay.type_entries.len();
    let entry_of = |off: usize| lay.type_entries.iter().position(|(s, e)| *s <= off && off < *e);
    let consts: Vec<usize> = lay.const_type_fields.clone();
    for f in lay.flds.iter().filter(|f| f.role == Role::TypeRef) {
        for j in 0..t {
            g.push("typeref", None, true, f.off, &[(f.off, &(j as u32).to_le_bytes())]);
        }
        if f.sec == "TYPE_TABLE" {
            if let Some(i) = entry_of(f.off) {
                for &c in consts.iter().take(3) {
                    g.push("typeref", None, true, f.off, &[(f.off, &(i as u32).to_le_bytes()), (c, &(i as u32).to_le_bytes())]);
                }
            }
        }
    }
    // entries whose payload is exactly 4 bytes can be re-tagged ALIAS / REFERENCE in place
    let small: Vec<usize> = (0..t).filter(|&i| lay.type_entries[i].1 - lay.type_entries[i].0 == 12).collect();
    for &i in &small {
        let (s, _) = lay.type_entries[i];
        for kind in [4u8, 6u8] {
            for &c in consts.iter().take(3) {
                // self cycle
                g.push("typeref", None, true, s, &[(s, &[kind]), (s + 8, &(i as u32).to_le_bytes()), (c, &(i as u32).to_le_bytes())]);
                // 2-cycles
                for &j in small.iter().filter(|&&j| j != i) {
                    let (sj, _) = lay.type_entries[j];
                    g.push(
                        "typeref",
                        None,
                        true,
                        s,
                        &[(s, &[kind]), (s + 8, &(j as u32).to_le_bytes()), (sj, &[4u8]), (sj + 8, &(i as u32).to_le_bytes()), (c, &(i as u32).to_le_bytes())],
                    );
                }
            }
        }
    }
    // F10 header product (boundary values of every header field, body unchanged)
    if header_product && n >= 24 {
        let nsec = lay.secs.len() as u16;
        for major in [0u16, 1, 2, 0xffff] {
            for minor in [0u16, 1, 2, 0xffff] {
                for flags in [0u32, 1, 2, 0xffff_ffff] {
                    for hs in [0u16, 23, 24, 25, 0xffff] {
                        for cnt in [0u16, 1, nsec, nsec.wrapping_add(1), 0xffff] {
                            for toff in [0u32, 20, 24, 28, n as u32, 0xffff_fffc, 0xffff_ffff] {
                                g.push(
                                    "header",
                                    None,
                                    true,
                                    4,
                                    &[
                                        (4, &major.to_le_bytes()),
                                        (6, &minor.to_le_bytes()),
                                        (8, &flags.to_le_bytes()),
                                        (12, &hs.to_le_bytes()),
                                        (14, &cnt.to_le_bytes()),
                                        (16, &toff.to_le_bytes()),
                                    ],
                                );
                            }
                        }
                    }
                }
            }
        }
    }
    g.set
}

// ------------------------------------------------------------------------------------------------
// the per-mutant pipeline (runs inside an iso worker process)
// ------------------------------------------------------------------------------------------------

const STAGES: &[&str] = &["start", "decode", "validate", "metadata", "encode", "build-runtime", "apply", "hot-reload"];

static PANIC_LOC: std::sync::Mutex<String> = std::sync::Mutex::new(String::new());

fn install_hook() {
    static ONCE: std::sync::Once = std::sync::Once::new();
    ONCE.call_once(|| {
        std::panic::set_hook(Box::new(|info| {
            let loc = info.location().map(|l| format!("{}:{}", l.file(), l.line())).unwrap_or_default();
            if let Ok(mut g) = PANIC_LOC.lock() {
                *g = loc;
            }
        }));
    });
}

fn last_panic_loc() -> String {
    PANIC_LOC.lock().map(|g| g.clone()).unwrap_or_default()
}

struct WorkCtx {
    session: CompileSession,
    /// runtime used for containers that do not validate (apply returns before touching it)
    scratch: Option<trust_runtime::Runtime>,
    /// runtime that has only ever received metadata equal to the seed's
    same_meta: Option<trust_runtime::Runtime>,
    seed_meta: Option<String>,
    runtime_builds: u64,
}

impl WorkCtx {
    fn new(prog: Prog, seed: Option<&[u8]>) -> WorkCtx {
        let session = prog.session();
        let seed_meta = seed.and_then(|b| {
            catch(|| BytecodeModule::decode(b).ok().and_then(|m| m.metadata().ok()).map(|m| format!("{m:?}"))).ok().flatten()
        });
        WorkCtx { session, scratch: None, same_meta: None, seed_meta, runtime_builds: 0 }
    }
    fn build(&mut self) -> Option<trust_runtime::Runtime> {
        self.runtime_builds += 1;
        let s = &self.session;
        match catch(|| s.build_runtime()) {
            Ok(Ok(r)) => Some(r),
            _ => None,
        }
    }
}

#[derive(Default)]
struct PipeOut {
    outcome: String,
    nontrivial: bool,
    validated: bool,
    /// (clause, stage, panic message, panic location)
    viol: Vec<(String, String, String, String)>,
    machinery: Option<String>,
    /// panicked on the re-used runtime but not on a fresh one
    diverged: bool,
}

fn err_name<E: std::fmt::Debug>(e: &E) -> String {
    variant_of(&format!("{e:?}"))
}

/// apply + hot reload continuation (scheduler.rs `ReloadBytecode`: apply -> warm restart ->
/// load retain store -> metadata snapshot). Ok(outcome) | Err((stage, panic message))
fn apply_on(rt: &mut trust_runtime::Runtime, bytes: &[u8], mark: &mut dyn FnMut(u8)) -> Result<String, (usize, String)> {
    mark(6);
    let r = catch(|| rt.apply_bytecode_bytes(bytes, None)).map_err(|m| (6usize, m))?;
    match r {
        Err(e) => Ok(format!("A:{}", err_name(&e))),
        Ok(()) => {
            mark(7);
            let r = catch(|| {
                let a = rt.restart(trust_runtime::RestartMode::Warm).is_ok();
                let b = rt.load_retain_store().is_ok();
                let _ = rt.metadata_snapshot();
                (a, b)
            })
            .map_err(|m| (7usize, m))?;
            Ok(if r.0 && r.1 { "A:ok".to_string() } else { "A:ok/reload-err".to_string() })
        }
    }
}

fn pipeline(bytes: &[u8], ctx: &mut WorkCtx, mark: &mut dyn FnMut(u8)) -> PipeOut {
    let mut out = PipeOut::default();
    let pv = |stage: usize, m: String| ("panic".to_string(), STAGES[stage].to_string(), m, last_panic_loc());
    mark(1);
    let module = match catch(|| BytecodeModule::decode(bytes)) {
        Err(m) => {
            out.viol.push(pv(1, m));
            out.outcome = "D:panic".into();
            None
        }
        Ok(Err(e)) => {
            let n = err_name(&e);
            out.nontrivial = bytes.len() >= 24 && (n == "UnexpectedEof" || n.starts_with("InvalidSection:"));
            out.outcome = format!("D:{n}");
            None
        }
        Ok(Ok(m)) => {
            out.nontrivial = true;
            Some(m)
        }
    };
    let mut meta_dbg: Option<String> = None;
    if let Some(m) = &module {
        mark(2);
        match catch(|| m.validate()) {
            Err(p) => {
                out.viol.push(pv(2, p));
                out.outcome = "V:panic".into();
            }
            Ok(Err(e)) => out.outcome = format!("V:{}", err_name(&e)),
            Ok(Ok(())) => out.validated = true,
        }
        mark(3);
        match catch(|| m.metadata()) {
            Err(p) => out.viol.push(pv(3, p)),
            Ok(Ok(md)) => meta_dbg = Some(format!("{md:?}")),
            Ok(Err(_)) => {}
        }
        // informational only (not an oracle clause): re-encoding a decoded mutant
        mark(4);
        let _ = catch(|| m.encode());
    }
    if out.validated {
        let same = meta_dbg.is_some() && meta_dbg == ctx.seed_meta;
        if same {
            if ctx.same_meta.is_none() {
                mark(5);
                ctx.same_meta = ctx.build();
            }
            let Some(rt) = ctx.same_meta.as_mut() else {
                out.machinery = Some("cannot build the runtime of the seed program".into());
                return out;
            };
            match apply_on(rt, bytes, mark) {
                Ok(o) => {
                    out.outcome = o;
                    return out;
                }
                Err(_) => {
                    // decide on a fresh runtime below
                    ctx.same_meta = None;
                }
            }
        }
        mark(5);
        let Some(mut rt) = ctx.build() else {
            out.machinery = Some("cannot build the runtime of the seed program".into());
            return out;
        };
        match apply_on(&mut rt, bytes, mark) {
            Ok(o) => {
                if same {
                    out.diverged = true;
                }
                out.outcome = o;
            }
            Err((stage, m)) => {
                out.viol.push(pv(stage, m));
                out.outcome = "A:panic".into();
            }
        }
    } else if out.viol.is_empty() {
        // apply_bytecode_bytes must also terminate on containers that do not decode / validate
        // (skipped when decode/validate already panicked: apply runs the same two functions first)
        if ctx.scratch.is_none() {
            mark(5);
            ctx.scratch = ctx.build();
        }
        let Some(rt) = ctx.scratch.as_mut() else {
            out.machinery = Some("cannot build the runtime of the seed program".into());
            return out;
        };
        mark(6);
        match catch(|| rt.apply_bytecode_bytes(bytes, None)) {
            Err(m) => {
                out.viol.push(pv(6, m));
                ctx.scratch = None;
            }
            Ok(Ok(())) => out.outcome.push_str("+applied"),
            Ok(Err(_)) => {}
        }
    }
    out
}

// ---- fork server: the iso worker forks one child per run of mutants; the child streams a
// progress record before every stage and a result record after every mutant, so that a death
// (abort / stack overflow / kill after timeout) is attributed to exactly one mutant and stage,
// nothing before it is lost, and the next child starts from the pristine parent image. A death
// that did not happen on the first mutant of a child is re-tried in a fresh child first.

fn fd_write_all(fd: i32, mut buf: &[u8]) {
    while !buf.is_empty() {
        // SAFETY: plain write(2) on a pipe fd owned by this process
        let n = unsafe { libc::write(fd, buf.as_ptr() as *const libc::c_void, buf.len()) };
        if n <= 0 {
            return;
        }
        buf = &buf[n as usize..];
    }
}

enum MutRes {
    Done(Value),
    /// (stage, "died"|"timeout", message)
    Death(u8, &'static str, String),
}

struct Served {
    res: Vec<MutRes>,
    retried: u64,
    forks: u64,
}

/// Runs `n` inputs (`input(k)` = bytes of mutant k) in forked children of this process.
fn serve(ctx: &mut WorkCtx, n: usize, input: &dyn Fn(usize) -> Vec<u8>, limit_ms: i32) -> Result<Served, String> {
    let mut out = Served { res: Vec::with_capacity(n), retried: 0, forks: 0 };
    let mut i = 0usize;
    while i < n {
        let start = i;
        let mut rp = [0i32; 2];
        let mut ep = [0i32; 2];
        // SAFETY: libc pipe/fork/dup2/close/poll/read/waitpid/kill used in the documented way
        unsafe {
            if libc::pipe(rp.as_mut_ptr()) != 0 || libc::pipe(ep.as_mut_ptr()) != 0 {
                return Err("pipe() failed".into());
            }
        }
        out.forks += 1;
        let pid = unsafe { libc::fork() };
        if pid < 0 {
            return Err("fork() failed".into());
        }
        if pid == 0 {
            // ---- child ----
            unsafe {
                libc::close(rp[0]);
                libc::close(ep[0]);
                libc::dup2(ep[1], 2);
                libc::close(ep[1]);
            }
            let w = rp[1];
            for k in start..n {
                let bytes = input(k);
                let k32 = k as u32;
                let o = pipeline(&bytes, ctx, &mut |s| {
                    let mut rec = [0u8; 6];
                    rec[0] = b'S';
                    rec[1..5].copy_from_slice(&k32.to_le_bytes());
                    rec[5] = s;
                    fd_write_all(w, &rec);
                });
                let v = json!({"o": o.outcome, "n": o.nontrivial, "v": o.validated, "m": o.machinery, "d": o.diverged,
                               "p": o.viol.iter().map(|(c, s, d, l)| json!([c, s, d, l])).collect::<Vec<_>>()});
                let body = v.to_string().into_bytes();
                let mut rec = Vec::with_capacity(body.len() + 9);
                rec.push(b'R');
                rec.extend_from_slice(&k32.to_le_bytes());
                rec.extend_from_slice(&(body.len() as u32).to_le_bytes());
                rec.extend_from_slice(&body);
                fd_write_all(w, &rec);
            }
            unsafe { libc::_exit(0) }
        }
        // ---- parent ----
        unsafe {
            libc::close(rp[1]);
            libc::close(ep[1]);
        }
        let r = rp[0];
        let mut buf: Vec<u8> = Vec::new();
        let mut last: Option<(usize, u8)> = None;
        let mut timed_out = false;
        loop {
            let mut pfd = libc::pollfd { fd: r, events: libc::POLLIN, revents: 0 };
            let pr = unsafe { libc::poll(&mut pfd, 1, limit_ms) };
            if pr == 0 {
                timed_out = true;
                unsafe {
                    libc::kill(pid, libc::SIGKILL);
                }
                break;
            }
            if pr < 0 {
                continue;
            }
            let mut tmp = [0u8; 65536];
            let nr = unsafe { libc::read(r, tmp.as_mut_ptr() as *mut libc::c_void, tmp.len()) };
            if nr <= 0 {
                break;
            }
            buf.extend_from_slice(&tmp[..nr as usize]);
            // parse complete records
            let mut pos = 0usize;
            loop {
                if pos >= buf.len() {
                    break;
                }
                match buf[pos] {
                    b'S' => {
                        if pos + 6 > buf.len() {
                            break;
                        }
                        last = Some((rd32(&buf, pos + 1) as usize, buf[pos + 5]));
                        pos += 6;
                    }
                    b'R' => {
                        if pos + 9 > buf.len() {
                            break;
                        }
                        let k = rd32(&buf, pos + 1) as usize;
                        let l = rd32(&buf, pos + 5) as usize;
                        if pos + 9 + l > buf.len() {
                            break;
                        }
                        let v: Value = serde_json::from_slice(&buf[pos + 9..pos + 9 + l]).map_err(|e| format!("bad child record: {e}"))?;
                        if k != out.res.len() {
                            return Err(format!("child result for mutant {k}, expected {}", out.res.len()));
                        }
                        out.res.push(MutRes::Done(v));
                        pos += 9 + l;
                    }
                    x => return Err(format!("bad child record tag {x}")),
                }
            }
            buf.drain(..pos);
        }
        let mut status = 0i32;
        unsafe {
            libc::waitpid(pid, &mut status, 0);
            libc::close(r);
        }
        // child's stderr (abort message)
        let mut emsg = Vec::new();
        loop {
            let mut tmp = [0u8; 4096];
            let nr = unsafe { libc::read(ep[0], tmp.as_mut_ptr() as *mut libc::c_void, tmp.len()) };
            if nr <= 0 {
                break;
            }
            emsg.extend_from_slice(&tmp[..nr as usize]);
            if emsg.len() > 1 << 16 {
                break;
            }
        }
        unsafe {
            libc::close(ep[0]);
        }
        i = out.res.len();
        if i >= n && !timed_out && libc::WIFEXITED(status) && libc::WEXITSTATUS(status) == 0 {
            break;
        }
        if i >= n {
            break;
        }
        // the child died (or was killed) while working on mutant i
        let (k, stage) = match last {
            Some((k, s)) if k == i => (k, s),
            _ => (i, 0u8),
        };
        if k > start {
            // not the first mutant of that child: decide in a fresh child
            out.retried += 1;
            continue;
        }
        let text = String::from_utf8_lossy(&emsg);
        let tail: Vec<&str> = text.lines().filter(|l| !l.trim().is_empty()).collect();
        let tail = tail.iter().rev().take(3).rev().cloned().collect::<Vec<_>>().join(" | ");
        let desc = if libc::WIFSIGNALED(status) { format!("signal {}", libc::WTERMSIG(status)) } else { format!("exit status {}", libc::WEXITSTATUS(status)) };
        out.res.push(MutRes::Death(stage, if timed_out { "timeout" } else { "died" }, format!("{desc}: {tail}")));
        i += 1;
    }
    Ok(out)
}

/// iso worker. Two request forms:
///  {"mode":"batch","seed_file":..,"prog_file":..,"muts":"<text> <text> ..."}
///  {"mode":"one","bytes_hex":..,"prog":{..}}
/// Reply: {"hist":{family|outcome: n}, "viol":[[k,clause,stage,msg,loc]..], "deaths":[[k,stage,kind,msg]..], ...}
pub fn worker(case: &Value) -> Value {
    install_hook();
    let limit_ms = case["limit_ms"].as_i64().unwrap_or(60_000) as i32;
    let (mut ctx, inputs): (WorkCtx, Vec<(u8, Vec<u8>)>) = match case["mode"].as_str() {
        Some("batch") => {
            let seed = match std::fs::read(case["seed_file"].as_str().unwrap_or("")) {
                Ok(b) => b,
                Err(e) => return json!({"machinery": format!("cannot read seed file: {e}")}),
            };
            let prog = match std::fs::read_to_string(case["prog_file"].as_str().unwrap_or("")).ok().and_then(|t| serde_json::from_str::<Value>(&t).ok()) {
                Some(v) => Prog::from_json(&v),
                None => return json!({"machinery": "cannot read prog file"}),
            };
            let mut inputs = Vec::new();
            for t in case["muts"].as_str().unwrap_or("").split(' ').filter(|t| !t.is_empty()) {
                let Some((fam, trunc, fix, edits)) = parse_mut(t) else {
                    return json!({"machinery": format!("bad mutant text {t}")});
                };
                inputs.push((fam, apply_mut(&seed, trunc, fix, edits.iter().map(|(o, d)| (*o, &d[..])))));
            }
            (WorkCtx::new(prog, Some(&seed)), inputs)
        }
        Some("one") => {
            let bytes = unhex(case["bytes_hex"].as_str().unwrap_or(""));
            (WorkCtx::new(Prog::from_json(&case["prog"]), None), vec![(0u8, bytes)])
        }
        Some("agg") => {
            // {"mode":"agg", "seed_file"|"seed_hex", "prog_file"|"prog", "recipes":[[shape, levels]..]}
            let seed = match (case["seed_file"].as_str(), case["seed_hex"].as_str()) {
                (Some(f), _) => match std::fs::read(f) {
                    Ok(b) => b,
                    Err(e) => return json!({"machinery": format!("cannot read seed file: {e}")}),
                },
                (None, Some(h)) => unhex(h),
                _ => return json!({"machinery": "agg: no seed"}),
            };
            let prog = match case["prog_file"].as_str() {
                Some(f) => match std::fs::read_to_string(f).ok().and_then(|t| serde_json::from_str::<Value>(&t).ok()) {
                    Some(v) => Prog::from_json(&v),
                    None => return json!({"machinery": "cannot read prog file"}),
                },
                None => Prog::from_json(&case["prog"]),
            };
            let fam = FAMILIES.iter().position(|f| *f == "aggcycle").unwrap_or(0) as u8;
            let mut inputs = Vec::new();
            for r in case["recipes"].as_array().cloned().unwrap_or_default() {
                let shape = r[0].as_str().unwrap_or("");
                let levels = r[1].as_u64().unwrap_or(1) as usize;
                match agg_container(&seed, shape, levels) {
                    Some(b) => inputs.push((fam, b)),
                    None => return json!({"machinery": format!("agg: cannot build {shape} x {levels}")}),
                }
            }
            (WorkCtx::new(prog, Some(&seed)), inputs)
        }
        _ => return json!({"machinery": "unknown worker mode"}),
    };
    // runtimes of the (valid) seed program are built once here; children inherit pristine copies
    ctx.scratch = ctx.build();
    ctx.same_meta = if ctx.seed_meta.is_some() { ctx.build() } else { None };
    if ctx.scratch.is_none() {
        return json!({"machinery": "cannot build the runtime of the seed program"});
    }
    let served = match serve(&mut ctx, inputs.len(), &|k| inputs[k].1.clone(), limit_ms) {
        Ok(s) => s,
        Err(e) => return json!({"machinery": e}),
    };
    let mut hist: BTreeMap<String, u64> = BTreeMap::new();
    let mut viol: Vec<Value> = Vec::new();
    let mut deaths: Vec<Value> = Vec::new();
    let (mut nontrivial, mut validated, mut diverged) = (0u64, 0u64, 0u64);
    let mut machinery: Option<String> = None;
    for (k, r) in served.res.iter().enumerate() {
        let fam = FAMILIES.get(inputs[k].0 as usize).copied().unwrap_or("?");
        match r {
            MutRes::Done(v) => {
                if let Some(m) = v["m"].as_str() {
                    machinery = Some(m.to_string());
                }
                nontrivial += v["n"].as_bool().unwrap_or(false) as u64;
                validated += v["v"].as_bool().unwrap_or(false) as u64;
                diverged += v["d"].as_bool().unwrap_or(false) as u64;
                *hist.entry(format!("{fam}|{}", v["o"].as_str().unwrap_or("?"))).or_insert(0) += 1;
                for p in v["p"].as_array().cloned().unwrap_or_default() {
                    viol.push(json!([k, p[0], p[1], p[2], p[3]]));
                }
            }
            MutRes::Death(stage, kind, msg) => {
                *hist.entry(format!("{fam}|X:{kind}")).or_insert(0) += 1;
                deaths.push(json!([k, stage, kind, msg]));
            }
        }
    }
    json!({"hist": hist, "viol": viol, "deaths": deaths, "nontrivial": nontrivial, "validated": validated,
           "shared_divergence": diverged, "done": served.res.len(), "retried": served.retried, "forks": served.forks, "machinery": machinery})
}

/// failure kind of a dead worker from its exit status + stderr tail
fn death_kind(msg: &str) -> (&'static str, String) {
    if let Some(p) = msg.find("memory allocation of ") {
        let n: String = msg[p + 21..].chars().take_while(|c| c.is_ascii_digit()).collect();
        return ("alloc", format!("allocation of {n} bytes failed under RLIMIT_AS={} MiB", RLIMIT_AS >> 20));
    }
    if msg.contains("overflowed its stack") || msg.contains("stack overflow") {
        return ("stack-overflow", format!("stack overflow on a {} MiB stack", WORKER_STACK >> 20));
    }
    if msg.contains("capacity overflow") {
        return ("alloc", "capacity overflow".into());
    }
    ("other", clip(msg, 160))
}

fn uses_family_in_sig(family: &str) -> bool {
    !matches!(family, "byte" | "u16" | "u32" | "i64" | "tag")
}

fn mutant_sig(kind: &str, sub: &str, stage: &str, family: &str, sec: &str, field: &str, msg: Option<&str>) -> String {
    let m = if uses_family_in_sig(family) { format!(":mut={family}") } else { String::new() };
    let base = if sub.is_empty() {
        format!("C11/{kind}/stage={stage}{m}:section={sec}:field={field}")
    } else {
        format!("C11/{kind}/{sub}:stage={stage}{m}:section={sec}:field={field}")
    };
    match msg {
        Some(x) => format!("{base}/{}", norm_msg(x)),
        None => base,
    }
}

// ------------------------------------------------------------------------------------------------
// engine
// ------------------------------------------------------------------------------------------------

pub struct Seed {
    pub name: String,
    pub prog: Prog,
    pub bytes: Vec<u8>,
    pub lay: Layout,
    pub set: MutSet,
}

fn rt_violation(p: &Prog, clause: &str, feature: &str, detail: &str) -> Violation {
    let sig = if clause == "panic" {
        format!("C11/panic/roundtrip:{feature}/{}", norm_msg(detail))
    } else {
        format!("C11/roundtrip/{clause}/{feature}")
    };
    Violation {
        signature: sig,
        what: format!("program {} ({}): {}", p.name, p.origin, detail),
        case: json!({"kind": "roundtrip", "prog": p.to_json()}),
    }
}

fn pool_cfg(procs: usize, per_case: Duration, deadline: Option<Instant>) -> iso::PoolCfg {
    iso::PoolCfg { worker: "c11", procs, rlimit_as: RLIMIT_AS, per_case, deadline, env: vec![("RUST_BACKTRACE".to_string(), "0".to_string())], stack: WORKER_STACK }
}

/// Turns what was observed for one mutant into violations. `panics` = [clause, stage, msg, loc].
#[allow(clippy::too_many_arguments)]
fn mutant_violations(
    panics: &[(String, String, String, String)],
    death: Option<(&str, u8)>, // (iso message or "timeout", stage)
    family: &str,
    sec: &str,
    field: &str,
    descr: &str,
    seed_name: &str,
    size: usize,
    case: &Value,
) -> Vec<Violation> {
    let mut v = Vec::new();
    for (_c, stage, msg, loc) in panics {
        let note = if msg.contains("with overflow") { " (arithmetic overflow check: a panic in builds with overflow checks such as dev/test, silent wrap-around otherwise)" } else { "" };
        v.push(Violation {
            // a panic is identified by its site (source file of the panic location) and message; the
            // mutated section (not the field) is kept as a coarse discriminator
            signature: format!(
                "C11/panic/stage={stage}:section={sec}/{}/{}",
                loc.rsplit('/').next().unwrap_or("").split(':').next().unwrap_or(""),
                norm_msg(msg)
            ),
            what: format!(
                "{stage} panicked with '{}' at {loc}{note} on a {size}-byte mutant of the container of {seed_name} ({family}: {descr}; mutated field {sec}.{field}); expected Ok or Err",
                clip(msg, 120)
            ),
            case: case.clone(),
        });
    }
    if let Some((msg, stage)) = death {
        let stage = STAGES.get(stage as usize).copied().unwrap_or("?");
        if msg == "timeout" {
            v.push(Violation {
                signature: mutant_sig("timeout", "", stage, family, sec, field, None),
                what: format!("{stage} did not finish within the per-case limit on a {size}-byte mutant of {seed_name} ({family}: {descr}; field {sec}.{field})"),
                case: case.clone(),
            });
        } else {
            let (kind, detail) = death_kind(msg);
            // an allocation bomb reached through a field that is not itself a count/size (the decoder
            // desynchronised and read other bytes as a count) is named per section, not per field
            let sizing = case["sizing_field"].as_bool().unwrap_or(false);
            let signature = if kind == "alloc" && !sizing {
                format!("C11/abort/alloc:stage={stage}:section={sec}:field=desync")
            } else {
                mutant_sig("abort", kind, stage, family, sec, field, None)
            };
            v.push(Violation {
                signature,
                what: format!(
                    "process aborted in {stage}: {detail}; input = {size}-byte mutant of the container of {seed_name} ({family}: {descr}; mutated field {sec}.{field}); expected Ok or Err with memory proportional to the input"
                ),
                case: case.clone(),
            });
        }
    }
    v
}

fn mutant_case(seed: &Seed, m: &Mutant) -> (Value, String, &'static str, &'static str, &'static str) {
    let bytes = seed.set.apply(m, &seed.bytes);
    let (sec, field) = seed.lay.label_at(m.at as usize);
    let sizing = seed.lay.field_at(m.at as usize).map(|f| f.role == Role::Count || (f.sec == "RESOURCE_META" && f.name.ends_with("_size"))).unwrap_or(false);
    let family = FAMILIES[m.family as usize];
    let descr = seed.set.describe(m);
    (
        json!({"kind": "mutant", "seed": seed.name, "prog": seed.prog.to_json(), "family": family, "section": sec, "field": field, "sizing_field": sizing,
               "mutation": descr, "bytes_hex": hex(&bytes)}),
        descr,
        family,
        sec,
        field,
    )
}

pub fn check_case(case: &Value) -> Vec<Violation> {
    match case["kind"].as_str() {
        Some("roundtrip") => {
            let p = Prog::from_json(&case["prog"]);
            let p2 = p.clone();
            match on_stack(64 << 20, move || roundtrip(&p2)) {
                Ok(r) => r.bad.iter().map(|(c, f, d)| rt_violation(&p, c, f, d)).collect(),
                Err(m) => vec![rt_violation(&p, "panic", "harness", &m)],
            }
        }
        Some("mutant") | Some("agg") => {
            let req = if case["kind"].as_str() == Some("agg") {
                json!({"mode": "agg", "seed_hex": case["seed_hex"], "prog": case["prog"], "recipes": [[case["shape"], case["levels"]]], "limit_ms": 120_000})
            } else {
                json!({"mode": "one", "bytes_hex": case["bytes_hex"], "prog": case["prog"], "limit_ms": 120_000})
            };
            let cfg = pool_cfg(1, Duration::from_secs(600), None);
            let outs = match iso::run_pool(&cfg, &[req]) {
                Ok(o) => o,
                Err(_) => return Vec::new(),
            };
            let family = case["family"].as_str().unwrap_or("?");
            let sec = case["section"].as_str().unwrap_or("?");
            let field = case["field"].as_str().unwrap_or("?");
            let descr = case["mutation"].as_str().unwrap_or("");
            let seed_name = case["seed"].as_str().unwrap_or("?");
            let size = case["bytes_hex"].as_str().map(|s| s.len() / 2).or(case["size"].as_u64().map(|n| n as usize)).unwrap_or(0);
            match outs.into_iter().next().flatten() {
                Some(iso::Outcome::Ok(v)) => {
                    let (panics, deaths) = parse_reply(&v);
                    let mut out = Vec::new();
                    if let Some(p) = panics.get(&0) {
                        out.extend(mutant_violations(p, None, family, sec, field, descr, seed_name, size, case));
                    }
                    if let Some((stage, kind, msg)) = deaths.get(&0) {
                        let m = if kind == "timeout" { "timeout" } else { msg.as_str() };
                        out.extend(mutant_violations(&[], Some((m, *stage)), family, sec, field, descr, seed_name, size, case));
                    }
                    out
                }
                _ => Vec::new(),
            }
        }
        _ => Vec::new(),
    }
}

struct Item {
    seed: usize,
    idxs: Vec<u32>,
    /// non-empty = an item of the aggregate-cycle family: (index into AGG_SHAPES, levels)
    agg: Vec<(usize, usize)>,
}

impl Item {
    fn len(&self) -> usize {
        self.idxs.len() + self.agg.len()
    }
}

fn agg_case(seed: &Seed, shape: &str, levels: usize) -> (Value, String) {
    let size = levels * 4 + seed.bytes.len();
    let descr = format!("type table extended/rewritten to the cycle {shape}; one constant of that type appended whose payload is {levels} x u32 count (one per aggregate level); lengths and CRC recomputed");
    (
        json!({"kind": "agg", "seed": seed.name, "prog": seed.prog.to_json(), "family": "aggcycle", "section": "TYPE_TABLE", "field": agg_class(shape),
               "sizing_field": true, "shape": shape, "levels": levels, "size": size, "mutation": descr, "seed_hex": hex(&seed.bytes)}),
        descr,
    )
}

type Panics = Vec<(String, String, String, String)>;

/// (panics per local mutant index, deaths per local mutant index) of a worker reply
fn parse_reply(v: &Value) -> (BTreeMap<usize, Panics>, BTreeMap<usize, (u8, String, String)>) {
    let mut per: BTreeMap<usize, Panics> = BTreeMap::new();
    for x in v["viol"].as_array().cloned().unwrap_or_default() {
        let k = x[0].as_u64().unwrap_or(0) as usize;
        let s = |i: usize| x[i].as_str().unwrap_or("").to_string();
        per.entry(k).or_default().push((s(1), s(2), s(3), s(4)));
    }
    let mut deaths = BTreeMap::new();
    for x in v["deaths"].as_array().cloned().unwrap_or_default() {
        let k = x[0].as_u64().unwrap_or(0) as usize;
        deaths.insert(k, (x[1].as_u64().unwrap_or(0) as u8, x[2].as_str().unwrap_or("died").to_string(), x[3].as_str().unwrap_or("").to_string()));
    }
    (per, deaths)
}

enum Fail {
    Panic(Vec<(String, String, String, String)>),
    Death(String, u8),
}

pub fn run(ctx: &Ctx) -> EngineResult {
    quiet_panics();
    let mut rep = Report::new("exploration");
    let deadline = Instant::now() + Duration::from_secs(ctx.tier.pick(40, 840));
    let mut exhaustive = true;
    let big_stack = 64 << 20;

    // ---------------- corpus ----------------
    let files = crate::corpus::st_files(&ctx.repo_dir);
    if files.len() < 10 {
        return machinery(format!("only {} .st corpus files found under {:?}", files.len(), ctx.repo_dir));
    }
    let mut progs: Vec<Prog> = Vec::new();
    for (n, t) in generated_programs() {
        progs.push(Prog { name: n.to_string(), files: vec![(format!("{n}.st"), t)], origin: "gen" });
    }
    let n_gen = progs.len();
    for (p, t) in &files {
        progs.push(Prog { name: p.clone(), files: vec![(p.clone(), t.clone())], origin: "file" });
    }
    let mut by_dir: BTreeMap<String, Vec<(String, String)>> = BTreeMap::new();
    for (p, t) in &files {
        let dir = std::path::Path::new(p).parent().map(|d| d.display().to_string()).unwrap_or_default();
        by_dir.entry(dir).or_default().push((p.clone(), t.clone()));
    }
    for (d, fs) in by_dir {
        if fs.len() >= 2 {
            progs.push(Prog { name: format!("project:{d}"), files: fs, origin: "project" });
        }
    }
    let res = par_map(&progs, ctx.threads, big_stack, Some(deadline), |_, p| roundtrip(p));
    let mut evaluations = 0u64;
    let mut rt_cases = 0u64;
    let mut rt_by_origin: BTreeMap<&str, u64> = BTreeMap::new();
    let mut not_case: BTreeMap<String, u64> = BTreeMap::new();
    let mut sec_seen: BTreeSet<u16> = BTreeSet::new();
    let mut kinds_seen: BTreeSet<u8> = BTreeSet::new();
    let mut apply_ok = 0u64;
    let mut distinct_containers: HashSet<u64> = HashSet::new();
    let mut gen_bytes: Vec<Option<Vec<u8>>> = vec![None; n_gen];
    let mut gen_rejected: Vec<String> = Vec::new();
    let mut corpus_bytes: Vec<(usize, Vec<u8>)> = Vec::new();
    for (i, (p, r)) in progs.iter().zip(res).enumerate() {
        let Some(r) = r else {
            exhaustive = false;
            continue;
        };
        if let Some(why) = &r.not_a_case {
            let k: String = why.split(':').next().unwrap_or("").to_string();
            *not_case.entry(k).or_insert(0) += 1;
            if p.origin == "gen" {
                gen_rejected.push(format!("{}: {why}", p.name));
            }
            continue;
        }
        rt_cases += 1;
        evaluations += 1;
        *rt_by_origin.entry(p.origin).or_insert(0) += 1;
        sec_seen.extend(r.section_ids.iter().copied());
        kinds_seen.extend(r.type_kinds.iter().copied());
        apply_ok += r.apply_ok as u64;
        distinct_containers.insert(fnv(&r.bytes));
        for (c, f, d) in &r.bad {
            rep.violation(rt_violation(p, c, f, d));
        }
        if i < n_gen && r.valid_container {
            gen_bytes[i] = Some(r.bytes);
        } else if r.valid_container && r.bytes.len() < 16_000 {
            corpus_bytes.push((i, r.bytes));
        }
    }
    if !gen_rejected.is_empty() {
        return machinery(format!("generated programs not accepted by the compiler: {}", gen_rejected.join(" || ")));
    }
    if !exhaustive {
        rep.cap("round trip: wall cap reached before every corpus program was compiled");
    }
    eprintln!("[C11] round trip done at {:.1}s: {} cases", ctx.elapsed(), rt_cases);
    if rt_by_origin.get("file").copied().unwrap_or(0) < 10 {
        return machinery(format!("only {:?} corpus files compile on their own: round-trip family vacuous", rt_by_origin.get("file")));
    }
    for id in 1u16..=12 {
        if !sec_seen.contains(&id) && rep.violations.is_empty() {
            return machinery(format!("no corpus program emits section {}", section_name(id)));
        }
    }
    rep.set("roundtrip_programs", rt_cases);
    rep.set("roundtrip_by_origin", json!(rt_by_origin));
    rep.set("roundtrip_distinct_containers", distinct_containers.len() as u64);
    rep.set("corpus_files", files.len() as u64);
    rep.set("not_a_case", json!(not_case));
    rep.set("emitted_apply_ok", apply_ok);
    rep.set("type_kinds_emitted", json!(kinds_seen.iter().collect::<Vec<_>>()));
    rep.sample(json!({"family": "roundtrip", "program": progs[1].name, "text": clip(&progs[1].files[0].1, 80)}));

    // ---------------- seeds ----------------
    let quick_seeds: &[&str] = &[
        "g00_empty", "g13_alias_subrange", "g14_union_ref", "g20_interface", "g21_class_inherit",
        "g26_config_fb_task", "g27_var_config_at", "g29_globals_retain", "g31_global_aggregates", "g32_control_flow",
    ];
    let mut seed_inputs: Vec<(String, Prog, Vec<u8>)> = Vec::new();
    for i in 0..n_gen {
        let Some(b) = &gen_bytes[i] else { continue };
        if ctx.tier == Tier::Quick && !quick_seeds.contains(&progs[i].name.as_str()) {
            continue;
        }
        seed_inputs.push((progs[i].name.clone(), progs[i].clone(), b.clone()));
    }
    // version 1.0 re-encodings (no CRC, no type offsets, no string padding, no parameter defaults)
    let v10_of: &[&str] = ctx.tier.pick(&["g13_alias_subrange"][..], &["g00_empty", "g13_alias_subrange", "g16_function", "g20_interface", "g26_config_fb_task", "g29_globals_retain"][..]);
    let mut v10_skipped = 0u64;
    for name in v10_of {
        let Some(i) = progs.iter().position(|p| p.name == *name) else { continue };
        let made = catch(|| {
            let mut m = progs[i].session().build_bytecode_module().ok()?;
            m.version.minor = 0;
            m.flags = 0;
            if let Some(SectionData::TypeTable(t)) = m.section_mut(SectionId::TypeTable) {
                t.offsets.clear();
            }
            let b = m.encode().ok()?;
            let d = BytecodeModule::decode(&b).ok()?;
            d.validate().ok()?;
            Some(b)
        });
        match made {
            Ok(Some(b)) => seed_inputs.push((format!("{name}@v1.0"), progs[i].clone(), b)),
            _ => v10_skipped += 1,
        }
    }
    // thorough: distinct containers compiled from repository files / projects
    if ctx.tier == Tier::Thorough {
        let mut extra: Vec<(String, Prog, Vec<u8>)> = corpus_bytes.iter().map(|(i, b)| (progs[*i].name.clone(), progs[*i].clone(), b.clone())).collect();
        extra.sort_by_key(|s| (s.2.len(), s.0.clone()));
        extra.dedup_by_key(|s| fnv(&s.2));
        // 25 containers evenly spaced over the size-sorted list (smallest .. largest below 16 KB)
        let n = extra.len();
        let picks: BTreeSet<usize> = (0..25).map(|k| if n <= 1 { 0 } else { k * (n - 1) / 24 }).collect();
        rep.set("corpus_container_sizes", json!(extra.iter().map(|s| s.2.len()).collect::<Vec<_>>()));
        seed_inputs.extend(extra.into_iter().enumerate().filter(|(i, _)| picks.contains(i)).map(|(_, s)| s));
    }
    seed_inputs.sort_by_key(|s| (s.2.len(), s.0.clone()));
    if seed_inputs.len() < 3 && rep.violations.is_empty() {
        return machinery("fewer than 3 seed containers");
    }
    let idx: Vec<usize> = (0..seed_inputs.len()).collect();
    let built = par_map(&idx, ctx.threads, big_stack, None, |_, &i| {
        let (name, prog, bytes) = &seed_inputs[i];
        let lay = walk(bytes)?;
        if bytes.len() >= 24 && rd32(bytes, 8) & 1 != 0 && crc32(&bytes[rd32(bytes, 16) as usize..]) != rd32(bytes, 20) {
            return Err(format!("own CRC32 disagrees with the checksum of seed {name}"));
        }
        let set = mutants(bytes, &lay, i < 2);
        Ok(Seed { name: name.clone(), prog: prog.clone(), bytes: bytes.clone(), lay, set })
    });
    // A seed whose layout cannot be walked means encoder and format specification disagree. With
    // round-trip violations already on record that is a consequence of the defect (the seed is
    // dropped and the verdict stands); on an otherwise clean run it is a machinery error.
    let mut seeds: Vec<Seed> = Vec::new();
    let mut seeds_dropped = 0u64;
    for b in built {
        match b {
            Some(Ok(s)) => seeds.push(s),
            Some(Err(e)) => {
                if rep.violations.is_empty() {
                    return machinery(e);
                }
                seeds_dropped += 1;
            }
            None => return machinery("seed not built"),
        }
    }
    rep.set("seeds_dropped_unwalkable", seeds_dropped);
    if seeds.is_empty() {
        if rep.violations.is_empty() {
            return machinery("no seed container");
        }
        rep.cap("mutation part skipped: no usable seed container because of the round-trip violations");
        rep.set("evaluations", evaluations);
        rep.set("distinct_nontrivial", distinct_containers.len() as u64);
        rep.set("rule", "round trip only (see caps_hit)");
        rep.set("exhaustive", false);
        return Ok(rep);
    }
    let mut fam_counts: BTreeMap<&str, u64> = BTreeMap::new();
    let mut seed_secs: BTreeSet<u16> = BTreeSet::new();
    let mut seed_fields: BTreeSet<(&str, &str)> = BTreeSet::new();
    let mut total_muts = 0u64;
    let mut dup = 0u64;
    for s in &seeds {
        for (f, n) in &s.set.per_family {
            *fam_counts.entry(f).or_insert(0) += n;
        }
        total_muts += s.set.muts.len() as u64;
        dup += s.set.duplicates_dropped;
        seed_secs.extend(s.lay.secs.iter().map(|x| x.id));
        seed_fields.extend(s.lay.flds.iter().map(|f| (f.sec, f.name)));
    }
    for id in 1u16..=12 {
        if !seed_secs.contains(&id) {
            if rep.violations.is_empty() {
                return machinery(format!("no seed container has section {}", section_name(id)));
            }
            rep.cap(format!("no seed container has section {} (seeds lost to round-trip violations)", section_name(id)));
        }
    }
    eprintln!("[C11] {} seeds, {} mutants generated at {:.1}s", seeds.len(), total_muts, ctx.elapsed());
    rep.set("seeds", seeds.len() as u64);
    rep.set("seed_names", json!(seeds.iter().map(|s| format!("{}:{}B", s.name, s.bytes.len())).collect::<Vec<_>>()));
    rep.set("v10_seeds_skipped", v10_skipped);
    rep.set("mutants", total_muts);
    rep.set("mutants_by_family", json!(fam_counts));
    rep.set("mutant_duplicates_dropped", dup);
    rep.set("distinct_layout_fields_in_seeds", seed_fields.len() as u64);

    // ---------------- mutation rounds ----------------
    let work = ctx.work_dir();
    for (i, s) in seeds.iter().enumerate() {
        std::fs::write(work.join(format!("seed{i}.bin")), &s.bytes).map_err(|e| Machinery(format!("work dir: {e}")))?;
        std::fs::write(work.join(format!("seed{i}.json")), s.prog.to_json().to_string()).map_err(|e| Machinery(format!("work dir: {e}")))?;
    }
    let batch = 200usize;
    let mut queue: Vec<Item> = Vec::new();
    // aggregate type cycles first (few, simplest = shortest payload first across all seeds)
    let mut agg_total = 0u64;
    let mut agg_shapes_applicable: BTreeSet<&str> = BTreeSet::new();
    for &levels in AGG_LEVELS {
        for (i, s) in seeds.iter().enumerate() {
            let shapes: Vec<(usize, usize)> = AGG_SHAPES
                .iter()
                .enumerate()
                .filter(|(_, (n, _))| agg_container(&s.bytes, n, 1).is_some())
                .map(|(k, _)| (k, levels))
                .collect();
            for (k, _) in &shapes {
                agg_shapes_applicable.insert(AGG_SHAPES[*k].0);
            }
            agg_total += shapes.len() as u64;
            // big payloads: fewer per worker request (each is built in the worker before it forks)
            for ch in shapes.chunks(if levels >= 65_536 { 4 } else { 13 }) {
                queue.push(Item { seed: i, idxs: Vec::new(), agg: ch.to_vec() });
            }
        }
    }
    if agg_shapes_applicable.len() < 10 && rep.violations.is_empty() {
        return machinery(format!("aggregate-cycle family vacuous: only {:?} apply to the seeds", agg_shapes_applicable));
    }
    fam_counts.insert("aggcycle", agg_total);
    rep.set("mutants_by_family", json!(fam_counts));
    rep.set("mutants", total_muts + agg_total);
    rep.set("aggcycle_shapes_applicable", json!(agg_shapes_applicable));
    for (i, s) in seeds.iter().enumerate() {
        let all: Vec<u32> = (0..s.set.muts.len() as u32).collect();
        for ch in all.chunks(batch) {
            queue.push(Item { seed: i, idxs: ch.to_vec(), agg: Vec::new() });
        }
    }
    let mut agg_fails: Vec<(usize, usize, usize, Fail)> = Vec::new();
    let mut hist: BTreeMap<String, u64> = BTreeMap::new();
    let mut fails: Vec<(usize, u32, Fail)> = Vec::new();
    let (mut nontrivial, mut validated, mut executed, mut deaths, mut shared_div, mut retried, mut forks) = (0u64, 0u64, 0u64, 0u64, 0u64, 0u64, 0u64);
    let mut not_executed = 0u64;
    let mut attempt = 0;
    while !queue.is_empty() {
        attempt += 1;
        let cases: Vec<Value> = queue
            .iter()
            .map(|it| {
                let s = &seeds[it.seed];
                if !it.agg.is_empty() {
                    return json!({"mode": "agg",
                       "seed_file": work.join(format!("seed{}.bin", it.seed)).display().to_string(),
                       "prog_file": work.join(format!("seed{}.json", it.seed)).display().to_string(),
                       "recipes": it.agg.iter().map(|(k, l)| json!([AGG_SHAPES[*k].0, l])).collect::<Vec<_>>(), "limit_ms": 60_000});
                }
                let muts: Vec<String> = it.idxs.iter().map(|&k| s.set.text(&s.set.muts[k as usize])).collect();
                json!({"mode": "batch",
                       "seed_file": work.join(format!("seed{}.bin", it.seed)).display().to_string(),
                       "prog_file": work.join(format!("seed{}.json", it.seed)).display().to_string(),
                       "muts": muts.join(" "), "limit_ms": 60_000})
            })
            .collect();
        let cfg = pool_cfg(ctx.threads, Duration::from_secs(1200), Some(deadline));
        let outs = iso::run_pool(&cfg, &cases).map_err(Machinery)?;
        let mut next: Vec<Item> = Vec::new();
        for (it, o) in queue.iter().zip(outs) {
            match o {
                None => not_executed += it.len() as u64,
                Some(iso::Outcome::Ok(v)) => {
                    if let Some(m) = v["machinery"].as_str() {
                        return machinery(format!("worker: {m}"));
                    }
                    if v["done"].as_u64().unwrap_or(0) != it.len() as u64 {
                        return machinery("worker answered for fewer mutants than it was given");
                    }
                    executed += it.len() as u64;
                    nontrivial += v["nontrivial"].as_u64().unwrap_or(0);
                    validated += v["validated"].as_u64().unwrap_or(0);
                    shared_div += v["shared_divergence"].as_u64().unwrap_or(0);
                    retried += v["retried"].as_u64().unwrap_or(0);
                    forks += v["forks"].as_u64().unwrap_or(0);
                    if let Some(h) = v["hist"].as_object() {
                        for (k, n) in h {
                            *hist.entry(k.clone()).or_insert(0) += n.as_u64().unwrap_or(0);
                        }
                    }
                    let (per, dd) = parse_reply(&v);
                    for (k, p) in per {
                        if let Some(&mi) = it.idxs.get(k) {
                            fails.push((it.seed, mi, Fail::Panic(p)));
                        } else if let Some(&(sh, lv)) = it.agg.get(k) {
                            agg_fails.push((lv, it.seed, sh, Fail::Panic(p)));
                        }
                    }
                    for (k, (stage, kind, msg)) in dd {
                        if stage == 5 {
                            return machinery(format!("child died while building the seed runtime: {msg}"));
                        }
                        deaths += 1;
                        let msg = if kind == "timeout" { "timeout".to_string() } else { msg };
                        if let Some(&mi) = it.idxs.get(k) {
                            fails.push((it.seed, mi, Fail::Death(msg, stage)));
                        } else if let Some(&(sh, lv)) = it.agg.get(k) {
                            agg_fails.push((lv, it.seed, sh, Fail::Death(msg, stage)));
                        }
                    }
                }
                Some(other) => {
                    // the fork server itself died / hung: machinery, retried once
                    if attempt >= 2 {
                        return machinery(format!("worker (fork server) failed twice: {other:?}"));
                    }
                    next.push(Item { seed: it.seed, idxs: it.idxs.clone(), agg: it.agg.clone() });
                }
            }
        }
        queue = next;
    }
    if not_executed > 0 {
        exhaustive = false;
        rep.cap(format!("mutation: wall cap reached, {not_executed} mutants not executed"));
    }
    eprintln!("[C11] mutation done at {:.1}s: {} executed, {} forks, {} deaths, {} retried", ctx.elapsed(), executed, forks, deaths, retried);
    if shared_div > 0 {
        return machinery(format!("{shared_div} mutants panicked on a re-used runtime but not on a fresh one (apply is not idempotent); replay would not reproduce"));
    }
    // violations, simplest first (seeds ascending by size, mutants in enumeration order)
    fails.sort_by_key(|f| (f.0, f.1));
    for (si, mi, f) in &fails {
        let seed = &seeds[*si];
        let m = &seed.set.muts[*mi as usize];
        let (case, descr, family, sec, field) = mutant_case(seed, m);
        let size = case["bytes_hex"].as_str().map(|s| s.len() / 2).unwrap_or(0);
        let vs = match f {
            Fail::Panic(p) => mutant_violations(p, None, family, sec, field, &descr, &seed.name, size, &case),
            Fail::Death(msg, stage) => mutant_violations(&[], Some((msg, *stage)), family, sec, field, &descr, &seed.name, size, &case),
        };
        rep.violations_from(vs);
    }
    // aggregate cycles: shortest payload first, then seed (ascending size), then shape
    agg_fails.sort_by_key(|f| (f.0, f.1, f.2));
    for (lv, si, sh, f) in &agg_fails {
        let seed = &seeds[*si];
        let shape = AGG_SHAPES[*sh].0;
        let (case, descr) = agg_case(seed, shape, *lv);
        let size = case["size"].as_u64().unwrap_or(0) as usize;
        let field = agg_class(shape);
        let vs = match f {
            Fail::Panic(p) => mutant_violations(p, None, "aggcycle", "TYPE_TABLE", field, &descr, &seed.name, size, &case),
            Fail::Death(msg, stage) => mutant_violations(&[], Some((msg, *stage)), "aggcycle", "TYPE_TABLE", field, &descr, &seed.name, size, &case),
        };
        rep.violations_from(vs);
    }
    rep.sample(json!({"family": "aggcycle", "seed": seeds[0].name, "shape": AGG_SHAPES[3].0, "levels": AGG_LEVELS[3]}));
    if let Some(s) = seeds.get(1) {
        if let Some(m) = s.set.muts.get(s.set.muts.len() / 2) {
            rep.sample(json!({"family": FAMILIES[m.family as usize], "seed": s.name, "mutation": s.set.describe(m)}));
        }
    }
    let mut outcome_totals: BTreeMap<String, u64> = BTreeMap::new();
    for (k, n) in &hist {
        let o = k.split('|').nth(1).unwrap_or("?").to_string();
        *outcome_totals.entry(o).or_insert(0) += n;
    }
    if validated == 0 || outcome_totals.len() < 5 {
        return machinery(format!("mutation family vacuous: {validated} validated mutants, {} distinct outcomes", outcome_totals.len()));
    }
    let mut validated_by_family: BTreeMap<String, u64> = BTreeMap::new();
    let mut deaths_by_family: BTreeMap<String, u64> = BTreeMap::new();
    for (k, n) in &hist {
        let mut it = k.split('|');
        let (f, o) = (it.next().unwrap_or("?"), it.next().unwrap_or("?"));
        if o.starts_with("A:") {
            *validated_by_family.entry(f.to_string()).or_insert(0) += n;
        }
        if o.starts_with("X:") {
            *deaths_by_family.entry(f.to_string()).or_insert(0) += n;
        }
    }
    rep.set("validated_by_family", json!(validated_by_family));
    rep.set("deaths_by_family", json!(deaths_by_family));
    evaluations += executed;
    rep.set("mutants_executed", executed);
    rep.set("mutants_reaching_section_decoders", nontrivial);
    rep.set("mutants_validated", validated);
    rep.set("mutant_outcomes", json!(outcome_totals));
    rep.set("distinct_outcomes", outcome_totals.len() as u64);
    rep.set("worker_deaths_confirmed", deaths);
    rep.set("worker_forks", forks);
    rep.set("deaths_retried_in_fresh_child", retried);
    rep.set("evaluations", evaluations);
    rep.set("distinct_nontrivial", nontrivial + distinct_containers.len() as u64);
    rep.set(
        "rule",
        "round trip: every generated program, every repository .st file that compiles to bytecode on its own and every directory of .st files that compiles as a project (validate(compile(p)), decode(encode(m))==m, encode(decode(e))==e, metadata/apply without panic). mutation: for every seed container the complete set of {every byte x 7 values; every even/4-aligned offset and every 2/4/8-byte layout field x boundary values, value+-1, section length(+1), file length(+1), remaining bytes(+1); every tag byte x its domain; every truncation raw and with repaired section table; every section x every shorter length; section-table swaps/copies/retags/aliases/extensions/relocations; every type-id field x every type index, self- and 2-cycle aliases paired with a retyped constant; header boundary product on the two smallest seeds; aggregate type cycles: 13 cycle shapes through STRUCT/UNION/ARRAY (self, 2-cycles, rewritten existing entries, and controls with exactly one ALIAS/SUBRANGE hop) x a constant of that type whose payload keeps the walk going for {1,16,256,4096,65536,1048576} levels, container rebuilt with lengths/CRC recomputed}, duplicates by resulting bytes dropped, CRC recomputed, each run decode->validate->metadata->apply->hot-reload in an RLIMIT_AS worker. distinct_nontrivial = distinct emitted containers + distinct mutants that passed framing and CRC and reached a section decoder.",
    );
    rep.set("exhaustive", exhaustive);
    rep.assume("'memory proportional to the input' is approximated by RLIMIT_AS = 1 GiB for inputs below 64 KiB: only an allocation request that fails under that cap (abort) is reported; smaller over-allocations are not detected");
    rep.assume("stack overflow is judged on an 8 MiB thread stack");
    rep.assume("apply is exercised on the runtime compiled from the seed's own source program (fresh runtime per distinct metadata), resource_name = None as in scheduler.rs ReloadBytecode");
    rep.assume("the subject is built with the harness profile (opt-level 1, debug assertions and overflow checks on)");
    Ok(rep)
}

pub fn workers() -> Vec<(&'static str, iso::WorkerFn)> {
    vec![("c11", worker as iso::WorkerFn)]
}
