//! C04 — standard function blocks follow the IEC timing diagrams on every trace.
//!
//! Core X2 (explicit-state search by replay). A state is the call history that reaches it; every
//! history is replayed on the REAL code at two seams
//!   * `pure`: the public step structs `Ton/Tof/Tp/Ctu/Ctd/Ctud/RTrig/FTrig/Sr/Rs::step`,
//!   * `st`  : an ST program with two instances of the kind, driven through `TestHarness`
//!             (`set_input` + `advance_time` + `cycle` + `get_output`),
//! and compared call by call with a reference model that implements only the clauses of the
//! property statement. Histories are merged when (all instance variables incl. the hidden ones,
//! model state) coincide.
//!
//! Alphabet (time unit 1 ms): IN in {F,T}; dt in {0,1,2,3,5} ms; PT in {-1 ms, 0, 2 ms, 3 ms, max}
//! fixed per trace, plus a family where PT is free per call in {0, 2 ms, 3 ms, max}; a small
//! pure-seam family with extreme time steps dt in {0, 1 ms, i64::MAX ns}; counters: all of bool^2 /
//! bool^4, PV in {-1,0,1,2,32767} free per call, started from the initial state and from
//! near-saturation states (CV = max-1, min+1); edge detectors and bistables: all input
//! combinations. At the ST seam instance A may also be *not called* in a cycle (dt in {0, 2 ms}
//! passes meanwhile), instance B follows a fixed periodic trace (call, call, skip, call, call)
//! with its own PT/PV; both instances are compared with the model on every call, and an instance
//! that is not called in a cycle must keep every variable (hidden ones included) unchanged.
//! Further timer families (both seams unless noted):
//!   * `sub`: time steps that are not whole milliseconds, dt in {0, 0.4 ms, 1.5 ms} (A skipped:
//!     0.4 ms), with PT in {0.4 ms, 1.5 ms (T#1500us), 2 ms (= 5 x 0.4 ms), 3 ms (= 2 x 1.5 ms)}, so
//!     that only an exact (nanosecond) accumulation decides Q at the right call;
//!   * `big`: dt in {0, 1 ms, 2^31 ms - 1 ms (= i32::MAX ms), 2^31 ms, 2^32 ms} with PT = 2^31 ms;
//!   * ST seam: the LTIME flavour (TON_LTIME, TOF_LTIME, TP_LTIME) with PT = 3 ms on the
//!     millisecond menu and PT in {1.5 ms, 2 ms} on the sub-millisecond menu.
//! Depth: quick 6 (PT-change family 5, ST CTUD 4, big 4), thorough 12 (PT-change 9, ST CTUD 10,
//! sub 10, big 6).
//!
//! Search: own BFS instead of `x2::bfs` — compiling the ST driver program costs 1.5 ms, so a
//! state is replayed from scratch once (when it is expanded) and its successors are tried from a
//! restored snapshot of the variable storage + clock; see `expand`.
//!
//! Readings accepted (statement is silent or ambiguous there, so nothing more is demanded):
//!   * negative PT: only "no panic" and ET <= max(PT,0);
//!   * PT changed while a timer runs: four readings are kept alive along the history (current PT
//!     with unclipped accumulation, current PT with accumulation clipped to PT, Q latched once
//!     reached, PT sampled when timing starts); a violation is reported only when no reading
//!     explains all observations so far. With a constant PT the four readings coincide;
//!   * ET is compared exactly only while the timer is timing (there it is the accumulated time);
//!     otherwise only 0 <= ET <= PT; the value of ET after a reset / after the pulse is not checked;
//!   * a TIME-typed ET at the ST seam may show the accumulated time rounded down to the TIME
//!     resolution of 1 ms (docs/specs/10-runtime.md) instead of the exact value; Q must follow the
//!     exactly accumulated time in any case. LTIME ETs and the pure structs are compared exactly;
//!   * F_TRIG on the very first call with CLK = FALSE: Q may be either value (IEC body and
//!     docs/specs/08 say TRUE, "exactly one call per edge" read literally says FALSE);
//!   * time that passes before the first call of an instance is not "time between two calls".
//! Not in the alphabet: typed counter variants (CTU_DINT, ... unsigned ones), DIFU/DIFD aliases (the statement names only the ten base blocks).

use crate::fw::*;
use crate::iso::WorkerFn;
use crate::par::par_map;
use serde_json::{json, Value as J};
use std::sync::atomic::{AtomicU64, Ordering::Relaxed};
use std::time::{Duration as WallDuration, Instant};
use trust_runtime::harness::TestHarness;
use trust_runtime::memory::{InstanceId, VariableStorage};
use trust_runtime::stdlib::fbs::{Ctd, Ctu, Ctud, FTrig, RTrig, Rs, Sr, Tof, Ton, Tp};
use trust_runtime::value::{Duration, Value};

const MS: i64 = 1_000_000;
const TMAX: i64 = i64::MAX;
const INT_MAX: i64 = 32767;
const INT_MIN: i64 = -32768;
/// sub-millisecond time steps / presets (ns)
const US400: i64 = 400_000;
const US1500: i64 = 1_500_000;
/// 2^31 ms: the first time step that does not fit a signed 32-bit millisecond count
const BIG: i64 = (1i64 << 31) * MS;
/// period of instance B's fixed trace
const B_PERIOD: usize = 5;

// ------------------------------------------------------------------------------------------
// vocabulary

#[derive(Clone, Copy, PartialEq, Eq, Hash, Debug)]
pub enum Kind {
    Ton,
    Tof,
    Tp,
    Ctu,
    Ctd,
    Ctud,
    RTrig,
    FTrig,
    Sr,
    Rs,
}

const KINDS: [Kind; 10] = [
    Kind::Ton,
    Kind::Tof,
    Kind::Tp,
    Kind::Ctu,
    Kind::Ctd,
    Kind::Ctud,
    Kind::RTrig,
    Kind::FTrig,
    Kind::Sr,
    Kind::Rs,
];

impl Kind {
    fn name(self) -> &'static str {
        match self {
            Kind::Ton => "TON",
            Kind::Tof => "TOF",
            Kind::Tp => "TP",
            Kind::Ctu => "CTU",
            Kind::Ctd => "CTD",
            Kind::Ctud => "CTUD",
            Kind::RTrig => "R_TRIG",
            Kind::FTrig => "F_TRIG",
            Kind::Sr => "SR",
            Kind::Rs => "RS",
        }
    }
    fn parse(s: &str) -> Option<Kind> {
        KINDS.iter().copied().find(|k| k.name() == s)
    }
    fn is_timer(self) -> bool {
        matches!(self, Kind::Ton | Kind::Tof | Kind::Tp)
    }
    fn is_counter(self) -> bool {
        matches!(self, Kind::Ctu | Kind::Ctd | Kind::Ctud)
    }
    /// names of the boolean inputs, in the order of `Inp::b`
    fn in_names(self) -> &'static [&'static str] {
        match self {
            Kind::Ton | Kind::Tof | Kind::Tp => &["IN"],
            Kind::Ctu => &["CU", "R"],
            Kind::Ctd => &["CD", "LD"],
            Kind::Ctud => &["CU", "CD", "R", "LD"],
            Kind::RTrig | Kind::FTrig => &["CLK"],
            Kind::Sr => &["S1", "R"],
            Kind::Rs => &["S", "R1"],
        }
    }
    fn nb(self) -> usize {
        self.in_names().len()
    }
}

#[derive(Clone, Copy, PartialEq, Eq, Debug)]
enum Seam {
    Pure,
    St,
}

impl Seam {
    fn name(self) -> &'static str {
        match self {
            Seam::Pure => "pure",
            Seam::St => "st",
        }
    }
}

/// inputs of one call: boolean inputs in the order of `Kind::in_names`, `n` = PT (ns) or PV
#[derive(Clone, Copy, PartialEq, Eq, Hash, Debug)]
struct Inp {
    b: [bool; 4],
    n: i64,
}

/// outputs of one call: q = Q / Q1 / QU, q2 = QD, n = ET (ns) or CV
#[derive(Clone, Copy, PartialEq, Eq, Hash, Debug)]
struct Obs {
    q: bool,
    q2: bool,
    n: i64,
}

/// one step of a history: `dt` ns pass, then instance A is called with `a` (None = not called in
/// this cycle); instance B's action is a fixed function of the step index.
#[derive(Clone, Copy, PartialEq, Eq, Hash, Debug)]
struct Ev {
    dt: i64,
    a: Option<Inp>,
}

fn inp_json(i: &Option<Inp>) -> J {
    match i {
        None => J::Null,
        Some(i) => json!({"b": i.b.to_vec(), "n": i.n}),
    }
}

fn ev_json(e: &Ev) -> J {
    json!({"dt": e.dt, "a": inp_json(&e.a)})
}

fn ev_from(j: &J) -> Option<Ev> {
    let dt = j["dt"].as_i64()?;
    let a = if j["a"].is_null() {
        None
    } else {
        let arr = j["a"]["b"].as_array()?;
        let mut b = [false; 4];
        for (k, v) in arr.iter().take(4).enumerate() {
            b[k] = v.as_bool()?;
        }
        Some(Inp { b, n: j["a"]["n"].as_i64()? })
    };
    Some(Ev { dt, a })
}

fn tf(b: bool) -> &'static str {
    if b {
        "T"
    } else {
        "F"
    }
}

fn fmt_time(ns: i128) -> String {
    if ns == TMAX as i128 {
        "max".to_string()
    } else if ns % MS as i128 == 0 {
        format!("{}ms", ns / MS as i128)
    } else if ns % 100_000 == 0 && ns > 0 {
        format!("{}.{}ms", ns / MS as i128, (ns % MS as i128) / 100_000)
    } else {
        format!("{ns}ns")
    }
}

fn fmt_inp(kind: Kind, i: &Inp) -> String {
    let mut s = String::new();
    for (k, name) in kind.in_names().iter().enumerate() {
        if k > 0 {
            s.push(' ');
        }
        s.push_str(&format!("{name}={}", tf(i.b[k])));
    }
    if kind.is_timer() {
        s.push_str(&format!(" PT={}", fmt_time(i.n as i128)));
    } else if kind.is_counter() {
        s.push_str(&format!(" PV={}", i.n));
    }
    s
}

fn fmt_obs(kind: Kind, o: &Obs) -> String {
    if kind.is_timer() {
        format!("Q={} ET={}", tf(o.q), fmt_time(o.n as i128))
    } else if kind == Kind::Ctud {
        format!("QU={} QD={} CV={}", tf(o.q), tf(o.q2), o.n)
    } else if kind.is_counter() {
        format!("Q={} CV={}", tf(o.q), o.n)
    } else {
        format!("Q={}", tf(o.q))
    }
}

// ------------------------------------------------------------------------------------------
// family = one BFS run

#[derive(Clone, Debug)]
struct Fam {
    seam: Seam,
    kind: Kind,
    /// stratum used in signatures: fixed | neg | change | xdt | init | near-max | near-min | all
    class: String,
    label: String,
    /// PT (ns) or PV menu of instance A
    ns: Vec<i64>,
    dts: Vec<i64>,
    /// counters: CV of instance A before the first call
    start_cv: Option<i64>,
    /// PT / PV of instance B
    b_n: i64,
    no_b: bool,
    a_skip: bool,
    depth: usize,
    /// ST seam, timers: use the LTIME flavour (TON_LTIME ...) instead of the TIME one
    ltime: bool,
    /// time steps of the "A not called in this cycle" events (ST seam)
    skip_dts: Vec<i64>,
    /// largest finite PT of the family (see `timer_step`)
    limit: i128,
}

impl Fam {
    /// block name as used in signatures and messages
    fn kname(&self) -> String {
        if self.ltime {
            format!("{}_LTIME", self.kind.name())
        } else {
            self.kind.name().to_string()
        }
    }
    /// Resolution to which the PUBLISHED ET may be rounded down without contradicting the
    /// statement: docs/specs/10-runtime.md gives TIME a resolution of 1 ms, so at the ST seam a
    /// TIME-typed ET that shows the accumulated time truncated to whole milliseconds is accepted
    /// as well as the exact value (Q must follow the exact accumulated time in any case). LTIME
    /// (ns) and the pure structs (plain Duration) are compared exactly.
    fn et_res(&self) -> i128 {
        if self.seam == Seam::St && self.kind.is_timer() && !self.ltime {
            MS as i128
        } else {
            0
        }
    }
    fn json(&self) -> J {
        json!({
            "seam": self.seam.name(), "kind": self.kind.name(), "class": self.class,
            "family": self.label, "start_cv": self.start_cv, "b_n": self.b_n, "no_b": self.no_b,
            "ltime": self.ltime, "limit": self.limit.min(i64::MAX as i128) as i64,
        })
    }
    fn from_json(j: &J) -> Option<Fam> {
        Some(Fam {
            seam: match j["seam"].as_str()? {
                "pure" => Seam::Pure,
                "st" => Seam::St,
                _ => return None,
            },
            kind: Kind::parse(j["kind"].as_str()?)?,
            class: j["class"].as_str()?.to_string(),
            label: j["family"].as_str().unwrap_or("").to_string(),
            ns: Vec::new(),
            dts: Vec::new(),
            start_cv: j["start_cv"].as_i64(),
            b_n: j["b_n"].as_i64()?,
            no_b: j["no_b"].as_bool().unwrap_or(false),
            a_skip: false,
            depth: 0,
            ltime: j["ltime"].as_bool().unwrap_or(false),
            skip_dts: Vec::new(),
            limit: match j["limit"].as_i64() {
                Some(l) if l == i64::MAX => i128::MAX / 4,
                Some(l) => l as i128,
                None => (3 * MS) as i128,
            },
        })
    }
    fn limit(&self) -> i128 {
        self.limit
    }
    fn menu(&self) -> Vec<Ev> {
        let nb = self.kind.nb();
        let mut v = Vec::new();
        for &dt in &self.dts {
            // "A not called in this cycle" only with the time steps of `skip_dts` ({0, 2 ms} in the
            // millisecond families): the time of the next call of A is pending + dt, so every
            // total is still reached
            if self.a_skip && self.skip_dts.contains(&dt) {
                v.push(Ev { dt, a: None });
            }
            for bits in 0..(1u32 << nb) {
                for &n in &self.ns {
                    let mut b = [false; 4];
                    for (k, slot) in b.iter_mut().enumerate().take(nb) {
                        *slot = (bits >> k) & 1 == 1;
                    }
                    v.push(Ev { dt, a: Some(Inp { b, n }) });
                }
            }
        }
        v
    }
}

/// Instance B's fixed trace, period 5: call, call, skip, call, call. For counters, edge detectors
/// and bistables the pattern returns B to the same state every period; for timers B's state also
/// depends on the (shared) time steps.
fn b_action(f: &Fam, i: usize) -> Option<Inp> {
    if f.no_b {
        return None;
    }
    let (t, x) = (true, false);
    let slot = i % B_PERIOD;
    if slot == 2 {
        return None;
    }
    let b: [bool; 4] = match f.kind {
        // IN / CLK: T, T, -, F, F
        Kind::Ton | Kind::Tof | Kind::Tp | Kind::RTrig | Kind::FTrig => [slot < 2, x, x, x],
        // CU, R: count, release, -, count, reset
        Kind::Ctu => match slot {
            0 => [t, x, x, x],
            1 => [x, x, x, x],
            3 => [t, x, x, x],
            _ => [x, t, x, x],
        },
        // CD, LD: load, count, -, release, count
        Kind::Ctd => match slot {
            0 => [x, t, x, x],
            1 => [t, x, x, x],
            3 => [x, x, x, x],
            _ => [t, x, x, x],
        },
        // CU, CD, R, LD: up, down, -, up (CD held), reset
        Kind::Ctud => match slot {
            0 => [t, x, x, x],
            1 => [x, t, x, x],
            3 => [t, t, x, x],
            _ => [x, x, t, x],
        },
        // set, hold, -, both, reset
        Kind::Sr | Kind::Rs => match slot {
            0 => [t, x, x, x],
            1 => [x, x, x, x],
            3 => [t, t, x, x],
            _ => [x, t, x, x],
        },
    };
    Some(Inp { b, n: f.b_n })
}

// ------------------------------------------------------------------------------------------
// coverage counters (counted on the LAST step of every explored history = once per transition)

#[derive(Default)]
struct Cov {
    evals: AtomicU64,
    compared: AtomicU64,
    q_true: AtomicU64,
    q_false: AtomicU64,
    /// timer call at which the accumulated time lands exactly on PT
    exact_pt: AtomicU64,
    /// timer call at which the accumulated time is beyond PT
    beyond_pt: AtomicU64,
    /// TP: rising edge of IN while the pulse is running (must be ignored)
    tp_edge_in_pulse: AtomicU64,
    /// PT differs from the previous call's PT while the timer is timing
    pt_changed_timing: AtomicU64,
    et_exact_checked: AtomicU64,
    sat_max: AtomicU64,
    sat_min: AtomicU64,
    both_edges: AtomicU64,
    fires: AtomicU64,
    a_skipped: AtomicU64,
    indep_checks: AtomicU64,
    delayed_calls: AtomicU64,
    /// histories replayed from a fresh subject (state expansions)
    replays: AtomicU64,
    /// timers: Q expected by the model (first reading alive)
    exp_q_true: AtomicU64,
    exp_q_false: AtomicU64,
    /// timer calls at which the accumulated time is not a whole number of milliseconds
    sub_ms: AtomicU64,
}

const COV_NAMES: [&str; 20] = [
    "evals", "calls_compared", "q_true", "q_false", "acc_lands_exactly_on_pt", "acc_beyond_pt",
    "tp_rising_edge_during_pulse", "pt_changed_while_timing", "et_compared_exactly",
    "counter_at_max_and_count_up", "counter_at_min_and_count_down", "ctud_both_edges",
    "edge_detector_fires", "cycles_with_a_skipped", "independence_checks", "calls_after_skipped_cycles",
    "histories_replayed_from_scratch", "timer_calls_model_q_true", "timer_calls_model_q_false",
    "timer_calls_with_sub_ms_accumulated_time",
];

impl Cov {
    fn values(&self) -> [u64; 20] {
        [
            self.evals.load(Relaxed),
            self.compared.load(Relaxed),
            self.q_true.load(Relaxed),
            self.q_false.load(Relaxed),
            self.exact_pt.load(Relaxed),
            self.beyond_pt.load(Relaxed),
            self.tp_edge_in_pulse.load(Relaxed),
            self.pt_changed_timing.load(Relaxed),
            self.et_exact_checked.load(Relaxed),
            self.sat_max.load(Relaxed),
            self.sat_min.load(Relaxed),
            self.both_edges.load(Relaxed),
            self.fires.load(Relaxed),
            self.a_skipped.load(Relaxed),
            self.indep_checks.load(Relaxed),
            self.delayed_calls.load(Relaxed),
            self.replays.load(Relaxed),
            self.exp_q_true.load(Relaxed),
            self.exp_q_false.load(Relaxed),
            self.sub_ms.load(Relaxed),
        ]
    }
}

fn bump(c: Option<&Cov>, f: impl Fn(&Cov) -> &AtomicU64) {
    if let Some(c) = c {
        f(c).fetch_add(1, Relaxed);
    }
}

// ------------------------------------------------------------------------------------------
// reference model: only the clauses of the property statement

/// state of one reading of a timer
#[derive(Clone, Copy, Debug, PartialEq, Eq, Hash)]
struct TS {
    phase: u8,
    /// accumulated time (ns) of the current timing period
    acc: i128,
    /// PT seen when the current timing period started
    pt0: i128,
    prev_in: bool,
    /// `acc` was cut down to limit+1 after the timer elapsed (only its order relative to the
    /// PT menu is still meaningful): ET is no longer compared exactly in this period
    sat: bool,
}

const IDLE: u8 = 0;
const TIMING: u8 = 1;
const ELAPSED: u8 = 2;
const HIGH: u8 = 3;
const PHASES: [&str; 4] = ["idle", "timing", "elapsed", "in-high"];
const READINGS: [&str; 4] = [
    "current PT",
    "current PT, accumulation clipped at PT",
    "Q latched once PT was reached",
    "PT sampled when timing started",
];

struct TPred {
    q: bool,
    /// ET must equal this (only while timing)
    et_exact: Option<i128>,
    et_max: i128,
    /// TP: this call shows a rising edge while the pulse is running
    edge_in_pulse: bool,
    phase_before: u8,
    /// accumulated time vs PT at this call: -1 / 0 / 1, 2 = not timing
    rel: i8,
    acc: i128,
    p: i128,
}

fn rel_of(acc: i128, p: i128) -> i8 {
    match acc.cmp(&p) {
        std::cmp::Ordering::Less => -1,
        std::cmp::Ordering::Equal => 0,
        std::cmp::Ordering::Greater => 1,
    }
}

/// One call under reading `r` (index into READINGS). The time `dt` since the previous call of
/// this instance is attributed to the input value seen at THIS call.
///
/// `limit` = largest finite PT of the family: once a period has elapsed, an accumulated time
/// beyond it is stored as limit+1 (same order relative to every PT of the menu), which keeps the
/// state space finite while IN is simply held.
fn timer_step(kind: Kind, r: usize, s: &mut TS, inn: bool, dt: i128, pt: i128, limit: i128) -> TPred {
    let ptn = pt.max(0);
    let mut acc_report = None;
    let phase_before = s.phase;
    let mut edge_in_pulse = false;
    let mut rel = 2i8;
    let mut et_max = ptn;
    let mut p_used = ptn;
    let q;
    match kind {
        Kind::Ton => {
            // Q <=> IN true over consecutive calls whose accumulated time reaches PT
            if !inn {
                s.phase = IDLE;
                s.acc = 0;
                s.pt0 = 0;
                s.sat = false;
                q = false;
            } else {
                if s.phase == IDLE {
                    s.phase = TIMING;
                    s.acc = 0;
                    s.pt0 = ptn;
                }
                s.acc += dt;
                let p = if r == 3 { s.pt0 } else { ptn };
                p_used = p;
                et_max = p;
                rel = rel_of(s.acc, p);
                if r == 2 {
                    q = s.phase == ELAPSED || s.acc >= p;
                } else {
                    q = s.acc >= p;
                    if r == 1 && s.acc > p {
                        s.acc = p;
                    }
                }
                s.phase = if q { ELAPSED } else { TIMING };
            }
        }
        Kind::Tof => {
            // Q stays true until the accumulated time since IN fell reaches PT
            if inn {
                s.phase = HIGH;
                s.acc = 0;
                s.pt0 = 0;
                s.sat = false;
                q = true;
            } else {
                if s.phase == HIGH {
                    s.phase = TIMING;
                    s.acc = 0;
                    s.pt0 = ptn;
                }
                if s.phase == IDLE {
                    q = false;
                } else {
                    s.acc += dt;
                    let p = if r == 3 { s.pt0 } else { ptn };
                    p_used = p;
                    et_max = p;
                    rel = rel_of(s.acc, p);
                    if r == 2 {
                        q = !(s.phase == ELAPSED || s.acc >= p);
                    } else {
                        q = s.acc < p;
                        if r == 1 && s.acc > p {
                            s.acc = p;
                        }
                    }
                    s.phase = if q { TIMING } else { ELAPSED };
                }
            }
        }
        _ => {
            // TP: one non-retriggerable pulse of accumulated length PT
            let rising = inn && !s.prev_in;
            s.prev_in = inn;
            if s.phase == TIMING {
                if rising {
                    edge_in_pulse = true;
                }
            } else if rising {
                s.phase = TIMING;
                s.acc = 0;
                s.pt0 = ptn;
            }
            if s.phase == TIMING {
                s.acc += dt;
                let p = if r == 3 { s.pt0 } else { ptn };
                p_used = p;
                et_max = p;
                rel = rel_of(s.acc, p);
                if s.acc >= p {
                    acc_report = Some(s.acc);
                    s.phase = IDLE;
                    s.acc = 0;
                    s.pt0 = 0;
                    q = false;
                } else {
                    q = true;
                }
            } else {
                q = false;
            }
        }
    }
    let timing_now = match kind {
        Kind::Ton => inn && !q,
        Kind::Tof => !inn && q,
        _ => q,
    };
    if s.phase == ELAPSED && s.acc > limit && s.acc < TMAX as i128 {
        s.acc = limit + 1;
        s.sat = true;
    }
    TPred {
        q,
        et_exact: if timing_now && !s.sat { Some(s.acc) } else { None },
        et_max,
        edge_in_pulse,
        phase_before,
        rel,
        acc: acc_report.unwrap_or(s.acc),
        p: p_used,
    }
}

#[derive(Clone, Debug, PartialEq, Eq, Hash)]
enum Model {
    /// one state per reading; None = reading refuted by an earlier observation
    Timer([Option<TS>; 4]),
    Ctu { cv: i64, prev: bool },
    Ctd { cv: i64, prev: bool },
    Ctud { cv: i64, pcu: bool, pcd: bool },
    RTrig { prev: bool },
    /// prev = None before the first call
    FTrig { prev: Option<bool> },
    Sr { q: bool },
    Rs { q: bool },
}

impl Model {
    fn new(kind: Kind, start_cv: Option<i64>) -> Model {
        let cv = start_cv.unwrap_or(0);
        match kind {
            Kind::Ton | Kind::Tof | Kind::Tp => {
                Model::Timer([Some(TS { phase: IDLE, acc: 0, pt0: 0, prev_in: false, sat: false }); 4])
            }
            Kind::Ctu => Model::Ctu { cv, prev: false },
            Kind::Ctd => Model::Ctd { cv, prev: false },
            Kind::Ctud => Model::Ctud { cv, pcu: false, pcd: false },
            Kind::RTrig => Model::RTrig { prev: false },
            Kind::FTrig => Model::FTrig { prev: None },
            Kind::Sr => Model::Sr { q: false },
            Kind::Rs => Model::Rs { q: false },
        }
    }
}

struct Mismatch {
    clause: &'static str,
    feature: String,
    detail: String,
}

/// per-instance oracle state
#[derive(Clone, Debug, PartialEq, Eq, Hash)]
struct Inst {
    model: Model,
    called: bool,
    /// time passed in cycles in which this instance was not called (since its last call)
    pending: i128,
    prev: Option<(Inp, Obs)>,
    /// see `timer_step`
    limit: i128,
    /// see `Fam::et_res`
    et_res: i128,
}

impl Inst {
    fn new(kind: Kind, start_cv: Option<i64>, limit: i128, et_res: i128) -> Inst {
        Inst { model: Model::new(kind, start_cv), called: false, pending: 0, prev: None, limit, et_res }
    }
}

fn check_timer(
    kind: Kind,
    vars: &mut [Option<TS>; 4],
    inp: &Inp,
    dt: i128,
    limit: i128,
    et_res: i128,
    obs: &Obs,
    prev: Option<&(Inp, Obs)>,
    cov: Option<&Cov>,
) -> Option<Mismatch> {
    let inn = inp.b[0];
    let pt = inp.n as i128;
    let et = obs.n as i128;
    if pt < 0 {
        // The statement is silent on negative PT: only "ET never exceeds PT" (as max(PT,0)).
        if et > 0 {
            return Some(Mismatch {
                clause: "et-exceeds-pt",
                feature: "neg-pt".into(),
                detail: format!("ET={} with PT={}", fmt_time(et), fmt_time(pt)),
            });
        }
        return None;
    }
    let mut preds: Vec<(usize, TS, TPred)> = Vec::with_capacity(4);
    for (r, v) in vars.iter().enumerate() {
        if let Some(s) = v {
            let mut s2 = *s;
            let p = timer_step(kind, r, &mut s2, inn, dt, pt, limit);
            preds.push((r, s2, p));
        }
    }
    // coverage: what the model says happens at this call (independent of the subject)
    if let Some((_, _, p)) = preds.first() {
        bump(cov, |c| if p.q { &c.exp_q_true } else { &c.exp_q_false });
        match p.rel {
            0 => bump(cov, |c| &c.exact_pt),
            1 => bump(cov, |c| &c.beyond_pt),
            _ => {}
        }
        if p.edge_in_pulse {
            bump(cov, |c| &c.tp_edge_in_pulse);
        }
        if p.acc % MS as i128 != 0 && p.acc != limit + 1 {
            bump(cov, |c| &c.sub_ms);
        }
        if p.et_exact.is_some() {
            bump(cov, |c| &c.et_exact_checked);
        }
        if p.phase_before == TIMING {
            if let Some((pi, _)) = prev {
                if pi.n != inp.n {
                    bump(cov, |c| &c.pt_changed_timing);
                }
            }
        }
    }
    let ok = |p: &TPred| {
        obs.q == p.q
            && et <= p.et_max
            && et >= 0
            && p.et_exact.map_or(true, |e| e == et || (et_res > 0 && et == e - e % et_res))
    };
    if !preds.iter().any(|(_, _, p)| ok(p)) {
        let (r, _, p) = &preds[0];
        let phase = PHASES[p.phase_before as usize];
        let rel = match p.rel {
            -1 => "acc<PT",
            0 => "acc=PT",
            1 => "acc>PT",
            _ => "not-timing",
        };
        let readings: Vec<&str> = preds.iter().map(|(r, _, _)| READINGS[*r]).collect();
        // signature features, deliberately coarse (one root cause => few signatures): does the
        // timing period start at this call or is it running; does the accumulated time land
        // exactly on PT or not
        let when = if p.phase_before == IDLE || p.phase_before == HIGH { "start" } else { "run" };
        let at = if p.rel == 0 { "at-PT" } else { "off-PT" };
        let ctx = format!(
            "model (reading '{}'{}): phase before the call {phase}, accumulated time {} vs PT {} ({rel})",
            READINGS[*r],
            if readings.len() > 1 { format!("; {} readings alive, none fits", readings.len()) } else { String::new() },
            fmt_time(p.acc),
            fmt_time(p.p)
        );
        let (clause, feature, detail) = if obs.q != p.q {
            (
                if p.edge_in_pulse { "tp-retrigger" } else { "q" },
                format!("{when},{at}"),
                format!("Q={} but the statement gives Q={}; {ctx}", tf(obs.q), tf(p.q)),
            )
        } else if et > p.et_max {
            (
                "et-exceeds-pt",
                String::new(),
                format!("ET={} exceeds PT={}; {ctx}", fmt_time(et), fmt_time(p.et_max)),
            )
        } else if et < 0 {
            ("et-negative", String::new(), format!("ET={} is negative; {ctx}", fmt_time(et)))
        } else {
            let e = p.et_exact.unwrap_or(0);
            (
                if p.edge_in_pulse { "tp-retrigger" } else { "et-value" },
                when.to_string(),
                format!("ET={} while timing, but the accumulated time is {}; {ctx}", fmt_time(et), fmt_time(e)),
            )
        };
        return Some(Mismatch { clause, feature, detail });
    }
    let mut nv = [None; 4];
    for (r, s2, p) in &preds {
        if ok(p) {
            nv[*r] = Some(*s2);
        }
    }
    *vars = nv;
    // observation-only clause: ET never decreases while timing
    if let Some((pi, po)) = prev {
        let timing = |i: &Inp, o: &Obs| match kind {
            Kind::Ton => i.b[0] && !o.q,
            Kind::Tof => !i.b[0] && o.q,
            _ => o.q,
        };
        if pi.n >= 0 && timing(pi, po) && timing(inp, obs) && obs.n < po.n {
            return Some(Mismatch {
                clause: "et-decreases",
                feature: String::new(),
                detail: format!(
                    "ET went from {} to {} between two consecutive calls that are both timing",
                    fmt_time(po.n as i128),
                    fmt_time(et)
                ),
            });
        }
    }
    None
}

fn rel3(a: i64, b: i64, name: &str) -> String {
    match a.cmp(&b) {
        std::cmp::Ordering::Less => format!("cv<{name}"),
        std::cmp::Ordering::Equal => format!("cv={name}"),
        std::cmp::Ordering::Greater => format!("cv>{name}"),
    }
}

fn cmp_counter(
    branch: &'static str,
    cv: i64,
    pv: i64,
    exp_q: bool,
    exp_q2: Option<bool>,
    obs: &Obs,
) -> Option<Mismatch> {
    if obs.n != cv {
        return Some(Mismatch {
            clause: "cv",
            feature: branch.to_string(),
            detail: format!("CV={} but the IEC body gives CV={cv} (branch: {branch})", obs.n),
        });
    }
    if obs.q != exp_q {
        return Some(Mismatch {
            clause: if exp_q2.is_some() { "qu" } else { "q" },
            feature: rel3(cv, pv, "pv"),
            detail: format!("Q/QU={} but expected {} with CV={cv}, PV={pv}", tf(obs.q), tf(exp_q)),
        });
    }
    if let Some(e2) = exp_q2 {
        if obs.q2 != e2 {
            return Some(Mismatch {
                clause: "qd",
                feature: rel3(cv, 0, "0"),
                detail: format!("QD={} but expected {} with CV={cv}", tf(obs.q2), tf(e2)),
            });
        }
    }
    None
}

impl Inst {
    /// Compares one call of the real block with the statement; updates the model.
    fn observe(&mut self, kind: Kind, inp: &Inp, dt: i128, obs: &Obs, cov: Option<&Cov>) -> Option<Mismatch> {
        let limit = self.limit;
        let et_res = self.et_res;
        bump(cov, |c| &c.compared);
        bump(cov, |c| if obs.q { &c.q_true } else { &c.q_false });
        let prev = self.prev;
        let mm = match &mut self.model {
            Model::Timer(vars) => check_timer(kind, vars, inp, dt, limit, et_res, obs, prev.as_ref(), cov),
            Model::Ctu { cv, prev } => {
                // docs/specs/08 §4: IF R THEN CV:=0 ELSIF CU(rising) AND CV<PVmax THEN CV+1; Q:=CV>=PV
                let (cu, r, pv) = (inp.b[0], inp.b[1], inp.n);
                let rising = cu && !*prev;
                *prev = cu;
                let branch = if r {
                    *cv = 0;
                    "reset"
                } else if rising {
                    if *cv < INT_MAX {
                        *cv += 1;
                        "up"
                    } else {
                        bump(cov, |c| &c.sat_max);
                        "sat-max"
                    }
                } else {
                    "hold"
                };
                cmp_counter(branch, *cv, pv, *cv >= pv, None, obs)
            }
            Model::Ctd { cv, prev } => {
                let (cd, ld, pv) = (inp.b[0], inp.b[1], inp.n);
                let rising = cd && !*prev;
                *prev = cd;
                let branch = if ld {
                    *cv = pv;
                    "load"
                } else if rising {
                    if *cv > INT_MIN {
                        *cv -= 1;
                        "down"
                    } else {
                        bump(cov, |c| &c.sat_min);
                        "sat-min"
                    }
                } else {
                    "hold"
                };
                let exp_q = *cv <= 0;
                if obs.n == *cv && obs.q != exp_q {
                    Some(Mismatch {
                        clause: "q",
                        feature: rel3(*cv, 0, "0"),
                        detail: format!("Q={} but expected {} with CV={cv}", tf(obs.q), tf(exp_q)),
                    })
                } else {
                    cmp_counter(branch, *cv, pv, exp_q, None, obs)
                }
            }
            Model::Ctud { cv, pcu, pcd } => {
                let (cu, cd, r, ld, pv) = (inp.b[0], inp.b[1], inp.b[2], inp.b[3], inp.n);
                let (ru, rd) = (cu && !*pcu, cd && !*pcd);
                *pcu = cu;
                *pcd = cd;
                let branch = if r {
                    *cv = 0;
                    "reset"
                } else if ld {
                    *cv = pv;
                    "load"
                } else if ru && rd {
                    // docs/specs/08 §4: both rising edges at once leave the count unchanged
                    bump(cov, |c| &c.both_edges);
                    "both-edges"
                } else if ru {
                    if *cv < INT_MAX {
                        *cv += 1;
                        "up"
                    } else {
                        bump(cov, |c| &c.sat_max);
                        "sat-max"
                    }
                } else if rd {
                    if *cv > INT_MIN {
                        *cv -= 1;
                        "down"
                    } else {
                        bump(cov, |c| &c.sat_min);
                        "sat-min"
                    }
                } else {
                    "hold"
                };
                cmp_counter(branch, *cv, pv, *cv >= pv, Some(*cv <= 0), obs)
            }
            Model::RTrig { prev } => {
                let clk = inp.b[0];
                let exp = clk && !*prev;
                let feature = if exp { "edge" } else if clk { "level-after-edge" } else { "low" };
                *prev = clk;
                if exp {
                    bump(cov, |c| &c.fires);
                }
                (obs.q != exp).then(|| Mismatch {
                    clause: "q",
                    feature: feature.to_string(),
                    detail: format!("Q={} but a rising-edge detector gives {} here ({feature})", tf(obs.q), tf(exp)),
                })
            }
            Model::FTrig { prev } => {
                let clk = inp.b[0];
                let exp = match *prev {
                    None if !clk => None, // first call with CLK low: either value accepted
                    None => Some(false),
                    Some(p) => Some(!clk && p),
                };
                let feature = match (*prev, clk) {
                    (None, _) => "first-call",
                    (Some(true), false) => "edge",
                    (Some(false), false) => "level-after-edge",
                    _ => "high",
                };
                *prev = Some(clk);
                if exp == Some(true) {
                    bump(cov, |c| &c.fires);
                }
                match exp {
                    Some(e) if e != obs.q => Some(Mismatch {
                        clause: "q",
                        feature: feature.to_string(),
                        detail: format!("Q={} but a falling-edge detector gives {} here ({feature})", tf(obs.q), tf(e)),
                    }),
                    _ => None,
                }
            }
            Model::Sr { q } => {
                let (s1, r) = (inp.b[0], inp.b[1]);
                let before = *q;
                *q = s1 || (!r && *q);
                (obs.q != *q).then(|| Mismatch {
                    clause: "q",
                    feature: format!("s1={},r={}", tf(s1), tf(r)),
                    detail: format!("Q1={} (was {}) but S1 OR (NOT R AND Q1) = {}", tf(obs.q), tf(before), tf(*q)),
                })
            }
            Model::Rs { q } => {
                let (s, r1) = (inp.b[0], inp.b[1]);
                let before = *q;
                *q = !r1 && (s || *q);
                (obs.q != *q).then(|| Mismatch {
                    clause: "q",
                    feature: format!("s={},r1={}", tf(s), tf(r1)),
                    detail: format!("Q1={} (was {}) but NOT R1 AND (S OR Q1) = {}", tf(obs.q), tf(before), tf(*q)),
                })
            }
        };
        self.prev = Some((*inp, *obs));
        mm
    }
}

// ------------------------------------------------------------------------------------------
// subjects: the real code at the two seams

#[derive(Clone)]
enum PureFb {
    Ton(Ton),
    Tof(Tof),
    Tp(Tp),
    Ctu(Ctu),
    Ctd(Ctd),
    Ctud(Ctud),
    RTrig(RTrig),
    FTrig(FTrig),
    Sr(Sr),
    Rs(Rs),
}

impl PureFb {
    fn new(kind: Kind) -> PureFb {
        match kind {
            Kind::Ton => PureFb::Ton(Ton::new()),
            Kind::Tof => PureFb::Tof(Tof::new()),
            Kind::Tp => PureFb::Tp(Tp::new()),
            Kind::Ctu => PureFb::Ctu(Ctu::new()),
            Kind::Ctd => PureFb::Ctd(Ctd::new()),
            Kind::Ctud => PureFb::Ctud(Ctud::new()),
            Kind::RTrig => PureFb::RTrig(RTrig::new()),
            Kind::FTrig => PureFb::FTrig(FTrig::new()),
            Kind::Sr => PureFb::Sr(Sr::new()),
            Kind::Rs => PureFb::Rs(Rs::new()),
        }
    }
    fn step(&mut self, i: &Inp, delta: i64) -> Obs {
        let d = Duration::from_nanos;
        let t = |o: trust_runtime::stdlib::fbs::TimerOutput| Obs { q: o.q, q2: false, n: o.et.as_nanos() };
        let c = |o: trust_runtime::stdlib::fbs::CounterOutput| Obs { q: o.q, q2: false, n: o.cv as i64 };
        let b = |q: bool| Obs { q, q2: false, n: 0 };
        match self {
            PureFb::Ton(x) => t(x.step(i.b[0], d(i.n), d(delta))),
            PureFb::Tof(x) => t(x.step(i.b[0], d(i.n), d(delta))),
            PureFb::Tp(x) => t(x.step(i.b[0], d(i.n), d(delta))),
            PureFb::Ctu(x) => c(x.step(i.b[0], i.b[1], i.n as i16)),
            PureFb::Ctd(x) => c(x.step(i.b[0], i.b[1], i.n as i16)),
            PureFb::Ctud(x) => {
                let o = x.step(i.b[0], i.b[1], i.b[2], i.b[3], i.n as i16);
                Obs { q: o.qu, q2: o.qd, n: o.cv as i64 }
            }
            PureFb::RTrig(x) => b(x.step(i.b[0])),
            PureFb::FTrig(x) => b(x.step(i.b[0])),
            PureFb::Sr(x) => b(x.step(i.b[0], i.b[1])),
            PureFb::Rs(x) => b(x.step(i.b[0], i.b[1])),
        }
    }
    /// all (private) fields through the derived Debug
    fn dump(&self) -> String {
        match self {
            PureFb::Ton(x) => format!("{x:?}"),
            PureFb::Tof(x) => format!("{x:?}"),
            PureFb::Tp(x) => format!("{x:?}"),
            PureFb::Ctu(x) => format!("{x:?}"),
            PureFb::Ctd(x) => format!("{x:?}"),
            PureFb::Ctud(x) => format!("{x:?}"),
            PureFb::RTrig(x) => format!("{x:?}"),
            PureFb::FTrig(x) => format!("{x:?}"),
            PureFb::Sr(x) => format!("{x:?}"),
            PureFb::Rs(x) => format!("{x:?}"),
        }
    }
}

fn st_source(kind: Kind, ltime: bool) -> String {
    let ty = if ltime { format!("{}_LTIME", kind.name()) } else { kind.name().to_string() };
    let tt = if ltime { "LTIME" } else { "TIME" };
    let mut vars = String::new();
    let mut body = String::new();
    for s in ["a", "b"] {
        vars.push_str(&format!(
            "  f{s} : {ty};\n  call_{s} : BOOL;\n  x0_{s} : BOOL;\n  x1_{s} : BOOL;\n  x2_{s} : BOOL;\n  x3_{s} : BOOL;\n  q_{s} : BOOL;\n  q2_{s} : BOOL;\n"
        ));
        if kind.is_timer() {
            vars.push_str(&format!("  pt_{s} : {tt};\n  et_{s} : {tt};\n"));
        } else if kind.is_counter() {
            vars.push_str(&format!("  pv_{s} : INT;\n  cv_{s} : INT;\n"));
        }
        let call = match kind {
            Kind::Ton | Kind::Tof | Kind::Tp => {
                format!("f{s}(IN := x0_{s}, PT := pt_{s}, Q => q_{s}, ET => et_{s});")
            }
            Kind::Ctu => format!("f{s}(CU := x0_{s}, R := x1_{s}, PV := pv_{s}, Q => q_{s}, CV => cv_{s});"),
            Kind::Ctd => format!("f{s}(CD := x0_{s}, LD := x1_{s}, PV := pv_{s}, Q => q_{s}, CV => cv_{s});"),
            Kind::Ctud => format!(
                "f{s}(CU := x0_{s}, CD := x1_{s}, R := x2_{s}, LD := x3_{s}, PV := pv_{s}, QU => q_{s}, QD => q2_{s}, CV => cv_{s});"
            ),
            Kind::RTrig | Kind::FTrig => format!("f{s}(CLK := x0_{s}, Q => q_{s});"),
            Kind::Sr => format!("f{s}(S1 := x0_{s}, R := x1_{s}, Q1 => q_{s});"),
            Kind::Rs => format!("f{s}(S := x0_{s}, R1 := x1_{s}, Q1 => q_{s});"),
        };
        body.push_str(&format!("IF call_{s} THEN\n  {call}\nEND_IF;\n"));
    }
    format!("PROGRAM Main\nVAR\n{vars}END_VAR\n{body}END_PROGRAM\n")
}

struct StSeam {
    h: TestHarness,
    ids: [InstanceId; 2],
    kind: Kind,
    ltime: bool,
}

enum Fail {
    Cycle(String),
    Output(String),
}

const AB: [&str; 2] = ["a", "b"];

impl StSeam {
    fn new(kind: Kind, ltime: bool, start_cv: Option<i64>) -> Result<StSeam, String> {
        let src = st_source(kind, ltime);
        let h = catch(|| TestHarness::from_source(&src))
            .map_err(|p| format!("compiling the {} driver program panicked: {p}", kind.name()))?
            .map_err(|e| format!("the {} driver program does not compile: {e:?}\n{src}", kind.name()))?;
        let mut ids = [InstanceId(0); 2];
        for w in 0..2 {
            match h.get_output(&format!("f{}", AB[w])) {
                Some(Value::Instance(id)) => ids[w] = id,
                o => return Err(format!("f{} is not an instance: {o:?}", AB[w])),
            }
        }
        let mut s = StSeam { h, ids, kind, ltime };
        if let Some(cv) = start_cv {
            // a state reachable by |cv| count pulses, installed directly (DESIGN.md C04)
            s.h.runtime_mut().storage_mut().set_instance_var(s.ids[0], "CV", Value::Int(cv as i16));
        }
        Ok(s)
    }

    fn dump(&self, w: usize, normalise: bool) -> Vec<(String, String)> {
        let now = self.h.current_time().as_nanos();
        let Some(inst) = self.h.runtime().storage().get_instance(self.ids[w]) else {
            return vec![("<missing instance>".into(), String::new())];
        };
        inst.variables
            .iter()
            .map(|(k, v)| {
                let vs = match v {
                    Value::Time(d) | Value::LTime(d) if normalise && k.contains("LAST_TIME") => {
                        format!("now-{}", now - d.as_nanos())
                    }
                    o => format!("{o:?}"),
                };
                (k.to_string(), vs)
            })
            .collect()
    }

    fn read_obs(&self, w: usize) -> Result<Obs, Fail> {
        let s = AB[w];
        let rb = |name: String| match self.h.get_output(&name) {
            Some(Value::Bool(b)) => Ok(b),
            o => Err(Fail::Output(format!("{name} = {o:?}"))),
        };
        let q = rb(format!("q_{s}"))?;
        let q2 = if self.kind == Kind::Ctud { rb(format!("q2_{s}"))? } else { false };
        let n = if self.kind.is_timer() {
            match self.h.get_output(&format!("et_{s}")) {
                Some(Value::Time(d)) | Some(Value::LTime(d)) => d.as_nanos(),
                o => return Err(Fail::Output(format!("et_{s} = {o:?}"))),
            }
        } else if self.kind.is_counter() {
            match self.h.get_output(&format!("cv_{s}")) {
                Some(Value::Int(v)) => v as i64,
                Some(Value::SInt(v)) => v as i64,
                Some(Value::DInt(v)) => v as i64,
                Some(Value::LInt(v)) => v,
                o => return Err(Fail::Output(format!("cv_{s} = {o:?}"))),
            }
        } else {
            0
        };
        Ok(Obs { q, q2, n })
    }
}

struct StepOut {
    obs: [Option<Obs>; 2],
    /// (instance that changed although it was not called, variable, detail)
    indep: Vec<(usize, String, String)>,
    indep_checks: u64,
}

enum Subject {
    Pure(Box<[PureFb; 2]>),
    St(Box<StSeam>),
}

enum Snapshot {
    Pure(Box<[PureFb; 2]>),
    St(Box<VariableStorage>, Duration),
}

impl Subject {
    /// Err = machinery problem; Ok(.., Some(problem)) = the start state could not be installed
    /// because the block miscounts (a violation).
    fn new(f: &Fam) -> Result<(Subject, Option<String>), String> {
        match f.seam {
            Seam::St => Ok((Subject::St(Box::new(StSeam::new(f.kind, f.ltime, f.start_cv)?)), None)),
            Seam::Pure => {
                let mut a = PureFb::new(f.kind);
                let mut problem = None;
                if let Some(cv) = f.start_cv {
                    // reach the start state through the public API only
                    let x = false;
                    let last = match f.kind {
                        Kind::Ctu => {
                            let mut last = Obs { q: false, q2: false, n: 0 };
                            for _ in 0..cv.max(0) {
                                a.step(&Inp { b: [true, x, x, x], n: 0 }, 0);
                                last = a.step(&Inp { b: [x, x, x, x], n: 0 }, 0);
                            }
                            last
                        }
                        Kind::Ctd => a.step(&Inp { b: [x, true, x, x], n: cv }, 0),
                        Kind::Ctud => a.step(&Inp { b: [x, x, x, true], n: cv }, 0),
                        _ => return Err("start_cv on a non-counter".into()),
                    };
                    if last.n != cv {
                        problem = Some(format!("after the set-up calls CV={} instead of {cv}", last.n));
                    }
                }
                Ok((Subject::Pure(Box::new([a, PureFb::new(f.kind)])), problem))
            }
        }
    }

    /// `acts[w]` = (inputs, time since the previous call of w) or None when w is not called.
    fn step(&mut self, dt: i64, acts: [Option<(Inp, i64)>; 2]) -> Result<StepOut, Fail> {
        let mut out = StepOut { obs: [None, None], indep: Vec::new(), indep_checks: 0 };
        match self {
            Subject::Pure(fbs) => {
                for w in 0..2 {
                    if let Some((inp, delta)) = acts[w] {
                        let other = fbs[1 - w].dump();
                        out.obs[w] = Some(fbs[w].step(&inp, delta));
                        out.indep_checks += 1;
                        let after = fbs[1 - w].dump();
                        if other != after {
                            out.indep.push((1 - w, "struct".into(), format!("{other} -> {after}")));
                        }
                    }
                }
            }
            Subject::St(s) => {
                let kind = s.kind;
                for w in 0..2 {
                    let n = AB[w];
                    s.h.set_input(&format!("call_{n}"), Value::Bool(acts[w].is_some()));
                    if let Some((inp, _)) = acts[w] {
                        for k in 0..kind.nb() {
                            s.h.set_input(&format!("x{k}_{n}"), Value::Bool(inp.b[k]));
                        }
                        if kind.is_timer() {
                            let d = Duration::from_nanos(inp.n);
                            s.h.set_input(&format!("pt_{n}"), if s.ltime { Value::LTime(d) } else { Value::Time(d) });
                        } else if kind.is_counter() {
                            s.h.set_input(&format!("pv_{n}"), Value::Int(inp.n as i16));
                        }
                    }
                }
                if dt > 0 {
                    s.h.advance_time(Duration::from_nanos(dt));
                }
                let before = [s.dump(0, false), s.dump(1, false)];
                let res = s.h.cycle();
                if !res.errors.is_empty() {
                    return Err(Fail::Cycle(format!("{:?}", res.errors)));
                }
                for w in 0..2 {
                    if acts[w].is_some() {
                        out.obs[w] = Some(s.read_obs(w)?);
                    } else {
                        out.indep_checks += 1;
                        let after = s.dump(w, false);
                        if after != before[w] {
                            let var = after
                                .iter()
                                .zip(before[w].iter())
                                .find(|(x, y)| x != y)
                                .map(|(x, _)| x.0.clone())
                                .unwrap_or_else(|| "<variable set>".into());
                            out.indep.push((w, var, format!("{:?} -> {:?}", before[w], after)));
                        }
                    }
                }
            }
        }
        Ok(out)
    }

    fn snapshot(&self) -> Snapshot {
        match self {
            Subject::Pure(fbs) => Snapshot::Pure(fbs.clone()),
            Subject::St(s) => Snapshot::St(Box::new(s.h.runtime().storage().clone()), s.h.current_time()),
        }
    }

    /// Puts the subject back into a state it was in before (used only for the one-step
    /// look-ahead from a state that was reached by a real replay; see `expand`).
    fn restore(&mut self, snap: &Snapshot) {
        match (self, snap) {
            (Subject::Pure(fbs), Snapshot::Pure(saved)) => *fbs = saved.clone(),
            (Subject::St(s), Snapshot::St(storage, now)) => {
                *s.h.runtime_mut().storage_mut() = (**storage).clone();
                s.h.runtime_mut().set_current_time(*now);
            }
            _ => unreachable!("snapshot of the other seam"),
        }
    }

    fn key_dump(&self) -> String {
        match self {
            Subject::Pure(fbs) => format!("{}|{}", fbs[0].dump(), fbs[1].dump()),
            Subject::St(s) => format!("{:?}|{:?}", s.dump(0, true), s.dump(1, true)),
        }
    }
}

// ------------------------------------------------------------------------------------------
// one run = real subject + oracle state; stepping and comparing

struct Run {
    subj: Subject,
    insts: [Inst; 2],
}

/// (signature, text) of a violation seen at one step
type Found = Vec<(String, String)>;

enum StepErr {
    Viol(Found),
    Machinery(String),
}

fn norm_msg(m: &str) -> String {
    let s: String = m.chars().map(|c| if c.is_ascii_digit() { '#' } else { c }).collect();
    s.chars().take(60).collect()
}

fn render(f: &Fam, hist: &[Ev]) -> String {
    let mut parts = Vec::new();
    for (i, ev) in hist.iter().enumerate() {
        let a = match &ev.a {
            Some(i) => format!("A({})", fmt_inp(f.kind, i)),
            None => "A not called".to_string(),
        };
        let b = match b_action(f, i) {
            Some(i) => format!(", B({})", fmt_inp(f.kind, &i)),
            None => String::new(),
        };
        parts.push(format!("#{}: +{} {a}{b}", i + 1, fmt_time(ev.dt as i128)));
    }
    parts.join("; ")
}

fn case_json(f: &Fam, hist: &[Ev]) -> J {
    let mut c = f.json();
    c["history"] = J::Array(hist.iter().map(ev_json).collect());
    c
}

fn mk_violation(f: &Fam, hist: &[Ev], sig: String, text: &str) -> Violation {
    Violation {
        signature: sig,
        what: format!(
            "{} seam, {} [{}], call history {{{}}}: at the last step {text}",
            f.seam.name(),
            f.kname(),
            f.label,
            if hist.is_empty() { "set-up only".to_string() } else { render(f, hist) }
        ),
        case: case_json(f, hist),
    }
}

fn sig_of(f: &Fam, m: &Mismatch) -> String {
    if m.clause == "tp-retrigger" {
        return format!("C04/tp-retrigger/{}", f.seam.name());
    }
    let mut s = format!("C04/{}/{}:{}", m.clause, f.seam.name(), f.kname());
    if !m.feature.is_empty() {
        s.push('/');
        s.push_str(&m.feature);
    }
    s
}

fn start(f: &Fam) -> Result<Run, StepErr> {
    let (subj, problem) = Subject::new(f).map_err(StepErr::Machinery)?;
    if let Some(p) = problem {
        let sig = format!("C04/cv/{}:{}/{}/setup", f.seam.name(), f.kname(), f.class);
        return Err(StepErr::Viol(vec![(sig, p)]));
    }
    let limit = f.limit();
    let res = f.et_res();
    Ok(Run { subj, insts: [Inst::new(f.kind, f.start_cv, limit, res), Inst::new(f.kind, None, limit, res)] })
}

/// Step number `i` (0-based) of a history: `ev.dt` passes, A is called (or not), B follows its
/// fixed trace; every call made is compared with the statement.
fn step_once(f: &Fam, run: &mut Run, i: usize, ev: &Ev, cov: Option<&Cov>) -> Result<(), StepErr> {
    let tag = format!("{}:{}/{}", f.seam.name(), f.kname(), f.class);
    let inps = [ev.a, b_action(f, i)];
    let mut acts: [Option<(Inp, i64)>; 2] = [None, None];
    let mut dts = [0i128; 2];
    for w in 0..2 {
        if let Some(inp) = inps[w] {
            // time before the first call of an instance is not "between two calls"
            let d = if run.insts[w].called { run.insts[w].pending + ev.dt as i128 } else { 0 };
            dts[w] = d;
            acts[w] = Some((inp, d.min(i64::MAX as i128) as i64));
            if run.insts[w].called && run.insts[w].pending > 0 {
                bump(cov, |c| &c.delayed_calls);
            }
        }
    }
    if inps[0].is_none() {
        bump(cov, |c| &c.a_skipped);
    }
    let subj = &mut run.subj;
    let out = match catch(|| subj.step(ev.dt, acts)) {
        Ok(Ok(o)) => o,
        Ok(Err(Fail::Cycle(e))) => {
            return Err(StepErr::Viol(vec![(
                format!("C04/cycle-error/{tag}/{}", norm_msg(&e)),
                format!("the cycle reported {e}"),
            )]))
        }
        Ok(Err(Fail::Output(e))) => {
            return Err(StepErr::Viol(vec![(format!("C04/output/{tag}"), format!("unreadable output {e}"))]))
        }
        Err(e) => {
            return Err(StepErr::Viol(vec![(
                format!("C04/panic/{tag}/{}", norm_msg(&e)),
                format!("the call panicked: {e}"),
            )]))
        }
    };
    if let Some(c) = cov {
        c.indep_checks.fetch_add(out.indep_checks, Relaxed);
    }
    let mut found: Found = Vec::new();
    for (w, var, detail) in &out.indep {
        found.push((
            format!("C04/independence/{}:{}/{}", f.seam.name(), f.kname(), var),
            format!("instance {} was not called but its state changed: {detail}", AB[*w].to_uppercase()),
        ));
    }
    for w in 0..2 {
        match inps[w] {
            Some(inp) => {
                let Some(obs) = out.obs[w] else {
                    return Err(StepErr::Machinery("missing observation".into()));
                };
                if let Some(m) = run.insts[w].observe(f.kind, &inp, dts[w], &obs, cov) {
                    found.push((
                        sig_of(f, &m),
                        format!(
                            "instance {} (time since its previous call {}) returned {}: {}",
                            AB[w].to_uppercase(),
                            fmt_time(dts[w]),
                            fmt_obs(f.kind, &obs),
                            m.detail
                        ),
                    ));
                }
                run.insts[w].called = true;
                run.insts[w].pending = 0;
            }
            None => {
                if run.insts[w].called {
                    run.insts[w].pending += ev.dt as i128;
                }
            }
        }
    }
    if found.is_empty() {
        Ok(())
    } else {
        Err(StepErr::Viol(found))
    }
}

/// canonical key: phase of B's trace, every instance variable of both instances (hidden ones
/// included, last-call time relative to now), oracle state
fn key_of(f: &Fam, run: &Run, len: usize) -> Key {
    use std::hash::{Hash, Hasher};
    let phase = if f.no_b { 0 } else { len % B_PERIOD };
    let text = format!("{phase}|{}|{:?}", run.subj.key_dump(), run.insts);
    // 128 bits from two independently salted SipHash runs (fixed keys: deterministic)
    let mut h1 = std::collections::hash_map::DefaultHasher::new();
    0u8.hash(&mut h1);
    text.hash(&mut h1);
    let mut h2 = std::collections::hash_map::DefaultHasher::new();
    1u8.hash(&mut h2);
    text.hash(&mut h2);
    (h1.finish(), h2.finish())
}

type Key = (u64, u64);

struct Replay {
    run: Option<Run>,
    /// violations with the prefix of the history at which they appear
    viols: Vec<Violation>,
    machinery: Option<String>,
}

/// Replays a whole history from a fresh subject; stops at the first violating step.
fn replay(f: &Fam, hist: &[Ev], cov: Option<&Cov>) -> Replay {
    let found = |upto: usize, fs: Found| Replay {
        run: None,
        viols: fs.into_iter().map(|(s, t)| mk_violation(f, &hist[..upto], s, &t)).collect(),
        machinery: None,
    };
    let mut run = match start(f) {
        Ok(r) => r,
        Err(StepErr::Viol(fs)) => return found(0, fs),
        Err(StepErr::Machinery(m)) => return Replay { run: None, viols: Vec::new(), machinery: Some(m) },
    };
    for (i, ev) in hist.iter().enumerate() {
        match step_once(f, &mut run, i, ev, cov) {
            Ok(()) => {}
            Err(StepErr::Viol(fs)) => return found(i + 1, fs),
            Err(StepErr::Machinery(m)) => return Replay { run: None, viols: Vec::new(), machinery: Some(m) },
        }
    }
    Replay { run: Some(run), viols: Vec::new(), machinery: None }
}

pub fn check_case(case: &J) -> Vec<Violation> {
    let Some(f) = Fam::from_json(case) else { return Vec::new() };
    let hist: Vec<Ev> = case["history"].as_array().map(|a| a.iter().filter_map(ev_from).collect()).unwrap_or_default();
    replay(&f, &hist, None).viols
}

pub fn workers() -> Vec<(&'static str, WorkerFn)> {
    Vec::new()
}

// ------------------------------------------------------------------------------------------
// explicit-state BFS. A state is expanded by (1) replaying its history on a FRESH subject
// (fresh structs / freshly compiled program) — this re-validates the state: the key must equal
// the key under which it was discovered — and (2) trying every event of the menu from that
// state, the subject being put back between two events by restoring a snapshot of the whole
// variable storage + clock (one compile per state instead of one per transition).

struct Node {
    hist: Vec<Ev>,
    key: Key,
}

struct Child {
    key: Option<Key>,
    found: Found,
}

struct Expansion {
    children: Vec<Child>,
    machinery: Option<String>,
}

fn expand(f: &Fam, node: &Node, menu: &[Ev], cov: &Cov) -> Expansion {
    let bad = |m: String| Expansion { children: Vec::new(), machinery: Some(m) };
    let r = replay(f, &node.hist, None);
    if let Some(m) = r.machinery {
        return bad(m);
    }
    let Some(mut run) = r.run else {
        return bad(format!(
            "history {{{}}} was violation-free when discovered but its replay is not: subject or snapshot/restore is not deterministic",
            render(f, &node.hist)
        ));
    };
    cov.replays.fetch_add(1, Relaxed);
    let k = key_of(f, &run, node.hist.len());
    if k != node.key {
        return bad(format!(
            "history {{{}}}: replay from scratch reaches state {k:?} but the one-step look-ahead from a restored snapshot had reached {:?}",
            render(f, &node.hist),
            node.key
        ));
    }
    let snap = run.subj.snapshot();
    let insts = run.insts.clone();
    let mut children = Vec::with_capacity(menu.len());
    for (n, ev) in menu.iter().enumerate() {
        if n > 0 {
            run.subj.restore(&snap);
            run.insts = insts.clone();
        }
        cov.evals.fetch_add(1, Relaxed);
        match step_once(f, &mut run, node.hist.len(), ev, Some(cov)) {
            Ok(()) => children.push(Child { key: Some(key_of(f, &run, node.hist.len() + 1)), found: Vec::new() }),
            Err(StepErr::Viol(found)) => {
                let panicked = found.iter().any(|(s, _)| s.starts_with("C04/panic/"));
                children.push(Child { key: None, found });
                if panicked {
                    // a panic may have left the subject half-updated: rebuild it
                    match replay(f, &node.hist, None).run {
                        Some(r2) => run = r2,
                        None => return bad("state not reproducible after a panic".into()),
                    }
                }
            }
            Err(StepErr::Machinery(m)) => return bad(m),
        }
    }
    Expansion { children, machinery: None }
}

struct BfsOut {
    states: u64,
    transitions: u64,
    depth_completed: usize,
    capped: bool,
    violations: Vec<Violation>,
    new_per_depth: Vec<usize>,
    sample: Option<Vec<Ev>>,
    machinery: Option<String>,
}

fn bfs(f: &Fam, menu: &[Ev], cov: &Cov, threads: usize, deadline: Instant) -> BfsOut {
    let mut out = BfsOut {
        states: 1,
        transitions: 0,
        depth_completed: 0,
        capped: false,
        violations: Vec::new(),
        new_per_depth: Vec::new(),
        sample: None,
        machinery: None,
    };
    let root = replay(f, &[], None);
    if let Some(m) = root.machinery {
        out.machinery = Some(m);
        return out;
    }
    let Some(run) = root.run else {
        out.violations = root.viols;
        return out;
    };
    let mut seen = std::collections::HashSet::new();
    let k0 = key_of(f, &run, 0);
    seen.insert(k0);
    drop(run);
    let mut frontier = vec![Node { hist: Vec::new(), key: k0 }];
    // per signature: how many were confirmed by a replay from scratch
    let mut confirmed: std::collections::HashMap<String, u32> = std::collections::HashMap::new();
    for depth in 1..=f.depth {
        let res = par_map(&frontier, threads, 4 << 20, Some(deadline), |_, n| expand(f, n, menu, cov));
        let mut next = Vec::new();
        let mut complete = true;
        for (node, r) in frontier.iter().zip(res) {
            let Some(r) = r else {
                complete = false;
                continue;
            };
            if let Some(m) = r.machinery {
                out.machinery = Some(m);
                return out;
            }
            for (ev, ch) in menu.iter().zip(r.children) {
                out.transitions += 1;
                let child_hist = || {
                    let mut h = node.hist.clone();
                    h.push(*ev);
                    h
                };
                for (sig, text) in ch.found {
                    let hist = child_hist();
                    let c = confirmed.entry(sig.clone()).or_insert(0);
                    if *c < 2 {
                        // the look-ahead ran from a restored snapshot: confirm on a fresh subject
                        *c += 1;
                        let again = replay(f, &hist, None);
                        if !again.viols.iter().any(|v| v.signature == sig) {
                            out.machinery = Some(format!(
                                "violation {sig} seen from a restored snapshot is not reproduced by a replay from scratch of {{{}}}",
                                render(f, &hist)
                            ));
                            return out;
                        }
                    }
                    out.violations.push(mk_violation(f, &hist, sig, &text));
                }
                if let Some(k) = ch.key {
                    if seen.insert(k) {
                        let hist = child_hist();
                        out.states += 1;
                        if depth >= 4 && (out.sample.is_none() || depth == f.depth.min(5)) {
                            out.sample = Some(hist.clone());
                        }
                        next.push(Node { hist, key: k });
                    }
                }
            }
        }
        out.new_per_depth.push(next.len());
        if !complete {
            out.capped = true;
            break;
        }
        out.depth_completed = depth;
        frontier = next;
        if frontier.is_empty() {
            out.depth_completed = f.depth;
            break;
        }
    }
    out
}

// ------------------------------------------------------------------------------------------
// families and the driver

fn families(tier: Tier) -> Vec<Fam> {
    let depth = tier.pick(6usize, 12usize);
    let dts: Vec<i64> = [0, 1, 2, 3, 5].iter().map(|d| d * MS).collect();
    let no_limit = i128::MAX / 4;
    let mut v = Vec::new();
    // template
    let base = |seam: Seam, kind: Kind| Fam {
        seam,
        kind,
        class: String::new(),
        label: String::new(),
        ns: vec![0],
        dts: vec![0],
        start_cv: None,
        b_n: 0,
        no_b: false,
        a_skip: seam == Seam::St,
        depth,
        ltime: false,
        skip_dts: vec![0],
        limit: no_limit,
    };
    for seam in [Seam::Pure, Seam::St] {
        let st = seam == Seam::St;
        for kind in [Kind::Ton, Kind::Tof, Kind::Tp] {
            // (flavour) TIME at both seams, LTIME additionally at the ST seam
            for ltime in [false, true] {
                if ltime && !st {
                    continue;
                }
                let timer = |class: &str, label: &str, ns: Vec<i64>, dts: &[i64], skip: &[i64], b_n: i64, limit: i64, depth: usize| Fam {
                    class: class.into(),
                    label: label.into(),
                    ns,
                    dts: dts.to_vec(),
                    b_n,
                    depth,
                    ltime,
                    skip_dts: skip.to_vec(),
                    limit: limit as i128,
                    ..base(seam, kind)
                };
                // whole-millisecond families (for LTIME only one of them: the code path differs
                // from TIME only in how ET is published)
                let fixed: Vec<(&str, &str, Vec<i64>)> = if ltime {
                    vec![("fixed", "PT=3ms", vec![3 * MS])]
                } else {
                    vec![
                        ("fixed", "PT=2ms", vec![2 * MS]),
                        ("fixed", "PT=3ms", vec![3 * MS]),
                        ("fixed", "PT=0", vec![0]),
                        ("fixed", "PT=max", vec![TMAX]),
                        ("neg", "PT=-1ms", vec![-MS]),
                        ("change", "PT free per call in {0,2ms,3ms,max}", vec![0, 2 * MS, 3 * MS, TMAX]),
                    ]
                };
                for (class, label, ns) in fixed {
                    let b_n = if ns == vec![2 * MS] { 3 * MS } else { 2 * MS };
                    let d = if class == "change" { tier.pick(5, 9) } else { depth };
                    v.push(timer(class, label, ns, &dts, &[0, 2 * MS], b_n, 3 * MS, d));
                }
                // time steps that are not whole milliseconds (0.4 ms, 1.5 ms), with presets that
                // only the exactly accumulated sub-millisecond parts reach: 5 x 0.4 ms = 2 ms,
                // 2 x 1.5 ms = 3 ms, and presets with a sub-millisecond part themselves
                // (T#1500us, T#400us). The model accumulates in nanoseconds.
                let sub: Vec<(&str, i64)> = if ltime {
                    vec![("PT=1.5ms", US1500), ("PT=2ms", 2 * MS)]
                } else {
                    vec![("PT=0.4ms", US400), ("PT=1.5ms", US1500), ("PT=2ms", 2 * MS), ("PT=3ms", 3 * MS)]
                };
                for (l, pt) in sub {
                    let b_n = if pt == US1500 { 2 * MS } else { US1500 };
                    v.push(timer(
                        "sub",
                        &format!("{l}, dt in {{0,0.4ms,1.5ms}}"),
                        vec![pt],
                        &[0, US400, US1500],
                        &[US400],
                        b_n,
                        3 * MS,
                        tier.pick(6, 10),
                    ));
                }
                if !ltime {
                    // time steps around 2^31 ms (24.8 days): i32::MAX ms, 2^31 ms, 2^32 ms, with a
                    // preset of 2^31 ms (a millisecond count that does not fit 32 bits)
                    v.push(timer(
                        "big",
                        "PT=2^31ms, dt in {0,1ms,2^31ms-1ms,2^31ms,2^32ms}",
                        vec![BIG],
                        &[0, MS, BIG - MS, BIG, 2 * BIG],
                        &[BIG - MS],
                        2 * MS,
                        BIG,
                        tier.pick(4, 6),
                    ));
                }
                if !st {
                    // extreme time steps; only at the pure seam: at the ST seam the harness clock
                    // itself (Runtime::advance_time, not an anchor of C04) is limited to i64::MAX
                    // ns in total, so accumulated times cannot exceed it there.
                    for (label, pt) in [("PT=3ms, dt in {0,1ms,max}", 3 * MS), ("PT=max, dt in {0,1ms,max}", TMAX)] {
                        v.push(Fam {
                            no_b: true,
                            a_skip: false,
                            limit: no_limit,
                            ..timer("xdt", label, vec![pt], &[0, MS, TMAX], &[], 0, 0, 4)
                        });
                    }
                }
            }
        }
        for kind in [Kind::Ctu, Kind::Ctd, Kind::Ctud] {
            let starts: Vec<(&str, Option<i64>)> = match kind {
                Kind::Ctu => vec![("init", None), ("near-max", Some(INT_MAX - 1))],
                Kind::Ctd => vec![("init", None), ("near-min", Some(INT_MIN + 1))],
                _ => vec![("init", None), ("near-max", Some(INT_MAX - 1)), ("near-min", Some(INT_MIN + 1))],
            };
            for (class, start_cv) in starts {
                v.push(Fam {
                    class: class.into(),
                    label: match start_cv {
                        Some(c) => format!("start CV={c}, PV free per call in {{-1,0,1,2,32767}}"),
                        None => "PV free per call in {-1,0,1,2,32767}".into(),
                    },
                    ns: vec![-1, 0, 1, 2, INT_MAX],
                    start_cv,
                    b_n: 1,
                    depth: if kind == Kind::Ctud && st { tier.pick(4, 10) } else { depth },
                    ..base(seam, kind)
                });
            }
        }
        for kind in [Kind::RTrig, Kind::FTrig, Kind::Sr, Kind::Rs] {
            v.push(Fam { class: "all".into(), label: "all input combinations".into(), ..base(seam, kind) });
        }
    }
    // cheap families first, so that a wall cap can only cut the big PT-change families
    v.sort_by_key(|f| (f.class == "change") as u8);
    v
}

/// Which coverage counters must be non-zero for the family to be non-vacuous.
fn vacuity(f: &Fam, c: &Cov) -> Option<String> {
    let need = |n: &AtomicU64, what: &str| (n.load(Relaxed) == 0).then(|| format!("{what} never happened"));
    let mut missing: Vec<Option<String>> = vec![need(&c.compared, "a compared call")];
    if f.kind.is_timer() && f.class != "neg" {
        missing.push(need(&c.exp_q_true, "a call where the model gives Q=TRUE"));
        missing.push(need(&c.exp_q_false, "a call where the model gives Q=FALSE"));
    }
    if f.kind.is_timer() && (f.label == "PT=2ms" || f.label == "PT=3ms" || f.class == "change" || f.class == "sub" || f.class == "big") {
        missing.push(need(&c.exact_pt, "accumulated time landing exactly on PT"));
        missing.push(need(&c.beyond_pt, "accumulated time beyond PT"));
        missing.push(need(&c.et_exact_checked, "an exact ET comparison"));
        if f.kind == Kind::Tp {
            missing.push(need(&c.tp_edge_in_pulse, "a rising edge during a TP pulse"));
        }
    }
    if f.class == "sub" {
        missing.push(need(&c.sub_ms, "an accumulated time with a sub-millisecond part"));
    }
    if f.class == "change" {
        missing.push(need(&c.pt_changed_timing, "a PT change while timing"));
    }
    if f.class == "near-max" {
        missing.push(need(&c.sat_max, "count-up at CV=max"));
    }
    if f.class == "near-min" {
        missing.push(need(&c.sat_min, "count-down at CV=min"));
    }
    if f.kind == Kind::Ctud {
        missing.push(need(&c.both_edges, "simultaneous CU/CD edges"));
    }
    if matches!(f.kind, Kind::RTrig | Kind::FTrig) {
        missing.push(need(&c.fires, "an edge"));
    }
    if f.seam == Seam::St {
        missing.push(need(&c.a_skipped, "a cycle with A not called"));
        missing.push(need(&c.indep_checks, "an independence check"));
        if f.kind.is_timer() {
            missing.push(need(&c.delayed_calls, "a call after skipped cycles"));
        }
    }
    let m: Vec<String> = missing.into_iter().flatten().collect();
    (!m.is_empty()).then(|| m.join(", "))
}

pub fn run(ctx: &Ctx) -> EngineResult {
    quiet_panics();
    let mut rep = Report::new("model_checking");
    rep.max_samples = 8;
    let deadline = Instant::now() + WallDuration::from_secs(ctx.tier.pick(38, 840));
    let fams = families(ctx.tier);
    let mut total = [0u64; 20];
    let (mut states, mut transitions) = (0u64, 0u64);
    let mut per_family = Vec::new();
    let mut exhaustive = true;
    let mut min_depth = usize::MAX;
    let mut kinds_seen = std::collections::BTreeSet::new();
    for f in &fams {
        let t0 = Instant::now();
        let menu = f.menu();
        let cov = Cov::default();
        let out = bfs(f, &menu, &cov, ctx.threads, deadline);
        let tag = format!("{} {} [{}]", f.seam.name(), f.kname(), f.label);
        if let Some(m) = out.machinery {
            return machinery(format!("{tag}: {m}"));
        }
        let nviol = out.violations.len();
        let mut by_sig: std::collections::BTreeMap<String, u64> = std::collections::BTreeMap::new();
        for v in &out.violations {
            *by_sig.entry(v.signature.clone()).or_insert(0) += 1;
        }
        rep.violations_from(out.violations);
        states += out.states;
        transitions += out.transitions;
        for (t, v) in total.iter_mut().zip(cov.values()) {
            *t += v;
        }
        if out.capped {
            exhaustive = false;
            rep.cap(format!("{tag}: wall cap reached, depth {} of {} completed", out.depth_completed, f.depth));
        } else if let (0, Some(v)) = (nviol, vacuity(f, &cov)) {
            // (a family with violations is pruned at every violating history, so its coverage
            // may legitimately be lower; the violations themselves are the result then)
            return machinery(format!("{tag} is vacuous: {v}"));
        }
        min_depth = min_depth.min(out.depth_completed);
        kinds_seen.insert((f.seam.name(), f.kname()));
        if let Some(h) = &out.sample {
            if f.label == "PT=3ms" && f.kind != Kind::Tof || f.class == "near-max" && f.kind == Kind::Ctud {
                rep.sample(json!({"seam": f.seam.name(), "kind": f.kind.name(), "family": f.label, "history": render(f, h)}));
            }
        }
        per_family.push(json!({
            "seam": f.seam.name(), "kind": f.kind.name(), "family": f.label, "class": f.class,
            "events_per_step": menu.len(), "max_depth": f.depth, "depth_completed": out.depth_completed,
            "states": out.states, "transitions": out.transitions, "new_states_per_depth": out.new_per_depth,
            "violating_histories": nviol, "violating_histories_by_signature": by_sig, "wall_s": (t0.elapsed().as_secs_f64() * 100.0).round() / 100.0,
        }));
        eprintln!(
            "[C04] {:4} {:6} {:36.36} ev {:3} states {:6} trans {:8} depth {:2}/{:2} viol {:5} {:5.1}s (t={:.0}s)",
            f.seam.name(),
            f.kname(),
            f.label,
            menu.len(),
            out.states,
            out.transitions,
            out.depth_completed,
            f.depth,
            nviol,
            t0.elapsed().as_secs_f64(),
            ctx.elapsed()
        );
    }
    if kinds_seen.len() != 23 {
        return machinery(format!("only {} of 23 (seam, block) pairs were explored", kinds_seen.len()));
    }
    rep.set("states", states);
    rep.set("transitions", transitions);
    // every explored history = one transition: its last call(s) ran on the real code and were
    // compared with the model (its prefix was compared when the parent was explored)
    rep.set("traces_validated_against_impl", transitions + fams.len() as u64);
    rep.set("depth_completed_min_over_families", min_depth as u64);
    rep.set("families", fams.len() as u64);
    rep.set("per_family", J::Array(per_family));
    for (n, v) in COV_NAMES.iter().zip(total) {
        rep.set(n, v);
    }
    rep.set("exhaustive", exhaustive);
    rep.set(
        "rule",
        "BFS over call histories per (seam, FB kind, family), simplest first. A state is expanded by replaying its history on a fresh subject (new structs / freshly compiled ST program with two instances driven through TestHarness) and then trying every event from it (subject put back by restoring the variable storage + clock; the key reached that way is re-checked against a replay from scratch when the state is expanded, and the first two violations per signature are confirmed by a replay from scratch). Every call of both instances is compared with the statement's model. Histories are merged on (all instance variables incl. hidden ones with last-call time relative to now, model state incl. all readings still alive, phase of instance B's periodic trace). A history that shows a violation is not extended.",
    );
    rep.assume("time before the first call of an instance is not attributed to any input (no 'two calls' yet)");
    rep.assume("negative PT: only no-panic and ET <= max(PT,0) are demanded; ET is compared exactly only while timing");
    rep.assume("PT changed while timing: any of four readings (current PT, clipped accumulation, latched Q, PT sampled at start) may explain the trace");
    rep.assume("ST-seam near-saturation start states are installed by writing CV through storage_mut (reachable by 32766 pulses)");
    rep.assume("extreme dt (i64::MAX ns) only at the pure seam; the ST harness clock cannot exceed i64::MAX ns in total");
    rep.assume("FB state lives in VariableStorage + the runtime clock (checked: keys after snapshot-restore equal keys after replay from scratch for every expanded state)");
    Ok(rep)
}
