//! C14 — the language server keeps the same document text as the editor (core X2: explicit-state
//! search over edit histories; a state = the history replayed on the REAL `trust-lsp` binary over
//! stdio JSON-RPC + the reference editor model below).
//!
//! Oracle clauses
//!  * `text`     — document A (didOpen(s0) + the history of didChange notifications) and document B
//!                 (a fresh URI opened with the text the reference editor holds after the same
//!                 history) must give identical `formatting`, `semanticTokens/full`,
//!                 `documentSymbol` and pull `textDocument/diagnostic` answers (URIs/result ids
//!                 removed). A mismatch is only reported when it reproduces on a second replay
//!                 with fresh URIs (guards against timing dependent answers).
//!  * `position` — offset<->position identity: every position the server reports for a token of
//!                 `trust_syntax::lex(text)` / an error of `trust_syntax::parse(text)` must be the
//!                 UTF-16 position the reference editor computes for that byte offset.
//!
//! Reference editor (`Ed`): a `String` plus the LSP 3.17 rules: position = (line, UTF-16 code unit
//! offset in the line); lines end at "\n", "\r\n" or "\r"; a character offset greater than the line
//! length is clamped to the line length. Nothing is taken from /repo.
//!
//! Observability: no LSP request returns the raw document, so after the four requests one
//! unformatted ASCII line is inserted at 0:0 (`PROBE`) and `formatting` is asked again: the answer
//! then echoes comment/string lines verbatim. What stays invisible: which line terminator a line
//! has (the formatter normalises them) and whitespace inside reformatted lines that does not move
//! a token. Because a divergence can be latent, the signature is not computed from the last
//! notification blindly: `blame` searches the culprit change by counterfactual replays.
//!
//! Family "events" (see the section "Environment events"): the open document is a real file in the
//! server's workspace folder (`rootUri`, one scratch directory per server), and the notifications a
//! real client interleaves with didChange are enumerated at every position of short change
//! sequences: didChangeWatchedFiles Created/Changed/Deleted for the open URI (file as opened,
//! rewritten by another tool, or absent) and for another file, didSave with/without text,
//! didRenameFiles onto / away from the open URI, didClose+didOpen with another text, a second open
//! document being edited. Same oracle; signature `C14/text/event:<event>/<feature>` with feature
//! open-buffer-differs-from-disk | open-buffer-equals-disk | no-file-on-disk | open-document |
//! other-uri | buffer-written-to-disk | other-text. Not enumerated: events for the configuration
//! file (they legitimately change the analysis and re-index in the background), a bare
//! didRenameFiles without the didClose/didOpen pair real clients send, requests on closed documents.
//!
//! Signatures: `C14/text/<kind>/<feature>` (kind of the culprit: range | full | multi-range |
//! multi-full | multi-mixed; feature: lone-cr > past-eol:<eol> > astral > bmp > crlf > plain, or
//! `batch` when only batching explains it), `C14/position/<answer field>/<feature of the line>`,
//! `C14/hang|server-died/<stage>/<kind>/<feature>`.
//!
//! Left out of the alphabet on purpose (expected behaviour not defined by LSP 3.17):
//!  * positions whose line is past the last line of the document;
//!  * positions inside a surrogate pair; ranges with start > end;
//!  * `rangeLength` (deprecated) is never sent.

use crate::fw::*;
use crate::iso::WorkerFn;
use crate::x2;
use serde_json::{json, Value};
use std::collections::HashMap;
use std::io::{BufRead, BufReader, Write};
use std::process::{Child, ChildStdin, Command, Stdio};
use std::sync::atomic::{AtomicU64, Ordering};
use std::sync::mpsc;
use std::sync::{Arc, Mutex};
use std::time::{Duration, Instant};
use trust_syntax::lexer::{lex, TokenKind};
use trust_syntax::parser::parse;

// ---------------------------------------------------------------------------------------------
// Reference editor model (LSP 3.17 text synchronisation on UTF-16 code units)
// ---------------------------------------------------------------------------------------------

#[derive(Clone, Copy, Debug, PartialEq, Eq)]
enum Eol {
    Lf,
    CrLf,
    Cr,
    Eof,
}

impl Eol {
    fn name(self) -> &'static str {
        match self {
            Eol::Lf => "lf",
            Eol::CrLf => "crlf",
            Eol::Cr => "cr",
            Eol::Eof => "eof",
        }
    }
}

#[derive(Clone, Copy, Debug)]
struct Line {
    /// byte offset of the first character of the line
    start: usize,
    /// byte offset of the end of the line content (start of its terminator)
    end: usize,
    eol: Eol,
}

/// Lines of `text`; always at least one (the last one is terminated by EOF).
fn lines_of(text: &str) -> Vec<Line> {
    let b = text.as_bytes();
    let mut out = Vec::new();
    let mut start = 0usize;
    let mut i = 0usize;
    while i < b.len() {
        match b[i] {
            b'\n' => {
                out.push(Line { start, end: i, eol: Eol::Lf });
                i += 1;
                start = i;
            }
            b'\r' => {
                if i + 1 < b.len() && b[i + 1] == b'\n' {
                    out.push(Line { start, end: i, eol: Eol::CrLf });
                    i += 2;
                } else {
                    out.push(Line { start, end: i, eol: Eol::Cr });
                    i += 1;
                }
                start = i;
            }
            _ => i += 1,
        }
    }
    out.push(Line { start, end: b.len(), eol: Eol::Eof });
    out
}

fn utf16_len(s: &str) -> u32 {
    s.chars().map(|c| c.len_utf16() as u32).sum()
}

/// LSP position -> byte offset. `None`: line past the document or column inside a surrogate pair
/// (never generated). A column past the end of the line is clamped (LSP 3.17, `Position`).
fn pos_to_off(text: &str, lines: &[Line], line: u32, col: u32) -> Option<usize> {
    let l = lines.get(line as usize)?;
    let mut u = 0u32;
    for (i, c) in text[l.start..l.end].char_indices() {
        if u == col {
            return Some(l.start + i);
        }
        if u > col {
            return None;
        }
        u += c.len_utf16() as u32;
    }
    if u > col {
        return None; // inside the last surrogate pair
    }
    Some(l.end)
}

/// Byte offset (a character boundary, not inside a "\r\n") -> LSP position.
fn off_to_pos(text: &str, lines: &[Line], off: usize) -> (u32, u32) {
    // last line whose start is <= off
    let idx = match lines.binary_search_by(|l| l.start.cmp(&off)) {
        Ok(i) => i,
        Err(i) => i - 1,
    };
    let l = &lines[idx];
    let end = off.min(l.end);
    (idx as u32, utf16_len(&text[l.start..end]))
}

#[derive(Clone, Debug, PartialEq, Eq, Hash)]
pub enum Change {
    Range { sl: u32, sc: u32, el: u32, ec: u32, text: String },
    Full { text: String },
}

impl Change {
    fn to_lsp(&self) -> Value {
        match self {
            Change::Range { sl, sc, el, ec, text } => json!({
                "range": {"start": {"line": sl, "character": sc}, "end": {"line": el, "character": ec}},
                "text": text
            }),
            Change::Full { text } => json!({ "text": text }),
        }
    }
    fn from_lsp(v: &Value) -> Option<Change> {
        let text = v["text"].as_str()?.to_string();
        if v.get("range").map(|r| !r.is_null()).unwrap_or(false) {
            let g = |a: &str, b: &str| v["range"][a][b].as_u64().map(|x| x as u32);
            Some(Change::Range {
                sl: g("start", "line")?,
                sc: g("start", "character")?,
                el: g("end", "line")?,
                ec: g("end", "character")?,
                text,
            })
        } else {
            Some(Change::Full { text })
        }
    }
}

/// The editor applies one content change. `None` = the change is outside the defined part of the
/// protocol (never generated by the enumerators; a replay file could contain one).
fn ed_apply(text: &str, ch: &Change) -> Option<String> {
    match ch {
        Change::Full { text } => Some(text.clone()),
        Change::Range { sl, sc, el, ec, text: ins } => {
            let lines = lines_of(text);
            let s = pos_to_off(text, &lines, *sl, *sc)?;
            let e = pos_to_off(text, &lines, *el, *ec)?;
            if s > e {
                return None;
            }
            let mut out = String::with_capacity(text.len() + ins.len());
            out.push_str(&text[..s]);
            out.push_str(ins);
            out.push_str(&text[e..]);
            Some(out)
        }
    }
}

fn has_lone_cr(text: &str) -> bool {
    lines_of(text).iter().any(|l| l.eol == Eol::Cr)
}

/// Smallest discriminating feature of a place in a text, by priority: a lone CR anywhere before
/// (line numbering), an astral character before it on the line, a BMP non-ASCII character before
/// it on the line, a CRLF before it, else plain.
fn place_feature(text: &str, line_start: usize, upto: usize) -> &'static str {
    let upto = upto.min(text.len());
    let line_start = line_start.min(upto);
    if has_lone_cr(&text[..upto]) {
        return "lone-cr";
    }
    let seg = &text[line_start..upto];
    if seg.chars().any(|c| c.len_utf16() == 2) {
        "astral"
    } else if !seg.is_ascii() {
        "bmp"
    } else if text[..upto].contains("\r\n") {
        "crlf"
    } else {
        "plain"
    }
}

fn feature_rank(f: &str) -> u32 {
    match f {
        "lone-cr" => 6,
        f if f.starts_with("past-eol") => 5,
        "astral" => 4,
        "bmp" => 3,
        "crlf" => 2,
        _ => 1,
    }
}

/// Feature of one LSP position used by a change, on the editor's text at that moment.
fn position_feature(text: &str, lines: &[Line], line: u32, col: u32) -> String {
    let Some(l) = lines.get(line as usize) else { return "no-such-line".into() };
    let len = utf16_len(&text[l.start..l.end]);
    let base = place_feature(text, l.start, pos_to_off(text, lines, line, col).unwrap_or(l.end));
    if col > len && feature_rank(base) < 5 {
        if l.eol == Eol::Cr {
            return "lone-cr".into();
        }
        return format!("past-eol:{}", l.eol.name());
    }
    base.to_string()
}

/// Kind + highest-priority feature of a notification (evaluated on the evolving editor text).
fn notification_class(before: &str, note: &[Change]) -> (String, String) {
    let ranges = note.iter().filter(|c| matches!(c, Change::Range { .. })).count();
    let fulls = note.len() - ranges;
    let kind = match (ranges, fulls, note.len()) {
        (1, 0, 1) => "range",
        (0, 1, 1) => "full",
        (_, 0, _) => "multi-range",
        (0, _, _) => "multi-full",
        _ => "multi-mixed",
    };
    let mut best = "plain".to_string();
    let mut cur = before.to_string();
    for ch in note {
        if let Change::Range { sl, sc, el, ec, .. } = ch {
            let lines = lines_of(&cur);
            for (l, c) in [(*sl, *sc), (*el, *ec)] {
                let f = position_feature(&cur, &lines, l, c);
                if feature_rank(&f) > feature_rank(&best) {
                    best = f;
                }
            }
        }
        match ed_apply(&cur, ch) {
            Some(n) => cur = n,
            None => break,
        }
    }
    (kind.to_string(), best)
}

/// The same notification with every column past the end of its line replaced by the line length
/// (the position LSP 3.17 defines it to mean). Used to decide whether a mismatch is caused by the
/// clamping rule or by something else in the notification.
fn clamp_note(before: &str, note: &[Change]) -> Vec<Change> {
    let mut cur = before.to_string();
    let mut out = Vec::new();
    for ch in note {
        let c2 = match ch {
            Change::Range { sl, sc, el, ec, text } => {
                let lines = lines_of(&cur);
                let cl = |l: u32, c: u32| match lines.get(l as usize) {
                    Some(ln) => c.min(utf16_len(&cur[ln.start..ln.end])),
                    None => c,
                };
                Change::Range { sl: *sl, sc: cl(*sl, *sc), el: *el, ec: cl(*el, *ec), text: text.clone() }
            }
            f => f.clone(),
        };
        if let Some(n) = ed_apply(&cur, &c2) {
            cur = n;
        }
        out.push(c2);
    }
    out
}

// ---------------------------------------------------------------------------------------------
// JSON-RPC / stdio client for the real `trust-lsp` binary
// ---------------------------------------------------------------------------------------------

fn lsp_bin() -> String {
    std::env::var("TV_LSP_BIN").unwrap_or_else(|_| "/repo/target/debug/trust-lsp".to_string())
}

#[derive(Debug, Clone, PartialEq, Eq)]
enum Fail {
    /// no answer within the limit (server hung)
    Timeout(String),
    /// the server process closed its stdout / could not be written to
    Died(String),
}

struct Server {
    child: Child,
    stdin: Arc<Mutex<ChildStdin>>,
    rx: mpsc::Receiver<Value>,
    next_id: u64,
    broken: bool,
    /// workspace folder of this server (a real, initially empty directory; `rootUri`)
    root: std::path::PathBuf,
    /// sub-directories handed out for event histories
    next_dir: u64,
}

static SERVER_COUNTER: AtomicU64 = AtomicU64::new(0);

fn scratch_base() -> std::path::PathBuf {
    std::env::temp_dir().join("tv-c14").join(format!("p{}", std::process::id()))
}

fn write_msg(stdin: &Mutex<ChildStdin>, msg: &Value) -> std::io::Result<()> {
    let body = serde_json::to_vec(msg).unwrap();
    let mut s = stdin.lock().unwrap();
    write!(s, "Content-Length: {}\r\n\r\n", body.len())?;
    s.write_all(&body)?;
    s.flush()
}

fn read_msg(r: &mut impl BufRead) -> Option<Value> {
    let mut len: Option<usize> = None;
    loop {
        let mut line = String::new();
        if r.read_line(&mut line).ok()? == 0 {
            return None;
        }
        let t = line.trim();
        if t.is_empty() {
            if len.is_some() {
                break;
            }
            continue;
        }
        let lower = t.to_ascii_lowercase();
        if let Some(v) = lower.strip_prefix("content-length:") {
            len = v.trim().parse().ok();
        }
    }
    let mut body = vec![0u8; len?];
    r.read_exact(&mut body).ok()?;
    serde_json::from_slice(&body).ok()
}

const REQ_TIMEOUT: Duration = Duration::from_secs(10);

impl Server {
    fn spawn() -> Result<Server, String> {
        let bin = lsp_bin();
        let mut child = Command::new(&bin)
            .stdin(Stdio::piped())
            .stdout(Stdio::piped())
            .stderr(Stdio::null())
            .env("RUST_LOG", "error")
            .env("NO_COLOR", "1")
            .spawn()
            .map_err(|e| format!("cannot start {bin}: {e} (build it: cd /repo && cargo build --offline -p trust-lsp --bin trust-lsp, or set TV_LSP_BIN)"))?;
        let stdin = Arc::new(Mutex::new(child.stdin.take().unwrap()));
        let stdout = child.stdout.take().unwrap();
        let (tx, rx) = mpsc::channel();
        let wr = Arc::clone(&stdin);
        let refreshes = Arc::new(AtomicU64::new(0));
        let refreshes_rd = Arc::clone(&refreshes);
        let root = scratch_base().join(format!("s{}", SERVER_COUNTER.fetch_add(1, Ordering::Relaxed))).join("ws");
        if let Err(e) = std::fs::create_dir_all(&root) {
            let _ = child.kill();
            let _ = child.wait();
            return Err(format!("cannot create workspace directory {root:?}: {e}"));
        }
        std::thread::spawn(move || {
            let mut r = BufReader::new(stdout);
            while let Some(m) = read_msg(&mut r) {
                let has_method = m.get("method").is_some();
                let has_id = m.get("id").map(|i| !i.is_null()).unwrap_or(false);
                if has_method && has_id {
                    // server -> client request: answer so that the server never blocks on us
                    if m["method"].as_str() == Some("workspace/diagnostic/refresh") {
                        refreshes_rd.fetch_add(1, Ordering::Relaxed);
                    }
                    let result = match m["method"].as_str() {
                        Some("workspace/configuration") => {
                            let n = m["params"]["items"].as_array().map(|a| a.len()).unwrap_or(0);
                            Value::Array(vec![Value::Null; n])
                        }
                        Some("workspace/workspaceFolders") => Value::Null,
                        Some("workspace/applyEdit") => json!({"applied": false}),
                        _ => Value::Null,
                    };
                    if write_msg(&wr, &json!({"jsonrpc":"2.0","id":m["id"],"result":result})).is_err() {
                        break;
                    }
                } else if has_method {
                    // notification (logMessage, publishDiagnostics, telemetry …): not used
                } else if tx.send(m).is_err() {
                    break;
                }
            }
        });
        let root_uri = format!("file://{}", root.display());
        let mut s = Server { child, stdin, rx, next_id: 0, broken: false, root, next_dir: 0 };
        // `workspace.diagnostic.refreshSupport` switches the server to pull diagnostics, which are
        // answered synchronously (published diagnostics would be timing dependent).
        let init = s.request(
            "initialize",
            json!({
                "processId": null,
                "rootUri": root_uri,
                "workspaceFolders": [{"uri": root_uri, "name": "ws"}],
                "capabilities": {
                    "workspace": {"diagnostic": {"refreshSupport": true}},
                    "textDocument": {"diagnostic": {"dynamicRegistration": false}}
                }
            }),
        );
        match init {
            Ok(v) => {
                if v.get("capabilities").is_none() {
                    return Err(format!("initialize answered without capabilities: {v}"));
                }
                if let Some(enc) = v["capabilities"].get("positionEncoding").and_then(Value::as_str) {
                    if enc != "utf-16" {
                        return Err(format!("server chose positionEncoding {enc} although the client did not offer it"));
                    }
                }
                if v["capabilities"].get("diagnosticProvider").map(|d| d.is_null()).unwrap_or(true) {
                    return Err("server did not enable pull diagnostics".into());
                }
            }
            Err(f) => return Err(format!("initialize failed: {f:?}")),
        }
        s.notify("initialized", json!({})).map_err(|f| format!("initialized failed: {f:?}"))?;
        // the server indexes the (empty) workspace folder in the background and asks for a
        // diagnostic refresh when done: wait for it, so that no answer depends on that race
        let t0 = Instant::now();
        while refreshes.load(Ordering::Relaxed) == 0 {
            if t0.elapsed() > REQ_TIMEOUT {
                return Err("server did not finish indexing the empty workspace folder (no workspace/diagnostic/refresh within 10 s)".into());
            }
            std::thread::sleep(Duration::from_millis(2));
        }
        Ok(s)
    }

    fn notify(&mut self, method: &str, params: Value) -> Result<(), Fail> {
        write_msg(&self.stdin, &json!({"jsonrpc":"2.0","method":method,"params":params})).map_err(|e| {
            self.broken = true;
            Fail::Died(format!("write {method}: {e}"))
        })
    }

    /// One request in flight at a time. JSON-RPC errors are answers (`{"__error": code}`).
    fn request(&mut self, method: &str, params: Value) -> Result<Value, Fail> {
        self.next_id += 1;
        let id = self.next_id;
        write_msg(&self.stdin, &json!({"jsonrpc":"2.0","id":id,"method":method,"params":params})).map_err(|e| {
            self.broken = true;
            Fail::Died(format!("write {method}: {e}"))
        })?;
        let deadline = Instant::now() + REQ_TIMEOUT;
        loop {
            let left = deadline.saturating_duration_since(Instant::now());
            match self.rx.recv_timeout(left) {
                Ok(m) => {
                    if m["id"].as_u64() != Some(id) {
                        continue; // stale answer of an earlier, timed-out request
                    }
                    if let Some(e) = m.get("error") {
                        return Ok(json!({"__error": e["code"], "message": e["message"]}));
                    }
                    return Ok(m.get("result").cloned().unwrap_or(Value::Null));
                }
                Err(mpsc::RecvTimeoutError::Timeout) => {
                    self.broken = true;
                    return Err(Fail::Timeout(method.to_string()));
                }
                Err(mpsc::RecvTimeoutError::Disconnected) => {
                    self.broken = true;
                    let st = self.child.try_wait().ok().flatten().map(|s| format!("{s}")).unwrap_or_else(|| "stdout closed".into());
                    return Err(Fail::Died(format!("during {method}: {st}")));
                }
            }
        }
    }
}

impl Drop for Server {
    fn drop(&mut self) {
        let _ = self.child.kill();
        let _ = self.child.wait();
        if let Some(p) = self.root.parent() {
            let _ = std::fs::remove_dir_all(p);
        }
    }
}

/// Servers are checked out for one history at a time (par_map threads are short-lived).
struct Pool {
    idle: Mutex<Vec<Server>>,
    spawned: AtomicU64,
}

impl Pool {
    fn new() -> Pool {
        Pool { idle: Mutex::new(Vec::new()), spawned: AtomicU64::new(0) }
    }
    fn get(&self) -> Result<Server, String> {
        if let Some(s) = self.idle.lock().unwrap().pop() {
            return Ok(s);
        }
        self.spawned.fetch_add(1, Ordering::Relaxed);
        Server::spawn()
    }
    fn put(&self, s: Server) {
        if !s.broken {
            self.idle.lock().unwrap().push(s);
        }
    }
}

static URI_COUNTER: AtomicU64 = AtomicU64::new(0);

fn fresh_uri() -> String {
    let n = URI_COUNTER.fetch_add(1, Ordering::Relaxed);
    format!("file:///tmp/tv-c14/p{}/h{}.st", std::process::id(), n)
}

// ---------------------------------------------------------------------------------------------
// Observations: the four position-carrying answers of one document
// ---------------------------------------------------------------------------------------------

const REQUESTS: [&str; 5] = ["formatting", "semanticTokens", "documentSymbol", "diagnostic", "formatting-after-probe"];

/// Observability probe, sent after the four requests: one unformatted ASCII line inserted at 0:0
/// (a position every conversion agrees on). The formatter then has something to change and
/// answers with the whole document, which echoes the server's copy of comment / string lines
/// verbatim — without it a divergence inside a comment of an already formatted text would stay
/// hidden until a later edit and be blamed on that edit.
const PROBE: &str = "tvprobe  :=  1;\n";

#[derive(Clone, Debug, PartialEq)]
struct Answers {
    /// normalised results, in the order of `REQUESTS`
    r: [Value; 5],
}

/// Removes what legitimately depends on the URI or on server-side counters.
fn strip(v: &Value) -> Value {
    match v {
        Value::Object(m) => Value::Object(
            m.iter()
                .filter(|(k, _)| k.as_str() != "uri" && k.as_str() != "resultId")
                .map(|(k, x)| (k.clone(), strip(x)))
                .collect(),
        ),
        Value::Array(a) => Value::Array(a.iter().map(strip).collect()),
        _ => v.clone(),
    }
}

fn query_all(s: &mut Server, uri: &str) -> Result<Answers, Fail> {
    let td = json!({"uri": uri});
    let fmt = s.request(
        "textDocument/formatting",
        json!({"textDocument": td, "options": {"tabSize": 4, "insertSpaces": true}}),
    )?;
    let sem = s.request("textDocument/semanticTokens/full", json!({"textDocument": td}))?;
    let sym = s.request("textDocument/documentSymbol", json!({"textDocument": td}))?;
    let diag = s.request("textDocument/diagnostic", json!({"textDocument": td}))?;
    s.notify(
        "textDocument/didChange",
        json!({"textDocument": {"uri": uri, "version": 1_000_000}, "contentChanges": [
            {"range": {"start": {"line": 0, "character": 0}, "end": {"line": 0, "character": 0}}, "text": PROBE}]}),
    )?;
    let fmt2 = s.request(
        "textDocument/formatting",
        json!({"textDocument": td, "options": {"tabSize": 4, "insertSpaces": true}}),
    )?;
    Ok(Answers { r: [strip(&fmt), strip(&sem), strip(&sym), strip(&diag), strip(&fmt2)] })
}

fn open_doc(s: &mut Server, uri: &str, text: &str) -> Result<(), Fail> {
    s.notify(
        "textDocument/didOpen",
        json!({"textDocument": {"uri": uri, "languageId": "structured-text", "version": 1, "text": text}}),
    )
}

/// Closes the document and removes it from the server's project (watched-file deletion), so that
/// the next document is analysed alone (no cross-file interference between histories).
fn drop_doc(s: &mut Server, uri: &str) -> Result<(), Fail> {
    s.notify("textDocument/didClose", json!({"textDocument": {"uri": uri}}))?;
    s.notify("workspace/didChangeWatchedFiles", json!({"changes": [{"uri": uri, "type": 3}]}))
}

/// Document A: open `initial`, feed the notifications, ask. Every request is sent after the
/// notifications on the same connection, hence processed after them.
fn observe_incremental(s: &mut Server, initial: &str, history: &[Vec<Change>]) -> Result<Answers, Fail> {
    let uri = fresh_uri();
    open_doc(s, &uri, initial)?;
    for (i, note) in history.iter().enumerate() {
        let changes: Vec<Value> = note.iter().map(Change::to_lsp).collect();
        s.notify(
            "textDocument/didChange",
            json!({"textDocument": {"uri": uri, "version": 2 + i as u64}, "contentChanges": changes}),
        )?;
    }
    let a = query_all(s, &uri)?;
    drop_doc(s, &uri)?;
    Ok(a)
}

/// Document B: a fresh URI opened with `text` in one didOpen.
fn observe_fresh(s: &mut Server, text: &str) -> Result<Answers, Fail> {
    observe_incremental(s, text, &[])
}

fn clip(s: &str, n: usize) -> String {
    let mut out: String = s.chars().take(n).collect();
    if s.chars().count() > n {
        out.push('…');
    }
    out
}

// ---------------------------------------------------------------------------------------------
// Position clause: offset <-> position identity on the answers for a text
// ---------------------------------------------------------------------------------------------

struct Tok {
    start: usize,
    end: usize,
    ws: bool,
}

fn text_feature_for_line(text: &str, lines: &[Line], line: u32) -> &'static str {
    if has_lone_cr(text) {
        return "lone-cr"; // line numbering itself is in question
    }
    match lines.get(line as usize) {
        Some(l) => place_feature(text, l.start, l.end),
        None => {
            if has_lone_cr(text) {
                "lone-cr"
            } else {
                "no-such-line"
            }
        }
    }
}

fn get_pos(v: &Value) -> Option<(u32, u32)> {
    Some((v["line"].as_u64()? as u32, v["character"].as_u64()? as u32))
}

/// Returns (clause, feature, description) for every reported position that is not the UTF-16
/// position of the offset it stands for. Assumptions (checked by reading the handlers, and
/// validated on every ASCII text where all column units coincide): a semantic token stands for one
/// lexer token; a symbol range starts at a token start and ends at a token end; a formatting
/// answer consisting of one edit from 0:0 to the last line replaces the whole document; the
/// diagnostics contain the parser's errors with their message unchanged.
fn position_checks(text: &str, ans: &Answers) -> Vec<(String, String, String)> {
    let mut out: Vec<(String, String, String)> = Vec::new();
    let lines = lines_of(text);
    let toks: Vec<Tok> = lex(text)
        .iter()
        .map(|t| Tok {
            start: u32::from(t.range.start()) as usize,
            end: u32::from(t.range.end()) as usize,
            ws: t.kind == TokenKind::Whitespace,
        })
        .collect();
    let mut starts: HashMap<(u32, u32), usize> = HashMap::new();
    let mut ends: HashMap<(u32, u32), usize> = HashMap::new();
    for (i, t) in toks.iter().enumerate() {
        if t.ws || !text.is_char_boundary(t.start) || !text.is_char_boundary(t.end) {
            continue;
        }
        starts.entry(off_to_pos(text, &lines, t.start)).or_insert(i);
        ends.insert(off_to_pos(text, &lines, t.end), i);
    }

    // semantic tokens: (deltaLine, deltaStart, length, type, modifiers)*
    if let Some(data) = ans.r[1].get("data").and_then(Value::as_array) {
        let d: Vec<u32> = data.iter().map(|x| x.as_u64().unwrap_or(0) as u32).collect();
        let (mut line, mut col) = (0u32, 0u32);
        let mut start_reported = false;
        let mut len_reported = false;
        for q in d.chunks(5) {
            if q.len() < 5 {
                break;
            }
            if q[0] > 0 {
                line += q[0];
                col = q[1];
            } else {
                col += q[1];
            }
            // a reported token matches a lexer token if it starts at its UTF-16 position and its
            // length is the token's length in SOME unit; the unit is judged separately
            let cand = starts.get(&(line, col)).map(|&i| &toks[i]);
            let matched = cand.filter(|t| {
                let body = &text[t.start..t.end];
                let multi = body.contains('\n') || body.contains('\r');
                multi || q[2] == utf16_len(body) || q[2] as usize == body.len() || q[2] as usize == body.chars().count()
            });
            match matched {
                None => {
                    if !start_reported {
                        start_reported = true;
                        let f = text_feature_for_line(text, &lines, line);
                        out.push((
                            "semtok-start".into(),
                            f.into(),
                            format!("semantic token reported at {line}:{col} (length {}), but no lexer token of the text of that length starts at that UTF-16 position", q[2]),
                        ));
                    }
                }
                Some(t) => {
                    let body = &text[t.start..t.end];
                    let multi = body.contains('\n') || body.contains('\r');
                    if !multi && !len_reported && q[2] != utf16_len(body) {
                        len_reported = true;
                        let f = if body.chars().any(|c| c.len_utf16() == 2) { "astral" } else { "bmp" };
                        out.push((
                            "semtok-length".into(),
                            f.into(),
                            format!("semantic token {:?} at {line}:{col} reported with length {} but it spans {} UTF-16 code units", clip(body, 20), q[2], utf16_len(body)),
                        ));
                    }
                }
            }
        }
    }

    // document symbols (flat SymbolInformation or nested DocumentSymbol)
    fn sym_ranges(v: &Value, out: &mut Vec<(String, Value)>) {
        if let Some(a) = v.as_array() {
            for s in a {
                let name = s["name"].as_str().unwrap_or("").to_string();
                if let Some(r) = s.get("location").and_then(|l| l.get("range")) {
                    out.push((name.clone(), r.clone()));
                }
                if let Some(r) = s.get("range") {
                    out.push((name.clone(), r.clone()));
                }
                if let Some(r) = s.get("selectionRange") {
                    out.push((name.clone(), r.clone()));
                }
                if let Some(c) = s.get("children") {
                    sym_ranges(c, out);
                }
            }
        }
    }
    let mut sr = Vec::new();
    sym_ranges(&ans.r[2], &mut sr);
    for (name, r) in sr {
        let (Some(s), Some(e)) = (get_pos(&r["start"]), get_pos(&r["end"])) else { continue };
        let ok = starts.contains_key(&s) && ends.contains_key(&e);
        if !ok {
            let f = text_feature_for_line(text, &lines, if starts.contains_key(&s) { e.0 } else { s.0 });
            out.push((
                "symbol-range".into(),
                f.into(),
                format!("symbol {name:?} reported at {}:{}-{}:{}, which is not the UTF-16 position of a token start/end of the text", s.0, s.1, e.0, e.1),
            ));
            break;
        }
    }

    // formatting: one edit from 0:0 reaching the last line = whole-document replacement
    if let Some(edits) = ans.r[0].as_array() {
        if edits.len() == 1 {
            let r = &edits[0]["range"];
            if let (Some(s), Some(e)) = (get_pos(&r["start"]), get_pos(&r["end"])) {
                let last = lines.len() as u32 - 1;
                let eof = off_to_pos(text, &lines, text.len());
                // violated only if the edit stops strictly before the end of the editor's text
                if s == (0, 0) && (e.0 >= last || has_lone_cr(text)) && e < eof {
                    let f = text_feature_for_line(text, &lines, last);
                    out.push((
                        "format-end".into(),
                        f.into(),
                        format!("whole-document formatting edit ends at {}:{} but the document ends at {}:{}", e.0, e.1, eof.0, eof.1),
                    ));
                }
            }
        }
    }

    // diagnostics: parser errors are reported with their message; their range must be the
    // UTF-16 image of the parser's byte range
    if let Some(items) = ans.r[3].get("items").and_then(Value::as_array) {
        let parsed = parse(text);
        let mut by_msg: HashMap<&str, Vec<((u32, u32), (u32, u32), usize)>> = HashMap::new();
        for e in parsed.errors() {
            let st = u32::from(e.range.start()) as usize;
            let en = u32::from(e.range.end()) as usize;
            if st > text.len() || en > text.len() || !text.is_char_boundary(st) || !text.is_char_boundary(en) {
                continue;
            }
            by_msg.entry(e.message.as_str()).or_default().push((
                off_to_pos(text, &lines, st),
                off_to_pos(text, &lines, en),
                st,
            ));
        }
        for (msg, exp) in by_msg {
            let got: Vec<((u32, u32), (u32, u32))> = items
                .iter()
                .filter(|d| d["message"].as_str() == Some(msg))
                .filter_map(|d| Some((get_pos(&d["range"]["start"])?, get_pos(&d["range"]["end"])?)))
                .collect();
            if got.len() != exp.len() {
                continue; // filtered / merged by the server: no 1:1 correspondence to demand
            }
            let mut g = got.clone();
            g.sort();
            let mut x: Vec<_> = exp.iter().map(|t| (t.0, t.1)).collect();
            x.sort();
            if g != x {
                let k = (0..g.len()).find(|&i| g[i] != x[i]).unwrap_or(0);
                let bad_line = if g[k].0 != x[k].0 { x[k].0 .0 } else { x[k].1 .0 };
                let f = text_feature_for_line(text, &lines, bad_line);
                out.push((
                    "diag-range".into(),
                    f.into(),
                    format!("parse error {msg:?} reported at {}:{}-{}:{} but its byte range is {}:{}-{}:{} in UTF-16 positions", g[k].0 .0, g[k].0 .1, g[k].1 .0, g[k].1 .1, x[k].0 .0, x[k].0 .1, x[k].1 .0, x[k].1 .1),
                ));
                break;
            }
        }
    }
    out
}

// ---------------------------------------------------------------------------------------------
// Evaluation of one history on the real server
// ---------------------------------------------------------------------------------------------

/// upper bound of cached fresh answers (≈ 1.2 GB); beyond it a fresh document is re-observed
const FRESH_CACHE_MAX: usize = 20_000;

#[derive(Default)]
struct Shared {
    /// answers of a freshly opened document, per text (document B); value = answers
    fresh: Mutex<HashMap<String, Arc<Answers>>>,
    /// hashes of all texts whose fresh answers were ever computed (the cache above is bounded:
    /// one entry is ~60 KB and an unbounded cache reached 9.6 GB in the thorough tier)
    fresh_seen: Mutex<std::collections::HashSet<u64>>,
    /// memo of counterfactual replays (blame analysis)
    diverge_memo: Mutex<HashMap<String, bool>>,
    histories_compared: AtomicU64,
    event_histories: AtomicU64,
    fresh_opens: AtomicU64,
    fresh_cache_hits: AtomicU64,
    unstable: AtomicU64,
    unreproduced_failures: AtomicU64,
    /// histories that could not be evaluated even after two more attempts
    unevaluated: AtomicU64,
    first_unreproduced: Mutex<Option<String>>,
    position_texts: AtomicU64,
    position_tokens_checked: AtomicU64,
    nonempty_format: AtomicU64,
    with_diagnostics: AtomicU64,
    with_symbols: AtomicU64,
}

fn case_json(initial: &str, history: &[Vec<Change>]) -> Value {
    json!({
        "initial": initial,
        "history": history.iter().map(|n| n.iter().map(Change::to_lsp).collect::<Vec<_>>()).collect::<Vec<_>>(),
    })
}

fn describe_note(note: &[Change]) -> String {
    let parts: Vec<String> = note
        .iter()
        .map(|c| match c {
            Change::Range { sl, sc, el, ec, text } => format!("{sl}:{sc}-{el}:{ec}<-{text:?}"),
            Change::Full { text } => format!("full<-{:?}", clip(text, 24)),
        })
        .collect();
    format!("[{}]", parts.join(", "))
}

fn first_diff(a: &Answers, b: &Answers) -> (Vec<&'static str>, String) {
    let mut which = Vec::new();
    let mut detail = String::new();
    for i in 0..5 {
        if a.r[i] != b.r[i] {
            if which.is_empty() {
                detail = format!(
                    "{}: incremental document answers {} but the editor's text answers {}",
                    REQUESTS[i],
                    clip(&a.r[i].to_string(), 160),
                    clip(&b.r[i].to_string(), 160)
                );
            }
            which.push(REQUESTS[i]);
        }
    }
    (which, detail)
}

struct Eval {
    /// the editor's text after the history (None: history outside the defined protocol)
    text: Option<String>,
    violations: Vec<Violation>,
    /// a machinery problem (server cannot be started)
    machinery: Option<String>,
    /// the server failed (hang / death) but a fresh server did not: evaluate the history again
    retry: bool,
}

fn fail_violation(f: &Fail, stage: &str, kind: &str, feat: &str, initial: &str, history: &[Vec<Change>]) -> Violation {
    let (cl, what) = match f {
        Fail::Timeout(m) => ("hang", format!("no answer to {m} within {}s", REQ_TIMEOUT.as_secs())),
        Fail::Died(m) => ("server-died", format!("server process ended ({m})")),
    };
    Violation {
        signature: format!("C14/{cl}/{stage}/{kind}/{feat}"),
        what: format!("{what} while replaying {} notification(s) on {:?} (reproduced on a fresh server)", history.len(), clip(initial, 60)),
        case: case_json(initial, history),
    }
}

/// Answers of a document freshly opened with `text` (document B), cached per text. The position
/// clause runs once per distinct text.
fn fresh_answers(server: &mut Server, sh: &Shared, text: &str, viol: &mut Vec<Violation>) -> Result<Arc<Answers>, Fail> {
    if let Some(b) = sh.fresh.lock().unwrap().get(text).cloned() {
        sh.fresh_cache_hits.fetch_add(1, Ordering::Relaxed);
        return Ok(b);
    }
    let b = Arc::new(observe_fresh(server, text)?);
    sh.fresh_opens.fetch_add(1, Ordering::Relaxed);
    let first = sh.fresh_seen.lock().unwrap().insert(crate::engines::c12::hash64(text));
    {
        let mut cache = sh.fresh.lock().unwrap();
        if cache.len() < FRESH_CACHE_MAX {
            cache.insert(text.to_string(), Arc::clone(&b));
        }
    }
    if first {
        sh.position_texts.fetch_add(1, Ordering::Relaxed);
        let ntok = b.r[1].get("data").and_then(Value::as_array).map(|d| d.len() / 5).unwrap_or(0);
        sh.position_tokens_checked.fetch_add(ntok as u64, Ordering::Relaxed);
        if b.r[0].as_array().map(|e| !e.is_empty()).unwrap_or(false) {
            sh.nonempty_format.fetch_add(1, Ordering::Relaxed);
        }
        if b.r[3].get("items").and_then(Value::as_array).map(|e| !e.is_empty()).unwrap_or(false) {
            sh.with_diagnostics.fetch_add(1, Ordering::Relaxed);
        }
        if b.r[2].as_array().map(|e| !e.is_empty()).unwrap_or(false) {
            sh.with_symbols.fetch_add(1, Ordering::Relaxed);
        }
        for (clause, f, what) in position_checks(text, &b) {
            viol.push(Violation {
                signature: format!("C14/position/{clause}/{f}"),
                what: format!("{what}; text {:?}", clip(text, 80)),
                case: case_json(text, &[]),
            });
        }
    }
    Ok(b)
}

/// `true` if `notes`, replayed on a document freshly opened with `before`, give answers that
/// differ from those of a document opened with `after` (the editor's result). Memoised.
fn diverges_from(server: &mut Server, sh: &Shared, before: &str, notes: &[Vec<Change>], after: &str, viol: &mut Vec<Violation>) -> Result<bool, Fail> {
    let key = format!("{before}\u{0}{}", case_json("", notes)["history"]);
    if let Some(&d) = sh.diverge_memo.lock().unwrap().get(&key) {
        return Ok(d);
    }
    let a = observe_incremental(server, before, notes)?;
    let b = fresh_answers(server, sh, after, viol)?;
    let d = a != *b;
    sh.diverge_memo.lock().unwrap().insert(key, d);
    Ok(d)
}

/// Smallest discriminating cause of a confirmed divergence, found by counterfactual replays (run
/// only on violations). A divergence need not be observable when it happens (e.g. a "\r\n" that
/// silently became "\n" shows only after a later edit), so the culprit is searched for instead of
/// assumed to be the last change:
///  1. the culprit notification is the LAST one from which a replay on a fresh copy of the
///     editor's text at that point still diverges (starting right after it does not);
///  2. inside a batch: if the same changes sent as separate notifications do not diverge, batching
///     itself is the cause (feature `batch`); otherwise the culprit change is found as in 1;
///  3. a column past the end of a line is the cause only if the same change with the column
///     clamped by the editor does not diverge.
/// Returns (kind, feature, remark for the description).
fn blame(
    server: &mut Server,
    sh: &Shared,
    initial: &str,
    history: &[Vec<Change>],
    kind0: &str,
    feat0: &str,
    viol: &mut Vec<Violation>,
) -> (String, String, String) {
    let fallback = (kind0.to_string(), feat0.to_string(), String::new());
    // editor texts before every unit of a sequence
    fn befores_of(start: &str, units: &[Vec<Change>]) -> Option<Vec<String>> {
        let mut out = vec![start.to_string()];
        for n in units {
            let mut t = out.last().unwrap().clone();
            for c in n {
                t = ed_apply(&t, c)?;
            }
            out.push(t);
        }
        Some(out)
    }
    // largest k such that replaying units[k..] on a fresh copy of the text before unit k diverges
    fn culprit(server: &mut Server, sh: &Shared, start: &str, units: &[Vec<Change>], viol: &mut Vec<Violation>) -> Result<Option<usize>, Fail> {
        let Some(bf) = befores_of(start, units) else { return Ok(None) };
        let fin = bf.last().unwrap().clone();
        for k in (0..units.len()).rev() {
            if diverges_from(server, sh, &bf[k], &units[k..], &fin, viol)? {
                return Ok(Some(k));
            }
        }
        Ok(None)
    }
    let run = |server: &mut Server, viol: &mut Vec<Violation>| -> Result<(String, String, String), Fail> {
        let Some(bf) = befores_of(initial, history) else { return Ok(fallback.clone()) };
        let Some(k) = culprit(server, sh, initial, history, viol)? else { return Ok(fallback.clone()) };
        let note = &history[k];
        let before = &bf[k];
        let rest = &history[k + 1..];
        let fin = bf.last().unwrap();
        let mut remark = String::new();
        if k + 1 != history.len() {
            remark = format!(" (latent: the divergence stems from notification #{} {}, it only became observable now)", k + 1, describe_note(note));
        }
        let (kind, mut feat) = notification_class(before, note);
        let mut blamed_at = 0usize;
        // units: the changes of the culprit notification one by one, then the rest as it was
        let mut units: Vec<Vec<Change>> = note.iter().map(|c| vec![c.clone()]).collect();
        units.extend(rest.iter().cloned());
        let mut kind = kind;
        if note.len() > 1 {
            match culprit(server, sh, before, &units, viol)? {
                None => {
                    // a text whose line structure the server sees differently decides which
                    // changes of a batch are resolvable at all
                    feat = if has_lone_cr(before) { "lone-cr".into() } else { "batch".into() };
                    remark.push_str(" (the same changes sent as separate notifications do not diverge)");
                    return Ok((kind, feat, remark));
                }
                Some(j) if j < note.len() => {
                    let ub = befores_of(before, &units).unwrap_or_default();
                    let (k2, f2) = notification_class(&ub[j], &units[j]);
                    kind = k2;
                    feat = f2;
                    blamed_at = j;
                    remark.push_str(&format!(" (culprit change: {})", describe_note(&units[j])));
                }
                Some(_) => {}
            }
        }
        if feat.starts_with("past-eol") {
            let ub = befores_of(before, &units).unwrap_or_default();
            if let Some(t) = ub.get(blamed_at) {
                let clamped = clamp_note(t, &units[blamed_at]);
                let mut u2: Vec<Vec<Change>> = units[blamed_at..].to_vec();
                u2[0] = clamped.clone();
                if diverges_from(server, sh, t, &u2, fin, viol)? {
                    feat = notification_class(t, &clamped).1;
                }
            }
        }
        Ok((kind, feat, remark))
    };
    match run(server, viol) {
        Ok(r) => r,
        Err(_) => {
            server.broken = true;
            fallback
        }
    }
}

/// Replays one history (document A), obtains document B, compares, and runs the position clause
/// on every text seen for the first time.
fn evaluate(pool: &Pool, sh: &Shared, initial: &str, history: &[Vec<Change>]) -> Eval {
    let mut ev = evaluate_once(pool, sh, initial, history);
    for _ in 0..2 {
        if !ev.retry {
            return ev;
        }
        ev = evaluate_once(pool, sh, initial, history);
    }
    if ev.retry {
        sh.unevaluated.fetch_add(1, Ordering::Relaxed);
    }
    ev
}

fn evaluate_once(pool: &Pool, sh: &Shared, initial: &str, history: &[Vec<Change>]) -> Eval {
    let mut ev = Eval { text: None, violations: Vec::new(), machinery: None, retry: false };
    // reference editor
    let mut cur = initial.to_string();
    let mut before_last = initial.to_string();
    for note in history {
        before_last = cur.clone();
        for ch in note {
            match ed_apply(&cur, ch) {
                Some(n) => cur = n,
                None => return ev,
            }
        }
    }
    let (kind, feat) = match history.last() {
        Some(n) => notification_class(&before_last, n),
        None => ("open".to_string(), "plain".to_string()),
    };
    let mut server = match pool.get() {
        Ok(s) => s,
        Err(e) => {
            ev.machinery = Some(e);
            return ev;
        }
    };
    // a failure (hang / death) is attributed to the history only if a fresh server fails too
    macro_rules! on_fail {
        ($f:expr, $stage:expr, $retry:expr) => {{
            let f: Fail = $f;
            drop(server);
            match Server::spawn() {
                Err(e) => ev.machinery = Some(e),
                Ok(mut fresh) => {
                    let again: Result<Answers, Fail> = $retry(&mut fresh);
                    match again {
                        Err(_) => ev.violations.push(fail_violation(&f, $stage, &kind, &feat, initial, history)),
                        Ok(_) => {
                            sh.unreproduced_failures.fetch_add(1, Ordering::Relaxed);
                            sh.first_unreproduced.lock().unwrap().get_or_insert(format!("{f:?} ({} notifications)", history.len()));
                            ev.retry = true;
                        }
                    }
                }
            }
            return ev;
        }};
    }
    let a = match observe_incremental(&mut server, initial, history) {
        Ok(a) => a,
        Err(f) => on_fail!(f, "incremental", |s: &mut Server| observe_incremental(s, initial, history)),
    };
    let b: Arc<Answers> = match fresh_answers(&mut server, sh, &cur, &mut ev.violations) {
        Ok(b) => b,
        Err(f) => on_fail!(f, "open", |s: &mut Server| observe_fresh(s, &cur)),
    };
    sh.histories_compared.fetch_add(1, Ordering::Relaxed);
    ev.text = Some(cur.clone());
    if a != *b {
        // confirm on fresh URIs: both sides must answer the same again
        let a2 = match observe_incremental(&mut server, initial, history) {
            Ok(a) => a,
            Err(f) => on_fail!(f, "incremental", |s: &mut Server| observe_incremental(s, initial, history)),
        };
        let b2 = match observe_fresh(&mut server, &cur) {
            Ok(b) => b,
            Err(f) => on_fail!(f, "open", |s: &mut Server| observe_fresh(s, &cur)),
        };
        if a2 == a && b2 == *b {
            let (which, detail) = first_diff(&a, &b);
            let (kind, feat, note) = blame(&mut server, sh, initial, history, &kind, &feat, &mut ev.violations);
            ev.violations.push(Violation {
                signature: format!("C14/text/{kind}/{feat}"),
                what: format!(
                    "after notification {} applied to {:?} (editor now holds {:?}) the server's document differs from the editor's{note}: answers differ in {:?}; {detail}",
                    history.last().map(|n| describe_note(n)).unwrap_or_default(),
                    clip(&before_last, 70),
                    clip(&cur, 70),
                    which
                ),
                case: case_json(initial, history),
            });
        } else {
            sh.unstable.fetch_add(1, Ordering::Relaxed);
        }
    }
    pool.put(server);
    ev
}

// ---------------------------------------------------------------------------------------------
// Alphabet
// ---------------------------------------------------------------------------------------------

/// Initial texts: (family name, text). Small on purpose; every class of the property's quantifier.
fn initial_texts() -> Vec<(&'static str, String)> {
    vec![
        ("ascii", "PROGRAM P\nVAR x:INT; y:INT; END_VAR\nEND_PROGRAM\n".to_string()),
        ("latin1", "PROGRAM P\nVAR x:INT; (* é *) y:INT; END_VAR\nEND_PROGRAM\n".to_string()),
        ("cjk", "(* 漢字 *) PROGRAM P\nVAR x:INT; END_VAR\nEND_PROGRAM\n".to_string()),
        ("astral-comment", "PROGRAM P\nVAR x:INT; (* 😀 *) y:INT; END_VAR\nEND_PROGRAM\n".to_string()),
        ("astral-string", "PROGRAM P\nVAR s:STRING := '😀'; y:INT; END_VAR\nEND_PROGRAM\n".to_string()),
        ("crlf", "PROGRAM P\r\nVAR x:INT; y:INT; END_VAR\r\nEND_PROGRAM\r\n".to_string()),
        ("mixed", "(* é😀漢 *) PROGRAM P\r\nVAR s:STRING := 'a😀'; // é\nEND_PROGRAM (* 😀 *)".to_string()),
        ("empty", String::new()),
        ("no-trailing-newline", "PROGRAM P\nVAR x:INT; END_VAR\nEND_PROGRAM".to_string()),
        // classic-Mac line ends: LSP 3.17 lists "\r" as a line terminator (own family, own signatures)
        ("lone-cr", "PROGRAM P\rVAR x:INT; y:INT; END_VAR\rEND_PROGRAM\r".to_string()),
    ]
}

/// Texts used by full-document changes.
fn full_texts() -> Vec<String> {
    vec![
        "PROGRAM Q\nEND_PROGRAM\n".to_string(),
        "PROGRAM Q (* 😀 *)\r\nVAR z:INT; END_VAR\r\nEND_PROGRAM".to_string(),
    ]
}

#[derive(Clone, Copy, PartialEq, Eq, Debug)]
enum PosMode {
    /// every UTF-16 character boundary of the line, and one column past its end
    Full,
    /// 0, 1, around every non-ASCII character, len-1, len, len+1
    Key,
    /// right after the first non-ASCII character (+1), or column 1; and the end of the line
    Tiny,
}

#[derive(Clone, Copy, PartialEq, Eq, Debug)]
enum RangeMode {
    /// every (start <= end) pair of the position set
    AllPairs,
    /// empty ranges and pairs of neighbouring positions
    InsAdj,
}

#[derive(Clone, Debug)]
struct Alpha {
    pos: PosMode,
    window: usize,
    ranges: RangeMode,
    reps: Vec<&'static str>,
}

fn line_is_interesting(text: &str, l: &Line) -> bool {
    !text[l.start..l.end].is_ascii()
}

/// Positions (line, col), sorted, of the window of lines.
fn positions(text: &str, a: &Alpha) -> Vec<(u32, u32)> {
    let lines = lines_of(text);
    let n = lines.len();
    let first = lines.iter().position(|l| line_is_interesting(text, l)).unwrap_or(0);
    let w = a.window.min(n);
    let lo = first.min(n - w);
    let mut out: Vec<(u32, u32)> = Vec::new();
    for (li, l) in lines.iter().enumerate().skip(lo).take(w) {
        let body = &text[l.start..l.end];
        let len = utf16_len(body);
        let mut cols: Vec<u32> = Vec::new();
        match a.pos {
            PosMode::Full => {
                cols.extend(0..=len + 1);
            }
            PosMode::Key => {
                cols.extend([0, 1, len.saturating_sub(1), len, len + 1]);
                let mut u = 0u32;
                for c in body.chars() {
                    let cu = c.len_utf16() as u32;
                    if !c.is_ascii() {
                        cols.extend([u, u + cu, u + cu + 1]);
                    }
                    u += cu;
                }
            }
            PosMode::Tiny => {
                let mut u = 0u32;
                let mut found = false;
                for c in body.chars() {
                    let cu = c.len_utf16() as u32;
                    if !c.is_ascii() {
                        cols.extend([u + cu, u + cu + 1]);
                        found = true;
                        break;
                    }
                    u += cu;
                }
                if !found {
                    cols.push(1);
                }
                cols.push(len);
            }
        }
        for c in cols {
            // keep columns on a character boundary; only ONE column past the end of the line
            if c <= len + 1 && (c > len || pos_to_off(text, &lines, li as u32, c).is_some()) {
                if c > len && a.pos == PosMode::Tiny {
                    continue;
                }
                out.push((li as u32, c));
            }
        }
    }
    // end of the document, always
    let last = &lines[n - 1];
    out.push((n as u32 - 1, utf16_len(&text[last.start..last.end])));
    out.sort();
    out.dedup();
    out
}

/// Single range changes on `text`, simplest first (inserts before replacements, then by
/// replacement, then by position).
fn range_changes(text: &str, a: &Alpha) -> Vec<Change> {
    let ps = positions(text, a);
    let mut pairs: Vec<((u32, u32), (u32, u32))> = Vec::new();
    for (i, p) in ps.iter().enumerate() {
        pairs.push((*p, *p));
        match a.ranges {
            RangeMode::AllPairs => {
                for q in &ps[i + 1..] {
                    pairs.push((*p, *q));
                }
            }
            RangeMode::InsAdj => {
                if let Some(q) = ps.get(i + 1) {
                    pairs.push((*p, *q));
                }
            }
        }
    }
    let mut out = Vec::new();
    for empty_first in [true, false] {
        for rep in &a.reps {
            for (s, e) in &pairs {
                if (s == e) != empty_first {
                    continue;
                }
                if s == e && rep.is_empty() {
                    continue; // no-op
                }
                out.push(Change::Range { sl: s.0, sc: s.1, el: e.0, ec: e.1, text: rep.to_string() });
            }
        }
    }
    out
}

#[derive(Clone, Debug)]
struct Level {
    single: Alpha,
    /// alphabet of both halves of two-change notifications (None = no such notifications)
    multi: Option<Alpha>,
    /// full-text changes, alone and combined with a `multi` range change before/after
    full: bool,
}

/// All notifications enabled on `text` at one level.
fn notifications(text: &str, lvl: &Level) -> Vec<Vec<Change>> {
    let mut out: Vec<Vec<Change>> = Vec::new();
    for c in range_changes(text, &lvl.single) {
        out.push(vec![c]);
    }
    if lvl.full {
        for t in full_texts() {
            out.push(vec![Change::Full { text: t }]);
        }
    }
    if let Some(m) = &lvl.multi {
        let firsts = range_changes(text, m);
        for c1 in &firsts {
            let Some(t1) = ed_apply(text, c1) else { continue };
            for c2 in range_changes(&t1, m) {
                out.push(vec![c1.clone(), c2]);
            }
        }
        if lvl.full {
            for t in full_texts() {
                for c1 in &firsts {
                    out.push(vec![c1.clone(), Change::Full { text: t.clone() }]);
                }
                for c2 in range_changes(&t, m) {
                    out.push(vec![Change::Full { text: t.clone() }, c2]);
                }
            }
        }
    }
    out
}

#[derive(Clone, Debug, PartialEq, Eq, Hash)]
enum Ev {
    Open(usize),
    Note(Vec<Change>),
}

fn split_history(texts: &[(&'static str, String)], h: &[Ev]) -> Option<(String, Vec<Vec<Change>>)> {
    let Some(Ev::Open(i)) = h.first() else { return None };
    let notes = h[1..]
        .iter()
        .filter_map(|e| match e {
            Ev::Note(n) => Some(n.clone()),
            Ev::Open(_) => None,
        })
        .collect();
    Some((texts[*i].1.clone(), notes))
}

fn model_text(initial: &str, notes: &[Vec<Change>]) -> Option<String> {
    let mut cur = initial.to_string();
    for n in notes {
        for c in n {
            cur = ed_apply(&cur, c)?;
        }
    }
    Some(cur)
}

struct Family {
    name: &'static str,
    /// levels[d] = alphabet of the (d+1)-th notification
    levels: Vec<Level>,
}

fn alpha(pos: PosMode, window: usize, ranges: RangeMode, reps: &[&'static str]) -> Alpha {
    Alpha { pos, window, ranges, reps: reps.to_vec() }
}

const REPS_ALL: [&str; 6] = ["", "x", "é", "😀", "\n", "\r\n"];
const REPS_SMALL: [&str; 4] = ["", "x", "😀", "\n"];
const REPS_TINY: [&str; 3] = ["", "x", "😀"];

fn families(tier: Tier) -> Vec<Family> {
    let tiny = |reps: &[&'static str]| alpha(PosMode::Tiny, 2, RangeMode::InsAdj, reps);
    match tier {
        Tier::Quick => vec![
            Family {
                name: "wide",
                levels: vec![Level {
                    single: alpha(PosMode::Key, 2, RangeMode::AllPairs, &REPS_ALL),
                    multi: Some(alpha(PosMode::Tiny, 1, RangeMode::InsAdj, &REPS_TINY)),
                    full: true,
                }],
            },
            Family {
                name: "deep",
                levels: vec![
                    Level { single: tiny(&REPS_SMALL), multi: None, full: true },
                    Level { single: tiny(&REPS_TINY), multi: None, full: true },
                ],
            },
        ],
        Tier::Thorough => vec![
            Family {
                name: "wide",
                levels: vec![Level {
                    single: alpha(PosMode::Full, 3, RangeMode::AllPairs, &REPS_ALL),
                    multi: Some(alpha(PosMode::Key, 2, RangeMode::InsAdj, &REPS_SMALL)),
                    full: true,
                }],
            },
            Family {
                name: "deep",
                levels: vec![
                    Level { single: alpha(PosMode::Key, 2, RangeMode::InsAdj, &REPS_SMALL), multi: None, full: true },
                    Level { single: tiny(&REPS_SMALL), multi: None, full: true },
                    Level { single: alpha(PosMode::Tiny, 1, RangeMode::InsAdj, &REPS_TINY), multi: None, full: false },
                ],
            },
        ],
    }
}

// ---------------------------------------------------------------------------------------------
// Environment events (family "events"): the open document lives as a real file in the server's
// workspace folder and the notifications a real client interleaves with didChange are part of the
// alphabet. Only what follows from "the editor holds this text for an OPEN document" is demanded:
//  * didOpen hands the text to the client (LSP 3.17: the server must not read the document's
//    content from its URI while it is open), so no watched-file / save / rename notification may
//    change what the server analyses for it — not even when the file on disk differs or is gone;
//  * a renamed file is followed by didClose(old) + didOpen(new) as real clients send them; then
//    the editor holds the text for the NEW URI, nothing is demanded for the old one;
//  * after didClose + didOpen(other text) the editor holds the other text;
//  * other files / a second open document are part of the environment: document B is observed
//    in the SAME environment (same server, same other files), only the main document is replaced
//    by a fresh URI opened with the editor's text.
// ---------------------------------------------------------------------------------------------

/// what "another tool" writes into the main file behind the editor's back
const DISK_OTHER: &str = "PROGRAM DiskVersion\nVAR onDisk:INT; END_VAR\nEND_PROGRAM\n";
const OTHER_FILE_TEXT: &str = "FUNCTION_BLOCK TvOtherFb\nVAR_INPUT a:INT; END_VAR\nEND_FUNCTION_BLOCK\n";
const OTHER_FILE_TEXT2: &str = "FUNCTION_BLOCK TvOtherFb\nVAR_INPUT a:INT; b:INT; END_VAR\nEND_FUNCTION_BLOCK\n";
const SECOND_DOC_TEXT: &str = "FUNCTION_BLOCK TvSecondFb\nVAR k:INT; END_VAR\nEND_FUNCTION_BLOCK\n";
const SECOND_DOC_EDIT: &str = "(* edited *)\n";
const REOPEN_TEXT: &str = "PROGRAM Reopened\nVAR r:INT; (* 😀 *) q:INT; END_VAR\nEND_PROGRAM\n";

#[derive(Clone, Copy, Debug, PartialEq, Eq, Hash)]
enum EnvEv {
    /// workspace/didChangeWatchedFiles for the URI of the open document; typ 1 created, 2 changed,
    /// 3 deleted (the file is unlinked first); `rewrite`: another tool wrote DISK_OTHER before
    WatchedSelf { typ: u8, rewrite: bool },
    /// the same for another file of the workspace (written / unlinked first)
    WatchedOther { typ: u8 },
    /// the editor saves: the buffer is written to the file, textDocument/didSave
    Save { with_text: bool },
    /// another file is renamed onto the path of the open document: workspace/didRenameFiles
    RenameOnto,
    /// the file of the open document is renamed: workspace/didRenameFiles + didClose(old) +
    /// didOpen(new, same text), the rename notification first or last
    RenameAway { notify_first: bool },
    /// didClose + didOpen with another text
    Reopen,
    /// a second document of the workspace is opened (once) and edited
    SecondDoc,
}

const ALL_EVENTS: [EnvEv; 15] = [
    EnvEv::WatchedSelf { typ: 2, rewrite: false },
    EnvEv::WatchedSelf { typ: 1, rewrite: false },
    EnvEv::WatchedSelf { typ: 2, rewrite: true },
    EnvEv::WatchedSelf { typ: 1, rewrite: true },
    EnvEv::WatchedSelf { typ: 3, rewrite: false },
    EnvEv::WatchedOther { typ: 1 },
    EnvEv::WatchedOther { typ: 2 },
    EnvEv::WatchedOther { typ: 3 },
    EnvEv::Save { with_text: true },
    EnvEv::Save { with_text: false },
    EnvEv::RenameOnto,
    EnvEv::RenameAway { notify_first: true },
    EnvEv::RenameAway { notify_first: false },
    EnvEv::Reopen,
    EnvEv::SecondDoc,
];

impl EnvEv {
    fn name(self) -> &'static str {
        match self {
            EnvEv::WatchedSelf { typ: 1, rewrite: false } => "watched-created",
            EnvEv::WatchedSelf { typ: 2, rewrite: false } => "watched-changed",
            EnvEv::WatchedSelf { typ: 1, rewrite: true } => "watched-created:rewritten",
            EnvEv::WatchedSelf { typ: 2, rewrite: true } => "watched-changed:rewritten",
            EnvEv::WatchedSelf { .. } => "watched-deleted",
            EnvEv::WatchedOther { typ: 1 } => "other-created",
            EnvEv::WatchedOther { typ: 2 } => "other-changed",
            EnvEv::WatchedOther { .. } => "other-deleted",
            EnvEv::Save { with_text: true } => "save:with-text",
            EnvEv::Save { with_text: false } => "save:without-text",
            EnvEv::RenameOnto => "rename-onto",
            EnvEv::RenameAway { notify_first: true } => "rename-away:notify-first",
            EnvEv::RenameAway { notify_first: false } => "rename-away:notify-last",
            EnvEv::Reopen => "close-reopen",
            EnvEv::SecondDoc => "second-document-edited",
        }
    }
    fn from_name(n: &str) -> Option<EnvEv> {
        ALL_EVENTS.iter().copied().find(|e| e.name() == n)
    }
    /// name used in signatures (without the variant)
    fn sig_name(self) -> &'static str {
        self.name().split(':').next().unwrap_or("event")
    }
}

#[derive(Clone, Debug, PartialEq, Eq, Hash)]
enum Step {
    Note(Vec<Change>),
    Env(EnvEv),
}

/// What the editor / the file system hold (reference model of the environment).
#[derive(Clone, Debug, PartialEq, Eq)]
struct World {
    /// file name of the open main document inside the history's directory
    main: &'static str,
    /// the editor's text of the main document
    text: String,
    /// content of the main document's file (None: no such file)
    disk: Option<String>,
    other_disk: Option<String>,
    second: Option<String>,
}

impl World {
    fn start(initial: &str, file_on_disk: bool) -> World {
        World {
            main: "main.st",
            text: initial.to_string(),
            disk: file_on_disk.then(|| initial.to_string()),
            other_disk: None,
            second: None,
        }
    }
    fn key(&self) -> String {
        format!("evt\u{0}{}\u{0}{}\u{0}{:?}\u{0}{:?}\u{0}{:?}", self.main, self.text, self.disk, self.other_disk, self.second)
    }
    /// the model after one step; None: the step is outside the defined protocol
    fn step(&self, st: &Step) -> Option<World> {
        let mut w = self.clone();
        match st {
            Step::Note(n) => {
                for c in n {
                    w.text = ed_apply(&w.text, c)?;
                }
            }
            Step::Env(e) => match *e {
                EnvEv::WatchedSelf { typ: 3, .. } => w.disk = None,
                EnvEv::WatchedSelf { rewrite, .. } => {
                    if rewrite {
                        w.disk = Some(DISK_OTHER.to_string());
                    }
                }
                EnvEv::WatchedOther { typ: 1 } => w.other_disk = Some(OTHER_FILE_TEXT.to_string()),
                EnvEv::WatchedOther { typ: 2 } => w.other_disk = Some(OTHER_FILE_TEXT2.to_string()),
                EnvEv::WatchedOther { .. } => w.other_disk = None,
                EnvEv::Save { .. } => w.disk = Some(w.text.clone()),
                EnvEv::RenameOnto => w.disk = Some(DISK_OTHER.to_string()),
                EnvEv::RenameAway { .. } => w.main = if w.main == "main.st" { "moved.st" } else { "main.st" },
                EnvEv::Reopen => w.text = REOPEN_TEXT.to_string(),
                EnvEv::SecondDoc => {
                    let base = w.second.clone().unwrap_or_else(|| SECOND_DOC_TEXT.to_string());
                    w.second = Some(format!("{SECOND_DOC_EDIT}{base}"));
                }
            },
        }
        Some(w)
    }
    /// discriminating feature of an event in this world (before the event)
    fn event_feature(&self, e: EnvEv) -> &'static str {
        let disk_seen: Option<&str> = match e {
            EnvEv::WatchedSelf { typ: 3, .. } => return "open-document",
            EnvEv::WatchedSelf { rewrite: true, .. } | EnvEv::RenameOnto => Some(DISK_OTHER),
            EnvEv::WatchedSelf { .. } | EnvEv::RenameAway { .. } => self.disk.as_deref(),
            EnvEv::WatchedOther { .. } | EnvEv::SecondDoc => return "other-uri",
            EnvEv::Save { .. } => return "buffer-written-to-disk",
            EnvEv::Reopen => return "other-text",
        };
        match disk_seen {
            None => "no-file-on-disk",
            Some(d) if d == self.text => "open-buffer-equals-disk",
            Some(_) => "open-buffer-differs-from-disk",
        }
    }
}

fn worlds(initial: &str, file_on_disk: bool, steps: &[Step]) -> Option<Vec<World>> {
    let mut out = vec![World::start(initial, file_on_disk)];
    for st in steps {
        let n = out.last().unwrap().step(st)?;
        out.push(n);
    }
    Some(out)
}

enum EvtErr {
    Fail(Fail),
    Machinery(String),
}

impl From<Fail> for EvtErr {
    fn from(f: Fail) -> Self {
        EvtErr::Fail(f)
    }
}

fn fs_err<T>(r: std::io::Result<T>, what: &str) -> Result<T, EvtErr> {
    r.map_err(|e| EvtErr::Machinery(format!("scratch workspace: {what}: {e}")))
}

fn watched(s: &mut Server, uri: &str, typ: u8) -> Result<(), Fail> {
    s.notify("workspace/didChangeWatchedFiles", json!({"changes": [{"uri": uri, "type": typ}]}))
}

/// Replays an event history on the real server inside a fresh sub-directory of its workspace
/// folder and returns (answers of the main document, answers of a fresh document opened with the
/// editor's text in the same environment). Everything it created is removed again.
fn observe_world(s: &mut Server, initial: &str, file_on_disk: bool, steps: &[Step]) -> Result<(Answers, Answers), EvtErr> {
    s.next_dir += 1;
    let dir = s.root.join(format!("h{}", s.next_dir));
    fs_err(std::fs::create_dir_all(&dir), "mkdir")?;
    let path = |name: &str| dir.join(name);
    let uri = |name: &str| format!("file://{}", dir.join(name).display());
    let mut versions: HashMap<String, u64> = HashMap::new();
    let mut w = World::start(initial, file_on_disk);
    let mut second_open = false;
    let mut touched: Vec<&'static str> = vec!["main.st"];
    let res: Result<(Answers, Answers), EvtErr> = (|| {
        if file_on_disk {
            // the file exists in the workspace and is known to the server before it is opened
            fs_err(std::fs::write(path("main.st"), initial), "write main.st")?;
            watched(s, &uri("main.st"), 1)?;
        }
        open_doc(s, &uri("main.st"), initial)?;
        versions.insert(uri("main.st"), 1);
        for st in steps {
            let main_uri = uri(w.main);
            match st {
                Step::Note(n) => {
                    let v = versions.entry(main_uri.clone()).or_insert(1);
                    *v += 1;
                    let changes: Vec<Value> = n.iter().map(Change::to_lsp).collect();
                    s.notify("textDocument/didChange", json!({"textDocument": {"uri": main_uri, "version": *v}, "contentChanges": changes}))?;
                }
                Step::Env(e) => match *e {
                    EnvEv::WatchedSelf { typ: 3, .. } => {
                        let _ = std::fs::remove_file(path(w.main));
                        watched(s, &main_uri, 3)?;
                    }
                    EnvEv::WatchedSelf { typ, rewrite } => {
                        if rewrite {
                            fs_err(std::fs::write(path(w.main), DISK_OTHER), "rewrite main file")?;
                        }
                        watched(s, &main_uri, typ)?;
                    }
                    EnvEv::WatchedOther { typ } => {
                        touched.push("other.st");
                        match typ {
                            1 => fs_err(std::fs::write(path("other.st"), OTHER_FILE_TEXT), "write other.st")?,
                            2 => fs_err(std::fs::write(path("other.st"), OTHER_FILE_TEXT2), "write other.st")?,
                            _ => {
                                let _ = std::fs::remove_file(path("other.st"));
                            }
                        }
                        watched(s, &uri("other.st"), typ)?;
                    }
                    EnvEv::Save { with_text } => {
                        fs_err(std::fs::write(path(w.main), &w.text), "save main file")?;
                        let mut p = json!({"textDocument": {"uri": main_uri}});
                        if with_text {
                            p["text"] = json!(w.text);
                        }
                        s.notify("textDocument/didSave", p)?;
                    }
                    EnvEv::RenameOnto => {
                        touched.push("incoming.st");
                        fs_err(std::fs::write(path("incoming.st"), DISK_OTHER), "write incoming.st")?;
                        watched(s, &uri("incoming.st"), 1)?;
                        fs_err(std::fs::rename(path("incoming.st"), path(w.main)), "rename onto main file")?;
                        s.notify("workspace/didRenameFiles", json!({"files": [{"oldUri": uri("incoming.st"), "newUri": main_uri}]}))?;
                    }
                    EnvEv::RenameAway { notify_first } => {
                        let new_name = if w.main == "main.st" { "moved.st" } else { "main.st" };
                        touched.push(new_name);
                        if path(w.main).exists() {
                            fs_err(std::fs::rename(path(w.main), path(new_name)), "rename main file")?;
                        }
                        let rn = json!({"files": [{"oldUri": main_uri, "newUri": uri(new_name)}]});
                        if notify_first {
                            s.notify("workspace/didRenameFiles", rn.clone())?;
                        }
                        s.notify("textDocument/didClose", json!({"textDocument": {"uri": main_uri}}))?;
                        open_doc(s, &uri(new_name), &w.text)?;
                        versions.insert(uri(new_name), 1);
                        if !notify_first {
                            s.notify("workspace/didRenameFiles", rn)?;
                        }
                    }
                    EnvEv::Reopen => {
                        s.notify("textDocument/didClose", json!({"textDocument": {"uri": main_uri}}))?;
                        open_doc(s, &main_uri, REOPEN_TEXT)?;
                        versions.insert(main_uri.clone(), 1);
                    }
                    EnvEv::SecondDoc => {
                        let u = uri("second.st");
                        if !second_open {
                            touched.push("second.st");
                            open_doc(s, &u, SECOND_DOC_TEXT)?;
                            versions.insert(u.clone(), 1);
                            second_open = true;
                        }
                        let v = versions.entry(u.clone()).or_insert(1);
                        *v += 1;
                        s.notify("textDocument/didChange", json!({"textDocument": {"uri": u, "version": *v}, "contentChanges": [
                            {"range": {"start": {"line": 0, "character": 0}, "end": {"line": 0, "character": 0}}, "text": SECOND_DOC_EDIT}]}))?;
                    }
                },
            }
            w = w.step(st).ok_or_else(|| EvtErr::Machinery("event history outside the reference model".into()))?;
        }
        let main_uri = uri(w.main);
        let a = query_all(s, &main_uri)?;
        // the main document leaves the environment, document B takes its place
        s.notify("textDocument/didClose", json!({"textDocument": {"uri": main_uri}}))?;
        let _ = std::fs::remove_file(path(w.main));
        watched(s, &main_uri, 3)?;
        let fresh = uri("fresh.st");
        open_doc(s, &fresh, &w.text)?;
        let b = query_all(s, &fresh)?;
        drop_doc(s, &fresh)?;
        Ok((a, b))
    })();
    // clean-up (also after a failure, as far as the connection allows)
    if !s.broken {
        for name in touched {
            let u = uri(name);
            let _ = s.notify("textDocument/didClose", json!({"textDocument": {"uri": u}}));
            let _ = std::fs::remove_file(path(name));
            let _ = watched(s, &u, 3);
        }
    }
    let _ = std::fs::remove_dir_all(&dir);
    res
}

fn describe_steps(steps: &[Step]) -> String {
    let parts: Vec<String> = steps
        .iter()
        .map(|s| match s {
            Step::Note(n) => describe_note(n),
            Step::Env(e) => format!("<{}>", e.name()),
        })
        .collect();
    parts.join(" ")
}

fn steps_json(initial: &str, file_on_disk: bool, steps: &[Step]) -> Value {
    json!({
        "initial": initial,
        "file_on_disk": file_on_disk,
        "steps": steps.iter().map(|s| match s {
            Step::Note(n) => json!({"change": n.iter().map(Change::to_lsp).collect::<Vec<_>>()}),
            Step::Env(e) => json!({"event": e.name()}),
        }).collect::<Vec<_>>(),
    })
}

/// Event histories: replay, compare A with B (same environment), confirm on a second replay, and
/// attribute a divergence to the event whose removal heals it (or to the changes alone).
fn evaluate_events(pool: &Pool, sh: &Shared, initial: &str, file_on_disk: bool, steps: &[Step]) -> Eval {
    let mut ev = evaluate_events_once(pool, sh, initial, file_on_disk, steps);
    for _ in 0..2 {
        if !ev.retry {
            return ev;
        }
        ev = evaluate_events_once(pool, sh, initial, file_on_disk, steps);
    }
    if ev.retry {
        sh.unevaluated.fetch_add(1, Ordering::Relaxed);
    }
    ev
}

fn evaluate_events_once(pool: &Pool, sh: &Shared, initial: &str, file_on_disk: bool, steps: &[Step]) -> Eval {
    let mut ev = Eval { text: None, violations: Vec::new(), machinery: None, retry: false };
    let Some(ws) = worlds(initial, file_on_disk, steps) else { return ev };
    let last_world = ws.last().unwrap();
    let mut server = match pool.get() {
        Ok(s) => s,
        Err(e) => {
            ev.machinery = Some(e);
            return ev;
        }
    };
    let last_event = steps.iter().rev().find_map(|s| match s {
        Step::Env(e) => Some(*e),
        _ => None,
    });
    let ev_name = last_event.map(|e| e.sig_name()).unwrap_or("none");
    let observe = |server: &mut Server, ev: &mut Eval, st: &[Step]| -> Option<(Answers, Answers)> {
        match observe_world(server, initial, file_on_disk, st) {
            Ok(ab) => Some(ab),
            Err(EvtErr::Machinery(m)) => {
                ev.machinery = Some(m);
                None
            }
            Err(EvtErr::Fail(f)) => {
                // attributed to the history only if a fresh server fails as well
                match Server::spawn() {
                    Err(e) => ev.machinery = Some(e),
                    Ok(mut fresh) => match observe_world(&mut fresh, initial, file_on_disk, st) {
                        Err(EvtErr::Fail(_)) => {
                            let (cl, what) = match &f {
                                Fail::Timeout(m) => ("hang", format!("no answer to {m} within {}s", REQ_TIMEOUT.as_secs())),
                                Fail::Died(m) => ("server-died", format!("server process ended ({m})")),
                            };
                            ev.violations.push(Violation {
                                signature: format!("C14/{cl}/events/event:{ev_name}"),
                                what: format!("{what} while replaying {} on {:?} (reproduced on a fresh server)", describe_steps(st), clip(initial, 60)),
                                case: steps_json(initial, file_on_disk, st),
                            });
                        }
                        Err(EvtErr::Machinery(m)) => ev.machinery = Some(m),
                        Ok(_) => {
                            sh.unreproduced_failures.fetch_add(1, Ordering::Relaxed);
                            sh.first_unreproduced.lock().unwrap().get_or_insert(format!("{f:?} (events: {})", describe_steps(st)));
                            ev.retry = true;
                        }
                    },
                }
                None
            }
        }
    };
    let Some((a, b)) = observe(&mut server, &mut ev, steps) else { return ev };
    sh.histories_compared.fetch_add(1, Ordering::Relaxed);
    sh.event_histories.fetch_add(1, Ordering::Relaxed);
    ev.text = Some(last_world.key());
    if a != b {
        if server.broken {
            return ev;
        }
        let Some((a2, b2)) = observe(&mut server, &mut ev, steps) else { return ev };
        if a2 != a || b2 != b {
            sh.unstable.fetch_add(1, Ordering::Relaxed);
            pool.put(server);
            return ev;
        }
        let (which, detail) = first_diff(&a, &b);
        // culprit: the changes alone, or the (last) event whose removal heals the history
        let event_idx: Vec<usize> = steps.iter().enumerate().filter(|(_, s)| matches!(s, Step::Env(_))).map(|(i, _)| i).collect();
        let mut signature = None;
        let mut remark = String::new();
        if !event_idx.is_empty() {
            let without_all: Vec<Step> = steps.iter().filter(|s| matches!(s, Step::Note(_))).cloned().collect();
            let plain_diverges = match worlds(initial, file_on_disk, &without_all) {
                Some(_) => observe(&mut server, &mut ev, &without_all).map(|(x, y)| x != y).unwrap_or(false),
                None => false,
            };
            if !plain_diverges {
                let mut culprit = *event_idx.last().unwrap();
                if event_idx.len() > 1 {
                    for &i in event_idx.iter().rev() {
                        let mut st: Vec<Step> = steps.to_vec();
                        st.remove(i);
                        if worlds(initial, file_on_disk, &st).is_none() {
                            continue;
                        }
                        if let Some((x, y)) = observe(&mut server, &mut ev, &st) {
                            if x == y {
                                culprit = i;
                                break;
                            }
                        }
                    }
                }
                if let Step::Env(e) = &steps[culprit] {
                    signature = Some(format!("C14/text/event:{}/{}", e.sig_name(), ws[culprit].event_feature(*e)));
                    remark = format!(
                        "event <{}> (step {} of {}); the editor held {:?}, the file on disk {}",
                        e.name(),
                        culprit + 1,
                        steps.len(),
                        clip(&ws[culprit].text, 50),
                        match &ws[culprit + 1].disk {
                            Some(d) => format!("{:?}", clip(d, 50)),
                            None => "did not exist".to_string(),
                        }
                    );
                }
            }
        }
        let signature = signature.unwrap_or_else(|| {
            // not an environment matter: classify the last change like the other families do
            let mut before = initial.to_string();
            let mut cls = ("range".to_string(), "plain".to_string());
            for (i, st) in steps.iter().enumerate() {
                if let Step::Note(n) = st {
                    cls = notification_class(&ws[i].text, n);
                    before = ws[i].text.clone();
                }
            }
            remark = format!("no event needed: the change notifications alone diverge (last one applied to {:?})", clip(&before, 50));
            format!("C14/text/{}/{}", cls.0, cls.1)
        });
        ev.violations.push(Violation {
            signature,
            what: format!(
                "after {} on {:?} the editor holds {:?} for the open document but the server answers as for another text: {remark}; answers differ in {:?}; {detail}",
                describe_steps(steps),
                clip(initial, 50),
                clip(&last_world.text, 60),
                which
            ),
            case: steps_json(initial, file_on_disk, steps),
        });
    }
    pool.put(server);
    ev
}

/// Small change alphabet of the event family (positions as in `PosMode::Tiny`).
fn event_changes(text: &str, n: usize) -> Vec<Vec<Change>> {
    let a = alpha(PosMode::Tiny, 2, RangeMode::InsAdj, &["x"]);
    let ps = positions(text, &a);
    let ins = |p: (u32, u32), t: &str| vec![Change::Range { sl: p.0, sc: p.1, el: p.0, ec: p.1, text: t.to_string() }];
    let mut out: Vec<Vec<Change>> = Vec::new();
    let first = ps[0];
    let last = *ps.last().unwrap();
    out.push(ins(first, "x"));
    out.push(ins(last, "\n"));
    if ps.len() > 1 {
        let q = ps[1];
        out.push(vec![Change::Range { sl: first.0, sc: first.1, el: q.0, ec: q.1, text: String::new() }]);
    }
    out.push(ins(ps[ps.len() / 2], "😀"));
    out.push(vec![Change::Full { text: full_texts()[0].clone() }]);
    out.push(ins(first, "\r\n"));
    out.push(ins(last, "x"));
    out.dedup();
    out.truncate(n);
    out
}

struct EventCfg {
    /// indices into `initial_texts()` and whether the file exists on disk when opened
    roots: Vec<(usize, bool)>,
    max_changes: usize,
    max_events: usize,
    /// bound on changes + events together
    max_steps: usize,
    changes_per_state: usize,
}

fn event_cfg(tier: Tier) -> EventCfg {
    match tier {
        // ascii, astral-comment with a file; ascii without a file
        Tier::Quick => EventCfg { roots: vec![(0, true), (3, true), (0, false)], max_changes: 2, max_events: 1, max_steps: 3, changes_per_state: 4 },
        // + crlf, mixed, empty with a file; mixed without; two events (any order) with one change
        Tier::Thorough => EventCfg {
            roots: vec![(0, true), (3, true), (5, true), (6, true), (7, true), (0, false), (6, false)],
            max_changes: 2,
            max_events: 2,
            max_steps: 3,
            changes_per_state: 6,
        },
    }
}

// ---------------------------------------------------------------------------------------------
// Engine entry points
// ---------------------------------------------------------------------------------------------

pub fn run(ctx: &Ctx) -> EngineResult {
    quiet_panics();
    let mut rep = Report::new("model_checking");
    if !std::path::Path::new(&lsp_bin()).exists() {
        return machinery(format!("language server binary {} not found (build: cd /repo && cargo build --offline -p trust-lsp --bin trust-lsp, or set TV_LSP_BIN)", lsp_bin()));
    }
    let budget = ctx.tier.pick(38u64, 840u64);
    let t0 = Instant::now();
    let texts = initial_texts();
    let pool = Pool::new();
    let sh = Shared::default();
    let mach: Mutex<Option<String>> = Mutex::new(None);

    // calibration: the same text opened under two URIs must give the same answers, else the
    // comparison A/B is unsound (URI or timing dependence) — machinery failure, not a verdict
    {
        let mut s = Server::spawn().map_err(Machinery)?;
        for (name, t) in &texts {
            let a = observe_fresh(&mut s, t).map_err(|f| Machinery(format!("calibration on {name}: {f:?}")))?;
            let b = observe_fresh(&mut s, t).map_err(|f| Machinery(format!("calibration on {name}: {f:?}")))?;
            if a != b {
                let (w, d) = first_diff(&a, &b);
                return machinery(format!("calibration: the same text ({name}) opened under two URIs answers differently in {w:?}: {d}"));
            }
        }
        pool.put(s);
    }

    // measured alphabet sizes at the first level of every family (per initial text)
    let mut sizes = Vec::new();
    for fam in families(ctx.tier) {
        for (name, t) in &texts {
            let l = &fam.levels[0];
            sizes.push(json!({
                "family": fam.name,
                "text": name,
                "positions": positions(t, &l.single).len(),
                "single_range_changes": range_changes(t, &l.single).len(),
                "notifications": notifications(t, l).len(),
            }));
        }
    }
    rep.set("alphabet_sizes_level1", json!(sizes));
    let mut states = 0u64;
    let mut transitions = 0u64;
    let mut exhaustive = true;
    let mut all_violations: Vec<Violation> = Vec::new();
    let mut depth_done: Vec<(String, usize)> = Vec::new();
    for fam in families(ctx.tier) {
        // wall budget: the wide family up to 45%, the events family (run after the loop) up to
        // 75% , the deep family gets the rest
        if fam.name == "deep" {
            run_events(ctx, &mut rep, &texts, &pool, &sh, &mach, t0 + Duration::from_secs(budget * 75 / 100), &mut states, &mut transitions, &mut exhaustive, &mut all_violations, &mut depth_done)?;
        }
        let deadline = t0 + Duration::from_secs(if fam.name == "wide" { budget * 45 / 100 } else { budget });
        let levels = &fam.levels;
        let enabled = |h: &[Ev]| -> Vec<Ev> {
            if h.is_empty() {
                return (0..texts.len()).map(Ev::Open).collect();
            }
            let Some(lvl) = levels.get(h.len() - 1) else { return Vec::new() };
            let Some((init, notes)) = split_history(&texts, h) else { return Vec::new() };
            let Some(cur) = model_text(&init, &notes) else { return Vec::new() };
            notifications(&cur, lvl).into_iter().map(Ev::Note).collect()
        };
        let eval = |h: &[Ev]| -> x2::StepResult<String> {
            let Some((init, notes)) = split_history(&texts, h) else {
                return x2::StepResult { key: Some("\u{0}root".to_string()), violations: Vec::new() };
            };
            let ev = evaluate(&pool, &sh, &init, &notes);
            if let Some(m) = ev.machinery {
                mach.lock().unwrap().get_or_insert(m);
            }
            // a diverged / failed state is not expanded: its successors would all be blamed on
            // the same notification
            let blocked = ev.violations.iter().any(|v| !v.signature.starts_with("C14/position/"));
            x2::StepResult { key: if blocked { None } else { ev.text }, violations: ev.violations }
        };
        let st = x2::bfs(1 + levels.len(), ctx.threads, 2 << 20, Some(deadline), &enabled, &eval);
        if let Some(m) = mach.lock().unwrap().take() {
            return machinery(m);
        }
        eprintln!(
            "[C14] family {}: states {} transitions {} depth {} frontier {:?} capped {} at {:.1}s",
            fam.name, st.states, st.transitions, st.depth_completed, st.frontier_sizes, st.capped, ctx.elapsed()
        );
        states += st.states;
        transitions += st.transitions;
        depth_done.push((fam.name.to_string(), st.depth_completed.saturating_sub(1)));
        if st.capped {
            exhaustive = false;
            rep.cap(format!("family {}: wall cap reached, depth completed {}", fam.name, st.depth_completed.saturating_sub(1)));
        }
        for h in st.sample_histories.iter().take(3) {
            if let Some((init, notes)) = split_history(&texts, h) {
                rep.sample(json!({"family": fam.name, "initial": clip(&init, 60), "history": notes.iter().map(|n| describe_note(n)).collect::<Vec<_>>()}));
            }
        }
        all_violations.extend(st.violations);
        rep.set(&format!("frontier_sizes_{}", fam.name), json!(st.frontier_sizes));
    }
    // keep the simplest case per signature: fewest notifications, fewest changes, shortest texts
    all_violations.sort_by_key(|v| {
        if let Some(st) = v.case["steps"].as_array() {
            return (st.len(), st.len(), v.case.to_string().len());
        }
        let h = v.case["history"].as_array().cloned().unwrap_or_default();
        let changes: usize = h.iter().map(|n| n.as_array().map(|a| a.len()).unwrap_or(0)).sum();
        (h.len(), changes, v.case.to_string().len())
    });
    rep.set("histories_diverged", all_violations.iter().filter(|v| v.signature.starts_with("C14/text/")).count() as u64);
    rep.set("position_violations_reported", all_violations.iter().filter(|v| v.signature.starts_with("C14/position/")).count() as u64);
    rep.violations_from(all_violations);
    let compared = sh.histories_compared.load(Ordering::Relaxed);
    if compared < 100 {
        return machinery(format!("only {compared} histories were compared: exploration vacuous"));
    }
    let g = |a: &AtomicU64| a.load(Ordering::Relaxed);
    if g(&sh.nonempty_format) == 0 || g(&sh.with_symbols) == 0 || g(&sh.position_tokens_checked) == 0 {
        return machinery("the server returned no formatting edit / no symbol / no semantic token on any text: observation vacuous");
    }
    rep.set("states", states);
    rep.set("transitions", transitions);
    rep.set("traces_validated_against_impl", compared);
    rep.set("depth_completed", json!(depth_done.iter().map(|(n, d)| json!({"family": n, "notifications": d})).collect::<Vec<_>>()));
    rep.set("event_histories_compared", g(&sh.event_histories));
    rep.set("initial_texts", texts.len() as u64);
    rep.set("distinct_editor_texts", g(&sh.position_texts));
    rep.set("fresh_document_opens", g(&sh.fresh_opens));
    rep.set("fresh_document_cache_hits", g(&sh.fresh_cache_hits));
    rep.set("texts_with_formatting_edit", g(&sh.nonempty_format));
    rep.set("texts_with_symbols", g(&sh.with_symbols));
    rep.set("texts_with_diagnostics", g(&sh.with_diagnostics));
    rep.set("semantic_tokens_position_checked", g(&sh.position_tokens_checked));
    rep.set("unstable_mismatches_discarded", g(&sh.unstable));
    rep.set("unreproduced_server_failures", g(&sh.unreproduced_failures));
    if let Some(m) = sh.first_unreproduced.lock().unwrap().clone() {
        rep.set("first_unreproduced_server_failure", m);
    }
    rep.set("histories_not_evaluated", g(&sh.unevaluated));
    if g(&sh.unevaluated) > 0 {
        exhaustive = false;
        rep.cap(format!("{} histories could not be evaluated (server failures that a fresh server did not reproduce, 3 attempts)", g(&sh.unevaluated)));
    }
    rep.set("servers_spawned", pool.spawned.load(Ordering::Relaxed) + 1);
    rep.set("server_binary", lsp_bin());
    rep.set("exhaustive", exhaustive);
    if g(&sh.unstable) > 0 {
        rep.cap(format!("{} mismatches did not reproduce on a second replay and were discarded", g(&sh.unstable)));
    }
    rep.assume("a request sent after a notification on the same connection is answered from the state after that notification (tower-lsp polls handlers in arrival order; didChange updates the document before its first await)");
    rep.assume("states with equal editor text and equal answers are merged; a state whose answers already diverged is not expanded");
    rep.assume("position clause: a semantic token stands for one lexer token, a symbol range runs from a token start to a token end, a single formatting edit from 0:0 to the last line replaces the whole document");
    rep.assume("events family: other files / a second open document belong to the environment, document B is observed on the same server in the same environment; a renamed file is followed by didClose(old)+didOpen(new) as real clients send them");
    rep.assume("positions past the last line, inside a surrogate pair, and reversed ranges are not sent (undefined in LSP 3.17); a column past the end of a line is sent (defined: clamped)");
    drop(pool);
    let _ = std::fs::remove_dir_all(scratch_base());
    Ok(rep)
}

#[derive(Clone, Debug, PartialEq, Eq, Hash)]
enum EvE {
    Root(usize, bool),
    St(Step),
}

fn split_event_history(texts: &[(&'static str, String)], h: &[EvE]) -> Option<(String, bool, Vec<Step>)> {
    let Some(EvE::Root(i, disk)) = h.first() else { return None };
    let steps = h[1..]
        .iter()
        .filter_map(|e| match e {
            EvE::St(s) => Some(s.clone()),
            EvE::Root(..) => None,
        })
        .collect();
    Some((texts[*i].1.clone(), *disk, steps))
}

/// Family "events": change notifications interleaved with environment events at every position.
#[allow(clippy::too_many_arguments)]
fn run_events(
    ctx: &Ctx,
    rep: &mut Report,
    texts: &[(&'static str, String)],
    pool: &Pool,
    sh: &Shared,
    mach: &Mutex<Option<String>>,
    deadline: Instant,
    states: &mut u64,
    transitions: &mut u64,
    exhaustive: &mut bool,
    all_violations: &mut Vec<Violation>,
    depth_done: &mut Vec<(String, usize)>,
) -> Result<(), Machinery> {
    let cfg = event_cfg(ctx.tier);
    let enabled = |h: &[EvE]| -> Vec<EvE> {
        if h.is_empty() {
            return cfg.roots.iter().map(|(i, d)| EvE::Root(*i, *d)).collect();
        }
        let Some((init, disk, steps)) = split_event_history(texts, h) else { return Vec::new() };
        let Some(ws) = worlds(&init, disk, &steps) else { return Vec::new() };
        let w = ws.last().unwrap();
        let n_changes = steps.iter().filter(|s| matches!(s, Step::Note(_))).count();
        let n_events = steps.len() - n_changes;
        let mut out = Vec::new();
        if steps.len() >= cfg.max_steps {
            return out;
        }
        if n_events < cfg.max_events {
            out.extend(ALL_EVENTS.iter().map(|e| EvE::St(Step::Env(*e))));
        }
        if n_changes < cfg.max_changes {
            out.extend(event_changes(&w.text, cfg.changes_per_state).into_iter().map(|n| EvE::St(Step::Note(n))));
        }
        out
    };
    let eval = |h: &[EvE]| -> x2::StepResult<String> {
        let Some((init, disk, steps)) = split_event_history(texts, h) else {
            return x2::StepResult { key: Some("\u{0}root".to_string()), violations: Vec::new() };
        };
        let ev = evaluate_events(pool, sh, &init, disk, &steps);
        if let Some(m) = ev.machinery {
            mach.lock().unwrap().get_or_insert(m);
        }
        // the key also counts the changes/events still allowed, so that merged states have the
        // same futures
        let n_changes = steps.iter().filter(|s| matches!(s, Step::Note(_))).count();
        let key = ev.text.map(|k| format!("{k}\u{0}{n_changes}\u{0}{}", steps.len() - n_changes));
        x2::StepResult { key: if ev.violations.is_empty() { key } else { None }, violations: ev.violations }
    };
    let max_depth = 1 + cfg.max_steps.min(cfg.max_changes + cfg.max_events);
    let st = x2::bfs(max_depth, ctx.threads, 2 << 20, Some(deadline), &enabled, &eval);
    if let Some(m) = mach.lock().unwrap().take() {
        return Err(Machinery(m));
    }
    eprintln!(
        "[C14] family events: states {} transitions {} depth {} frontier {:?} capped {} at {:.1}s",
        st.states, st.transitions, st.depth_completed, st.frontier_sizes, st.capped, ctx.elapsed()
    );
    if sh.event_histories.load(Ordering::Relaxed) < 20 {
        return Err(Machinery(format!("events family: only {} histories compared: vacuous", sh.event_histories.load(Ordering::Relaxed))));
    }
    *states += st.states;
    *transitions += st.transitions;
    depth_done.push(("events".to_string(), st.depth_completed.saturating_sub(1)));
    if st.capped {
        *exhaustive = false;
        rep.cap(format!("family events: wall cap reached, depth completed {}", st.depth_completed.saturating_sub(1)));
    }
    for h in st.sample_histories.iter().take(2) {
        if let Some((init, disk, steps)) = split_event_history(texts, h) {
            rep.sample(json!({"family": "events", "initial": clip(&init, 60), "file_on_disk": disk, "steps": describe_steps(&steps)}));
        }
    }
    all_violations.extend(st.violations);
    rep.set("frontier_sizes_events", json!(st.frontier_sizes));
    rep.set("events_alphabet", json!(ALL_EVENTS.iter().map(|e| e.name()).collect::<Vec<_>>()));
    rep.set("events_bounds", json!({"max_changes": cfg.max_changes, "max_events": cfg.max_events, "max_steps": cfg.max_steps, "changes_per_state": cfg.changes_per_state, "roots": cfg.roots.len()}));
    Ok(())
}

/// Re-executes one recorded case `{"initial": text, "history": [[contentChange,…],…]}` on a
/// freshly started server.
pub fn check_case(case: &Value) -> Vec<Violation> {
    let initial = case["initial"].as_str().unwrap_or("").to_string();
    if let Some(st) = case["steps"].as_array() {
        let mut steps = Vec::new();
        for s in st {
            if let Some(name) = s["event"].as_str() {
                match EnvEv::from_name(name) {
                    Some(e) => steps.push(Step::Env(e)),
                    None => return Vec::new(),
                }
            } else {
                let mut note = Vec::new();
                for c in s["change"].as_array().cloned().unwrap_or_default() {
                    match Change::from_lsp(&c) {
                        Some(c) => note.push(c),
                        None => return Vec::new(),
                    }
                }
                steps.push(Step::Note(note));
            }
        }
        let pool = Pool::new();
        let sh = Shared::default();
        let ev = evaluate_events(&pool, &sh, &initial, case["file_on_disk"].as_bool().unwrap_or(true), &steps);
        if let Some(m) = ev.machinery {
            eprintln!("C14 replay: {m}");
        }
        drop(pool);
        let _ = std::fs::remove_dir_all(scratch_base());
        return ev.violations;
    }
    let mut history: Vec<Vec<Change>> = Vec::new();
    for n in case["history"].as_array().cloned().unwrap_or_default() {
        let mut note = Vec::new();
        for c in n.as_array().cloned().unwrap_or_default() {
            match Change::from_lsp(&c) {
                Some(c) => note.push(c),
                None => return Vec::new(),
            }
        }
        history.push(note);
    }
    let pool = Pool::new();
    let sh = Shared::default();
    let ev = evaluate(&pool, &sh, &initial, &history);
    if let Some(m) = ev.machinery {
        eprintln!("C14 replay: {m}");
    }
    drop(pool);
    let _ = std::fs::remove_dir_all(scratch_base());
    ev.violations
}

pub fn workers() -> Vec<(&'static str, WorkerFn)> {
    Vec::new()
}
