//! C08 — a fault halts the resource and, under safe_halt, forces every safe-state output
//! (core X4: fault-point enumeration; every case is executed on the real `trust_runtime::Runtime`).
//!
//! Enumerated (see `enumerate`, `runner_cases`): fault point (8 fault kinds; statement position x
//! cycle x flavour for program faults) x fault policy x watchdog action x safe-state map x driver
//! set, plus a slice over observers x image layout x restart mode x an unappliable (wildcard) map
//! entry, plus a slice over the relation of the output image to the safe state at fault time
//! (opposite everywhere else; already-safe / partially-safe set by the programs in the faulting
//! cycle, by `io_mut().write` or by a queued debug I/O write) x the fault kinds after which a
//! driver can hold an older image than the runtime (publish error of driver 1 of 2, faults that
//! precede the next publish, watchdog_timeout()/simulation_fault() between cycles); and a small family that runs the real resource thread (`ResourceRunner::spawn`) so that
//! the scheduler's own reaction (real watchdog overrun, scripted simulation fault) is covered.
//!
//! Oracle (exactly the clauses of the statement, see `check_rt` / `check_safe` / `check_runner`):
//!   latch     after the faulting call returned, `faulted()` is true;
//!   refusal   every later `execute_cycle()` returns `ResourceFaulted`, leaves storage and the
//!             process images byte-identical (every statement of the skeleton bumps a counter, so
//!             "identical dump" == "no program statement executed"), and keeps the latch; a driver
//!             that is handed an image during a refused request must still be handed the safe values
//!             (driver calls during refused requests are otherwise NOT forbidden: the statement
//!             only forbids program statements);
//!   restart   `restart()` ends the refusal; a second fault after it is treated like the first;
//!   safe      if the policy that governs the fault kind demands it (fault policy safe_halt for
//!             every kind but the watchdog; watchdog action halt/safe_halt for the watchdog; this
//!             is the intersection of the two readings of the statement's parenthesis) every
//!             configured (address,value) is readable from `io()` and from the last image EACH
//!             driver was handed (a driver that returns Err counts as handed), at the moment the
//!             faulting call returned;
//!   order     no driver is handed the safe image after the fault was already published on the
//!             runtime's own report channels (Fault runtime event / metrics fault counter; in the
//!             runner family: resource state Faulted).
//!
//! Signatures: `C08/latch/<kind>`; `C08/safe-image|safe-delivery/<entry point>/none-applied|
//! none-delivered` (nothing of the map there), `.../missing:<shapes>` (part of the map there),
//! `.../after-failing-driver`, `.../unappliable-entry-*` (a configuration feature explains it),
//! `.../second-fault/<entry point>`, `.../image-already-safe|image-partially-safe/<entry point>`
//! (fails only in that image-relation stratum); `C08/order/...`; `C08/refusal/<clause>` and `C08/restart/...`
//! carry no fault kind (the gate is common); the first refusal anomaly ends a case.
//!
//! Images are decoded with the subject's own pure `IoInterface::read` (byte order of the process
//! image is C07's business, not C08's).  Left out of the alphabet (expected behaviour not derivable
//! from the statement): hierarchical addresses (`%QX1.2.3`), forced I/O, `clear_fault()`, the
//! `IoDriverErrorPolicy` mapping inside the modbus/ethercat drivers (needs a network peer; here a
//! driver error *is* a driver that returns `Err`, i.e. policy `fault`), fault policy / watchdog
//! action `restart` in the runner family (the thread restarts and runs on).

use crate::fw::*;
use crate::iso::WorkerFn;
use crate::par::par_map;
use serde_json::{json, Value as J};
use std::collections::{BTreeMap, HashSet};
use std::sync::atomic::{AtomicU64, Ordering};
use std::sync::{Arc, Mutex};
use std::time::{Duration as StdDuration, Instant};
use trust_runtime::config::IoConfig;
use trust_runtime::debug::{DebugControl, RuntimeEvent};
use trust_runtime::error::RuntimeError;
use trust_runtime::harness::TestHarness;
use trust_runtime::io::{IoAddress, IoDriver, IoDriverRegistry, IoInterface, IoSafeState};
use trust_runtime::metrics::RuntimeMetrics;
use trust_runtime::retain::RetainStore;
use trust_runtime::scheduler::{Clock, ResourceControl, ResourceRunner, ResourceState, StartGate};
use trust_runtime::simulation::{
    SimulationConfig, SimulationController, SimulationDisturbance, SimulationDisturbanceKind,
};
use trust_runtime::value::{Duration, Value};
use trust_runtime::watchdog::{FaultPolicy, WatchdogAction, WatchdogPolicy};
use trust_runtime::{RestartMode, RetainSnapshot, Runtime};

// ------------------------------------------------------------------------------------------
// alphabet
// ------------------------------------------------------------------------------------------

struct Shape {
    addr: &'static str,
    /// short tag used in signatures
    tag: &'static str,
    /// value text as written in io.toml
    safe_text: &'static str,
    safe: u64,
    /// what the program writes (and what the image is pre-loaded with)
    opposite: u64,
    /// which program owns the bound variable
    prog: char,
    decl: &'static str,
    assign: &'static str,
    /// assignment of the safe value itself (image relation "already-safe" / "partially-safe")
    assign_safe: &'static str,
}

const SHAPES: [Shape; 6] = [
    Shape { addr: "%QX0.0", tag: "X", safe_text: "TRUE", safe: 1, opposite: 0, prog: 'A', decl: "q0 AT %QX0.0 : BOOL;", assign: "q0 := FALSE;", assign_safe: "q0 := TRUE;" },
    Shape { addr: "%QX0.7", tag: "X", safe_text: "FALSE", safe: 0, opposite: 1, prog: 'B', decl: "q7 AT %QX0.7 : BOOL;", assign: "q7 := TRUE;", assign_safe: "q7 := FALSE;" },
    Shape { addr: "%QB1", tag: "B", safe_text: "0xA5", safe: 0xA5, opposite: 0x5A, prog: 'A', decl: "qb AT %QB1 : BYTE;", assign: "qb := BYTE#16#5A;", assign_safe: "qb := BYTE#16#A5;" },
    Shape { addr: "%QW2", tag: "W", safe_text: "0xA55A", safe: 0xA55A, opposite: 0x5AA5, prog: 'B', decl: "qw AT %QW2 : WORD;", assign: "qw := WORD#16#5AA5;", assign_safe: "qw := WORD#16#A55A;" },
    Shape { addr: "%QD4", tag: "D", safe_text: "0xDEADBEEF", safe: 0xDEAD_BEEF, opposite: 0x2152_4110, prog: 'C', decl: "qd AT %QD4 : DWORD;", assign: "qd := DWORD#16#21524110;", assign_safe: "qd := DWORD#16#DEADBEEF;" },
    Shape { addr: "%QL8", tag: "L", safe_text: "0xFEDCBA9876543210", safe: 0xFEDC_BA98_7654_3210, opposite: 0x0123_4567_89AB_CDEF, prog: 'C', decl: "ql AT %QL8 : LWORD;", assign: "ql := LWORD#16#0123456789ABCDEF;", assign_safe: "ql := lsafe;" },
];
const FULL_MASK: u8 = 0b11_1111;
/// an entry the config loader accepts but that can never be written (wildcard address)
const BAD_ENTRY: (&str, &str) = ("%QX*", "TRUE");

fn shape_value(i: usize, v: u64) -> Value {
    match i {
        0 | 1 => Value::Bool(v != 0),
        2 => Value::Byte(v as u8),
        3 => Value::Word(v as u16),
        4 => Value::DWord(v as u32),
        _ => Value::LWord(v),
    }
}

/// statement positions of the skeleton
const SITES: [&str; 20] = [
    "A.first", "A.mid", "A.last", "B.first", "B.mid", "B.last", "C.first", "C.mid", "C.last",
    "F@A", "F@B", "F@C", "FB@A", "FB@B", "FB@C", "F@FB@A", "F@FB@B", "F@FB@C", "FB@TASK",
    "F@FB@TASK",
];
const FLAVORS: [&str; 3] = ["div0", "oob", "nullref"];
const POLICIES: [&str; 3] = ["halt", "safe_halt", "restart"];
const BAD_POS: [&str; 3] = ["none", "first", "last"];

fn fault_stmt(flavor: &str) -> &'static str {
    match flavor {
        "div0" => "dz := 1 / zero;",
        "oob" => "arr[big] := 1;",
        _ => "p^ := 1;",
    }
}

/// The skeleton: two tasks (TA prio 0 -> PA, TB prio 1 -> PB and the task-bound FB instance
/// PA.tfb) and one un-tasked program PC; every program calls FUNCTION F and an FB1 instance, FB1
/// calls F again (nested).  `cyc` is latched from %IW0, which the logging driver fills with its
/// read-call count, so the program itself knows the cycle number.  Every statement bumps a counter.
///
/// `safe_in`: `(cycle, shape mask)` — in that cycle the programs write the SAFE value to the bound
/// outputs of the mask instead of the opposite one (image relation already-/partially-safe).
pub fn program_text(fault: Option<(&str, &str, u32)>, bind: bool, safe_in: Option<(u32, u8)>) -> String {
    let mut ins: BTreeMap<&str, String> = BTreeMap::new();
    if let Some((site, flavor, c)) = fault {
        let stmt = fault_stmt(flavor);
        let (slot, guard) = match site {
            "F@A" => ("F", format!("cyc = {c} AND caller = 1")),
            "F@B" => ("F", format!("cyc = {c} AND caller = 2")),
            "F@C" => ("F", format!("cyc = {c} AND caller = 3")),
            "F@FB@A" => ("F", format!("cyc = {c} AND caller = 11")),
            "F@FB@B" => ("F", format!("cyc = {c} AND caller = 12")),
            "F@FB@C" => ("F", format!("cyc = {c} AND caller = 13")),
            "F@FB@TASK" => ("F", format!("cyc = {c} AND caller = 10")),
            "FB@A" => ("FB", format!("cyc = {c} AND caller = 1")),
            "FB@B" => ("FB", format!("cyc = {c} AND caller = 2")),
            "FB@C" => ("FB", format!("cyc = {c} AND caller = 3")),
            "FB@TASK" => ("FB", format!("cyc = {c} AND caller = 0")),
            other => (other, format!("cyc = {c}")),
        };
        ins.insert(slot, format!("IF {guard} THEN {stmt} END_IF;\n"));
    }
    let at = |slot: &str| ins.get(slot).cloned().unwrap_or_default();
    let locals = "  dz : INT := 0;\n  arr : ARRAY[0..3] OF INT;\n  p : REF_TO INT;\n";
    // `lsafe` holds the LWORD safe value (no literal above 16#7FFF_FFFF_FFFF_FFFF is accepted by the
    // compiler); the harness stores it into the global before the first cycle
    let ext = "VAR_EXTERNAL cyc : INT; zero : INT; big : INT; nf : INT; rc : INT; lsafe : LWORD; END_VAR\n";
    let mut s = String::new();
    s.push_str("FUNCTION F : INT\nVAR_INPUT caller : INT; END_VAR\n");
    s.push_str(ext);
    s.push_str(&format!("VAR\n{locals}END_VAR\nnf := nf + 1;\n{}F := caller + 1;\nEND_FUNCTION\n\n", at("F")));
    s.push_str("FUNCTION_BLOCK FB1\nVAR_INPUT caller : INT; END_VAR\n");
    s.push_str(ext);
    s.push_str(&format!(
        "VAR\n  calls : INT := 0;\n  r : INT := 0;\n{locals}END_VAR\ncalls := calls + 1;\nr := F(caller + 10);\n{}calls := calls + 100;\nEND_FUNCTION_BLOCK\n\n",
        at("FB")
    ));
    for (p, k) in [('A', 1), ('B', 2), ('C', 3)] {
        s.push_str(&format!("PROGRAM Prog{p}\n{ext}VAR\n  n : INT := 0;\n  r : INT := 0;\n  fb : FB1;\n"));
        if p == 'A' {
            s.push_str("  tfb : FB1;\n");
        }
        s.push_str(locals);
        let mut assigns = String::new();
        for (i, sh) in SHAPES.iter().enumerate().filter(|(_, sh)| sh.prog == p) {
            if bind {
                s.push_str(&format!("  {}\n", sh.decl));
                match safe_in {
                    Some((c, m)) if m & (1 << i) != 0 => {
                        assigns.push_str(&format!("IF cyc = {c} THEN {} ELSE {} END_IF;", sh.assign_safe, sh.assign));
                    }
                    _ => assigns.push_str(sh.assign),
                }
                assigns.push('\n');
            }
        }
        s.push_str("END_VAR\n");
        s.push_str(&at(&format!("{p}.first")));
        s.push_str("n := n + 1;\n");
        if p == 'A' {
            s.push_str("rc := rc + 1;\n");
        }
        s.push_str(&format!("r := F({k});\nfb(caller := {k});\n"));
        s.push_str(&at(&format!("{p}.mid")));
        s.push_str(&assigns);
        s.push_str("n := n + 100;\n");
        s.push_str(&at(&format!("{p}.last")));
        s.push_str("END_PROGRAM\n\n");
    }
    s.push_str(
        "CONFIGURATION Conf\nVAR_GLOBAL\n  cyc AT %IW0 : INT;\n  zero : INT := 0;\n  big : INT := 9;\n  nf : INT := 0;\n  trig : BOOL := FALSE;\n  lsafe : LWORD;\nEND_VAR\nVAR_GLOBAL RETAIN\n  rc : INT := 0;\nEND_VAR\n\
         TASK TA (INTERVAL := T#10ms, PRIORITY := 0);\nTASK TB (INTERVAL := T#10ms, PRIORITY := 1);\nTASK TE (SINGLE := trig, PRIORITY := 2);\n\
         PROGRAM PA WITH TA : ProgA (tfb WITH TB);\nPROGRAM PB WITH TB : ProgB;\nPROGRAM PC : ProgC;\nEND_CONFIGURATION\n",
    );
    s
}

// ------------------------------------------------------------------------------------------
// case description
// ------------------------------------------------------------------------------------------

#[derive(Clone, Debug, PartialEq, Eq, Hash)]
enum Kind {
    /// runtime error raised by a statement at `site`
    Prog { site: u8, flavor: u8 },
    /// driver d (1-based) returns Err from read_inputs
    IoRead(u8),
    /// driver d returns Err from write_outputs (normal publish)
    IoWrite(u8),
    /// `Runtime::watchdog_timeout()` after `cycle` good cycles
    Watchdog,
    /// `Runtime::simulation_fault()` after `cycle` good cycles
    Sim,
    /// evaluator deadline already expired when the cycle starts (first statement faults)
    Deadline,
    /// task collection fails (SINGLE variable of a task holds a non-BOOL)
    Sched,
    /// retain store fails while saving at the end of the cycle (after the output publish)
    Retain,
}

impl Kind {
    fn class(&self) -> &'static str {
        match self {
            Kind::Prog { .. } => "program",
            Kind::IoRead(_) => "io-read",
            Kind::IoWrite(_) => "io-write",
            Kind::Watchdog => "watchdog",
            Kind::Sim => "simulation",
            Kind::Deadline => "deadline",
            Kind::Sched => "task-collect",
            Kind::Retain => "retain-save",
        }
    }
    /// public entry point through which the fault is raised (all faults of one entry share the
    /// decision + `apply_fault` path, so the safe-state and order signatures are per entry)
    fn entry(&self) -> &'static str {
        match self {
            Kind::Watchdog => "watchdog_timeout",
            Kind::Sim => "simulation_fault",
            _ => "execute_cycle",
        }
    }
    /// variant name of the RuntimeError the planned fault must surface as (placement check)
    fn expected_error(&self) -> &'static str {
        match self {
            Kind::Prog { flavor: 0, .. } => "DivisionByZero",
            Kind::Prog { flavor: 1, .. } => "IndexOutOfBounds",
            Kind::Prog { .. } => "NullReference",
            Kind::IoRead(_) | Kind::IoWrite(_) => "IoDriver",
            Kind::Watchdog => "WatchdogTimeout",
            Kind::Sim => "SimulationFault",
            Kind::Deadline => "ExecutionTimeout",
            Kind::Sched => "InvalidTaskSingle",
            Kind::Retain => "RetainStore",
        }
    }
    /// fault raised by a direct API call after `cycle` good cycles (not inside cycle `cycle`)
    fn injected_call(&self) -> bool {
        matches!(self, Kind::Watchdog | Kind::Sim)
    }
}

#[derive(Clone, Debug, PartialEq, Eq, Hash)]
struct Case {
    kind: Kind,
    cycle: u32,
    fp: u8,
    wa: u8,
    mask: u8,
    /// 0 none, 1 unappliable entry first, 2 unappliable entry last
    bad: u8,
    drivers: u8,
    /// 0 = nobody, d = driver d's write_outputs fails from the safe-state delivery on
    fail_safe: u8,
    obs: bool,
    bind: bool,
    cold: bool,
    refused: u8,
    /// 0 = all drivers are logging drivers; d = driver d is the shipped `ModbusTcpDriver`
    /// (on_error = fault) pointed at a closed loopback port, so every exchange fails
    real: u8,
    /// relation of the output image to the safe state at the moment of the fault:
    /// 0 opposite (no configured value is there), 1 already-safe (every configured value is
    /// there), 2 partially-safe (every second configured entry is there)
    rel: u8,
    /// how the image got that way: 0 n/a, 1 the programs wrote the safe values in the faulting
    /// cycle, 2 `io_mut().write` after the last publish, 3 debug I/O write queued before the
    /// faulting cycle
    via: u8,
}

const REL: [&str; 3] = ["opposite", "already-safe", "partially-safe"];
const VIA: [&str; 4] = ["none", "program", "io_mut", "debug"];

impl Case {
    /// which shapes hold their safe value before the safe state is applied
    fn safe_set(&self) -> u8 {
        match self.rel {
            1 => self.mask,
            2 => {
                let mut m = 0u8;
                for (k, i) in (0..SHAPES.len()).filter(|i| self.mask & (1 << i) != 0).enumerate() {
                    if k % 2 == 0 {
                        m |= 1 << i;
                    }
                }
                m
            }
            _ => 0,
        }
    }

    fn program(&self) -> String {
        let fault = match &self.kind {
            Kind::Prog { site, flavor } => Some((SITES[*site as usize], FLAVORS[*flavor as usize], self.cycle)),
            _ => None,
        };
        let safe_in = (self.via == 1).then(|| (self.cycle, self.safe_set()));
        program_text(fault, self.bind, safe_in)
    }

    fn to_json(&self) -> J {
        let mut o = json!({
            "family": "rt",
            "kind": self.kind.class(),
            "cycle": self.cycle,
            "fault_policy": POLICIES[self.fp as usize],
            "watchdog_action": POLICIES[self.wa as usize],
            "safe_state": SHAPES.iter().enumerate().filter(|(i, _)| self.mask & (1 << i) != 0).map(|(_, s)| json!([s.addr, s.safe_text])).collect::<Vec<_>>(),
            "safe_mask": self.mask,
            "unappliable_entry": BAD_POS[self.bad as usize],
            "drivers": self.drivers,
            "driver_failing_in_safe_delivery": self.fail_safe,
            "observers": self.obs,
            "outputs_bound": self.bind,
            "restart": if self.cold { "cold" } else { "warm" },
            "refused_cycles": self.refused,
        });
        match &self.kind {
            Kind::Prog { site, flavor } => {
                o["site"] = json!(SITES[*site as usize]);
                o["flavor"] = json!(FLAVORS[*flavor as usize]);
            }
            Kind::IoRead(d) | Kind::IoWrite(d) => o["io_driver"] = json!(d),
            _ => {}
        }
        if self.real != 0 {
            o["real_modbus_driver"] = json!(self.real);
        }
        if self.rel != 0 {
            o["image_at_fault"] = json!(REL[self.rel as usize]);
            o["image_set_by"] = json!(VIA[self.via as usize]);
        }
        o
    }

    fn from_json(j: &J) -> Option<Case> {
        let pol = |k: &str| POLICIES.iter().position(|p| Some(*p) == j[k].as_str()).map(|p| p as u8);
        let kind = match j["kind"].as_str()? {
            "program" => Kind::Prog {
                site: SITES.iter().position(|s| Some(*s) == j["site"].as_str())? as u8,
                flavor: FLAVORS.iter().position(|s| Some(*s) == j["flavor"].as_str())? as u8,
            },
            "io-read" => Kind::IoRead(j["io_driver"].as_u64()? as u8),
            "io-write" => Kind::IoWrite(j["io_driver"].as_u64()? as u8),
            "watchdog" => Kind::Watchdog,
            "simulation" => Kind::Sim,
            "deadline" => Kind::Deadline,
            "task-collect" => Kind::Sched,
            "retain-save" => Kind::Retain,
            _ => return None,
        };
        Some(Case {
            kind,
            cycle: j["cycle"].as_u64()? as u32,
            fp: pol("fault_policy")?,
            wa: pol("watchdog_action")?,
            mask: j["safe_mask"].as_u64()? as u8,
            bad: BAD_POS.iter().position(|s| Some(*s) == j["unappliable_entry"].as_str())? as u8,
            drivers: j["drivers"].as_u64()? as u8,
            fail_safe: j["driver_failing_in_safe_delivery"].as_u64()? as u8,
            obs: j["observers"].as_bool()?,
            bind: j["outputs_bound"].as_bool()?,
            cold: j["restart"].as_str()? == "cold",
            refused: j["refused_cycles"].as_u64()? as u8,
            real: j["real_modbus_driver"].as_u64().unwrap_or(0) as u8,
            rel: REL.iter().position(|s| Some(*s) == j["image_at_fault"].as_str()).unwrap_or(0) as u8,
            via: VIA.iter().position(|s| Some(*s) == j["image_set_by"].as_str()).unwrap_or(0) as u8,
        })
    }

    /// Reading R1 of the statement: the policy that governs this fault kind decides.  (Reading R2,
    /// the literal disjunction "fault policy safe_halt OR watchdog action halt/safe_halt", demands
    /// the safe state in a superset of these cases; a violation is reported only where both
    /// readings demand it, i.e. exactly here.)
    fn safe_demanded(&self) -> bool {
        match self.kind {
            Kind::Watchdog => self.wa != 2,
            _ => self.fp == 1,
        }
    }

    /// 1-based index of the write_outputs call of driver `d` that is the safe-state delivery
    fn safe_write_index(&self, d: u8) -> u32 {
        match self.kind {
            Kind::IoWrite(f) => {
                if d <= f {
                    self.cycle + 1
                } else {
                    self.cycle
                }
            }
            Kind::Retain | Kind::Watchdog | Kind::Sim => self.cycle + 1,
            _ => self.cycle,
        }
    }
}

// ------------------------------------------------------------------------------------------
// instrumentation handed to the subject through its public extension points
// ------------------------------------------------------------------------------------------

#[derive(Clone, Debug)]
enum Ev {
    Read { d: u8 },
    Write { d: u8, n: u32, image: Vec<u8>, fault_reported: bool, state: Option<ResourceState> },
}

#[derive(Default)]
struct Shared {
    log: Mutex<Vec<Ev>>,
    fault_events: AtomicU64,
    /// metrics fault counter at the last restart (reports of earlier, restarted faults don't count)
    metrics_base: AtomicU64,
    debug: Mutex<Option<DebugControl>>,
    metrics: Mutex<Option<Arc<Mutex<RuntimeMetrics>>>>,
    ctl: Mutex<Option<ResourceControl<StepClock>>>,
}

impl Shared {
    /// pulls the runtime's published events; true if the fault has already been reported on one
    /// of the runtime's own report channels
    fn fault_reported(&self) -> bool {
        if let Some(dbg) = self.debug.lock().unwrap().as_ref() {
            for e in dbg.drain_runtime_events() {
                if matches!(e, RuntimeEvent::Fault { .. }) {
                    self.fault_events.fetch_add(1, Ordering::SeqCst);
                }
            }
        }
        let mut reported = self.fault_events.load(Ordering::SeqCst) > 0;
        if let Some(m) = self.metrics.lock().unwrap().as_ref() {
            if let Ok(g) = m.lock() {
                reported |= g.faults > self.metrics_base.load(Ordering::SeqCst);
            }
        }
        reported
    }

    /// called after a restart: the reports of the previous (now cleared) fault are history
    fn rebase(&self) {
        let _ = self.fault_reported();
        self.fault_events.store(0, Ordering::SeqCst);
        if let Some(m) = self.metrics.lock().unwrap().as_ref() {
            if let Ok(g) = m.lock() {
                self.metrics_base.store(g.faults, Ordering::SeqCst);
            }
        }
    }
}

struct LogDriver {
    d: u8,
    reads: u32,
    writes: u32,
    read_fail_at: Option<u32>,
    write_fail_at: Option<u32>,
    write_fail_from: Option<u32>,
    shared: Arc<Shared>,
}

impl IoDriver for LogDriver {
    fn read_inputs(&mut self, inputs: &mut [u8]) -> Result<(), RuntimeError> {
        self.reads += 1;
        self.shared.log.lock().unwrap().push(Ev::Read { d: self.d });
        if self.read_fail_at == Some(self.reads) {
            return Err(RuntimeError::IoDriver("injected read error".into()));
        }
        // cycle number on %IW0
        let b = (self.reads as u16).to_le_bytes();
        for (i, x) in b.iter().enumerate() {
            if let Some(slot) = inputs.get_mut(i) {
                *slot = *x;
            }
        }
        Ok(())
    }

    fn write_outputs(&mut self, outputs: &[u8]) -> Result<(), RuntimeError> {
        self.writes += 1;
        let fault_reported = self.shared.fault_reported();
        let state = self.shared.ctl.lock().unwrap().as_ref().map(|c| c.state());
        self.shared.log.lock().unwrap().push(Ev::Write {
            d: self.d,
            n: self.writes,
            image: outputs.to_vec(),
            fault_reported,
            state,
        });
        if self.write_fail_at == Some(self.writes) || self.write_fail_from.is_some_and(|k| self.writes >= k) {
            return Err(RuntimeError::IoDriver("injected write error".into()));
        }
        Ok(())
    }
}

struct FailingStore {
    calls: Mutex<u32>,
    fail_at: u32,
}

impl RetainStore for FailingStore {
    fn load(&self) -> Result<RetainSnapshot, RuntimeError> {
        Ok(RetainSnapshot::default())
    }
    fn store(&self, _snapshot: &RetainSnapshot) -> Result<(), RuntimeError> {
        let mut c = self.calls.lock().unwrap();
        *c += 1;
        if *c == self.fail_at {
            return Err(RuntimeError::RetainStore("injected store error".into()));
        }
        Ok(())
    }
}

/// clock of the runner family: every `now()` is one 10 ms step later (as in the repository's own
/// reliability test), `sleep_until` returns at once
#[derive(Clone, Debug)]
pub struct StepClock {
    t: Arc<Mutex<i64>>,
}

impl Clock for StepClock {
    fn now(&self) -> Duration {
        let mut g = self.t.lock().unwrap();
        let now = *g;
        *g = now + 10_000_000;
        Duration::from_nanos(now)
    }
    fn sleep_until(&self, deadline: Duration) {
        let mut g = self.t.lock().unwrap();
        if *g < deadline.as_nanos() {
            *g = deadline.as_nanos();
        }
    }
}

// ------------------------------------------------------------------------------------------
// configuration through the public configuration path
// ------------------------------------------------------------------------------------------

static FILE_SEQ: AtomicU64 = AtomicU64::new(0);

/// Builds the safe-state map the way a deployment does: io.toml text -> `IoConfig::load`.
fn load_safe_state(entries: &[(&str, &str)]) -> Result<IoSafeState, String> {
    let mut text = String::from("[io]\ndriver = \"simulated\"\nparams = {}\n\n");
    for (a, v) in entries {
        text.push_str(&format!("[[io.safe_state]]\naddress = \"{a}\"\nvalue = \"{v}\"\n\n"));
    }
    let path = std::env::temp_dir().join(format!(
        "tv-c08-{}-{}.toml",
        std::process::id(),
        FILE_SEQ.fetch_add(1, Ordering::SeqCst)
    ));
    std::fs::write(&path, &text).map_err(|e| format!("cannot write {path:?}: {e}"))?;
    let r = IoConfig::load(&path);
    let _ = std::fs::remove_file(&path);
    r.map(|c| c.safe_state).map_err(|e| format!("io.toml rejected: {e}"))
}

/// The six loaded (address,value) entries plus the unappliable one (None if the loader rejects it).
struct SafeEntries {
    good: Vec<(IoAddress, Value)>,
    bad: Option<(IoAddress, Value)>,
}

fn safe_entries() -> Result<SafeEntries, String> {
    let all: Vec<(&str, &str)> = SHAPES.iter().map(|s| (s.addr, s.safe_text)).collect();
    let st = load_safe_state(&all)?;
    if st.outputs.len() != SHAPES.len() {
        return Err(format!("config loader returned {} safe-state entries for {}", st.outputs.len(), SHAPES.len()));
    }
    let bad = load_safe_state(&[BAD_ENTRY]).ok().and_then(|s| s.outputs.into_iter().next());
    Ok(SafeEntries { good: st.outputs, bad })
}

fn safe_state_for(entries: &SafeEntries, mask: u8, bad: u8) -> IoSafeState {
    let mut st = IoSafeState::default();
    if bad == 1 {
        if let Some(b) = &entries.bad {
            st.outputs.push(b.clone());
        }
    }
    for (i, e) in entries.good.iter().enumerate() {
        if mask & (1 << i) != 0 {
            st.outputs.push(e.clone());
        }
    }
    if bad == 2 {
        if let Some(b) = &entries.bad {
            st.outputs.push(b.clone());
        }
    }
    st
}

// ------------------------------------------------------------------------------------------
// observation helpers
// ------------------------------------------------------------------------------------------

/// Canonical dump: all globals, all instances (by id), retain area, frame count, the three images.
fn dump(rt: &Runtime) -> Vec<String> {
    let st = rt.storage();
    let mut out = Vec::new();
    for (k, v) in st.globals() {
        out.push(format!("global {k} = {v:?}"));
    }
    let mut ids: Vec<_> = st.instances().keys().copied().collect();
    ids.sort_by_key(|i| i.0);
    for id in ids {
        let inst = st.get_instance(id).unwrap();
        for (k, v) in &inst.variables {
            out.push(format!("instance {}:{}.{k} = {v:?}", id.0, inst.type_name));
        }
    }
    for (k, v) in st.retain() {
        out.push(format!("retain {k} = {v:?}"));
    }
    out.push(format!("frames {}", st.frames().len()));
    out.push(format!("image I {:?}", rt.io().inputs()));
    out.push(format!("image Q {:?}", rt.io().outputs()));
    out.push(format!("image M {:?}", rt.io().memory()));
    out
}

fn first_diff(a: &[String], b: &[String]) -> String {
    for (x, y) in a.iter().zip(b.iter()) {
        if x != y {
            return format!("`{x}` became `{y}`");
        }
    }
    format!("dump length {} became {}", a.len(), b.len())
}

/// value at `addr` in a raw output image, decoded by the subject's own pure accessor
fn read_image(image: &[u8], addr: &IoAddress) -> Option<Value> {
    let mut io = IoInterface::new();
    io.resize(0, image.len(), 0);
    io.outputs_mut().copy_from_slice(image);
    io.read(addr).ok()
}

fn err_class(e: &RuntimeError) -> String {
    format!("{e:?}").chars().take_while(|ch| ch.is_alphanumeric()).collect()
}

fn norm_msg(m: &str) -> String {
    let s: String = m.chars().map(|c| if c.is_ascii_digit() { '#' } else { c }).collect();
    s.chars().take(60).collect()
}

#[derive(Default)]
struct Outcome {
    /// (signature, what)
    bad: Vec<(String, String)>,
    /// the planned fault did occur where planned
    placed: bool,
    /// why not (machinery)
    unplaced_why: String,
    demanded: bool,
    safe_checks: u64,
    refused_checks: u64,
    fault_error: String,
    /// compact description of what happened (for the distinct-outcome counter)
    outcome_key: String,
    fault_dump_hash: u64,
}

fn fnv(s: &str, mut h: u64) -> u64 {
    for b in s.bytes() {
        h ^= b as u64;
        h = h.wrapping_mul(0x100000001b3);
    }
    h
}

fn parse_policies(c: &Case) -> Result<(FaultPolicy, WatchdogAction), String> {
    let fp = FaultPolicy::parse(POLICIES[c.fp as usize]).map_err(|e| e.to_string())?;
    let wa = WatchdogAction::parse(POLICIES[c.wa as usize]).map_err(|e| e.to_string())?;
    Ok((fp, wa))
}

/// The shipped Modbus/TCP driver pointed at a loopback port nobody listens on: every exchange
/// fails (connection refused), which the driver maps to Err (on_error = fault) or swallows
/// (warn / ignore).  Built the way the launcher does it: io.toml -> IoConfig -> IoDriverRegistry.
fn modbus_driver(on_error: &str) -> Result<Box<dyn IoDriver>, String> {
    let text = format!(
        "[io]\n\n[[io.drivers]]\nname = \"modbus-tcp\"\nparams = {{ address = \"127.0.0.1:1\", timeout_ms = 50, on_error = \"{on_error}\" }}\n"
    );
    let path = std::env::temp_dir().join(format!(
        "tv-c08-{}-{}.toml",
        std::process::id(),
        FILE_SEQ.fetch_add(1, Ordering::SeqCst)
    ));
    std::fs::write(&path, &text).map_err(|e| format!("cannot write {path:?}: {e}"))?;
    let cfg = IoConfig::load(&path);
    let _ = std::fs::remove_file(&path);
    let cfg = cfg.map_err(|e| format!("io.toml with a modbus-tcp driver rejected: {e}"))?;
    let d = cfg.drivers.first().ok_or("io.toml loaded without drivers")?;
    let spec = IoDriverRegistry::default_registry()
        .build(d.name.as_str(), &d.params)
        .map_err(|e| format!("registry cannot build modbus-tcp: {e}"))?
        .ok_or("registry built no driver")?;
    Ok(spec.driver)
}

fn make_drivers(c: &Case, shared: &Arc<Shared>) -> Vec<LogDriver> {
    (1..=c.drivers)
        .filter(|d| *d != c.real)
        .map(|d| LogDriver {
            d,
            reads: 0,
            writes: 0,
            read_fail_at: (c.kind == Kind::IoRead(d)).then_some(c.cycle),
            write_fail_at: (c.kind == Kind::IoWrite(d)).then_some(c.cycle),
            write_fail_from: (c.fail_safe == d).then(|| c.safe_write_index(d)),
            shared: shared.clone(),
        })
        .collect()
}

/// Safe-state clauses on the driver log + (optionally) the runtime image.
/// `io`: the runtime's interface (None in the runner family, where the runtime lives in the thread).
///
/// Signatures name the cause, not the case: `<entry point>/none-applied` when no configured entry
/// is in the image, `missing:<shapes>` when some are and some are not; the delivery clause is
/// evaluated only on the entries the runtime image does hold (an entry missing from the image is
/// already reported by the image clause), and a configuration feature that explains the failure
/// (an earlier driver returned Err, an unappliable entry) replaces the fault kind.
///
/// `second`: the fault is the second one of the case (after a restart).  The images then still
/// carry safe values of the first fault wherever the restarted program did not overwrite them, so
/// "which shapes are missing" is not a cause feature there; the check is only run when the first
/// fault passed, and its signatures say just `second-fault/<entry point>`.
fn check_safe(c: &Case, entries: &SafeEntries, io: Option<&IoInterface>, log: &[Ev], family: &str, second: bool, out: &mut Outcome) {
    let wanted: Vec<usize> = (0..SHAPES.len()).filter(|i| c.mask & (1 << i) != 0).collect();
    if wanted.is_empty() {
        return;
    }
    let kind = c.kind.class();
    let entry = c.kind.entry();
    // nothing there: the entry point is the discriminating feature; some there, some not: the shapes are
    let tag = |missing: &[usize], of: usize, none: &str| -> String {
        if second {
            return format!("second-fault/{entry}");
        }
        if c.rel != 0 {
            // the clean "opposite" stratum passes where this one fails: the relation is the cause
            return format!("image-{}/{entry}", REL[c.rel as usize]);
        }
        if missing.len() == of {
            return format!("{entry}/{none}");
        }
        let mut tags: Vec<&str> = missing.iter().map(|i| SHAPES[*i].tag).collect();
        tags.dedup();
        format!("missing:{}", tags.join(""))
    };
    // image clause
    let mut in_image: Vec<usize> = wanted.clone();
    if let Some(io) = io {
        let mut missing = Vec::new();
        for &i in &wanted {
            let (addr, val) = &entries.good[i];
            out.safe_checks += 1;
            if io.read(addr).ok().as_ref() != Some(val) {
                missing.push(i);
            }
        }
        in_image.retain(|i| !missing.contains(i));
        if !missing.is_empty() {
            let sig = if c.bad != 0 {
                "C08/safe-image/unappliable-entry-blocks-others".to_string()
            } else {
                format!("C08/safe-image/{}", tag(&missing, wanted.len(), "none-applied"))
            };
            let i = missing[0];
            out.bad.push((
                sig,
                format!(
                    "{family}: after the {kind} fault was reported the output image does not hold the configured safe value at {} (expected {:?}, image reads {:?}); {} of {} configured addresses missing",
                    SHAPES[i].addr,
                    entries.good[i].1,
                    io.read(&entries.good[i].0).ok(),
                    missing.len(),
                    wanted.len()
                ),
            ));
        }
    }
    if in_image.is_empty() {
        return;
    }
    // delivery clause, per driver, on the entries the image holds
    for d in (1..=c.drivers).filter(|d| *d != c.real) {
        let last = log.iter().rev().find_map(|e| match e {
            Ev::Write { d: dd, image, fault_reported, state, n } if *dd == d => Some((image, *fault_reported, *state, *n)),
            _ => None,
        });
        let mut missing = Vec::new();
        for &i in &in_image {
            let (addr, val) = &entries.good[i];
            out.safe_checks += 1;
            let got = last.as_ref().and_then(|(image, ..)| read_image(image, addr));
            if got.as_ref() != Some(val) {
                missing.push(i);
            }
        }
        if !missing.is_empty() {
            let sig = if c.bad != 0 {
                "C08/safe-delivery/unappliable-entry-blocks-delivery".to_string()
            } else if c.fail_safe != 0 && c.fail_safe < d {
                "C08/safe-delivery/after-failing-driver".to_string()
            } else {
                format!("C08/safe-delivery/{}", tag(&missing, in_image.len(), "none-delivered"))
            };
            let i = missing[0];
            let handed = match &last {
                None => "driver was never handed an output image".to_string(),
                Some((image, _, _, n)) => format!("the last image it had been handed (its write #{n}) reads {:?} there", read_image(image, &entries.good[i].0)),
            };
            out.bad.push((
                sig,
                format!(
                    "{family}: when the {kind} fault was reported, driver {d} of {} had not received the safe value {:?} at {}: {handed}; {} of {} addresses missing{}",
                    c.drivers,
                    entries.good[i].1,
                    SHAPES[i].addr,
                    missing.len(),
                    in_image.len(),
                    if c.fail_safe != 0 && c.fail_safe < d { format!("; driver {} returned Err during the safe-state delivery", c.fail_safe) } else { String::new() }
                ),
            ));
        } else if let Some((_, reported, state, _)) = last {
            // order clause: the safe image must reach the driver before the fault is reported
            if reported {
                out.bad.push((
                    format!("C08/order/reported-before-delivery/{entry}"),
                    format!("{family}: driver {d} was handed the safe image only after the runtime had already published the fault (Fault runtime event / metrics fault counter)"),
                ));
            }
            if state == Some(ResourceState::Faulted) {
                out.bad.push((
                    format!("C08/order/state-faulted-before-delivery/{kind}"),
                    format!("{family}: the resource state was already Faulted when driver {d} was handed the safe image"),
                ));
            }
        }
    }
}

// ------------------------------------------------------------------------------------------
// family "rt": Runtime driven synchronously
// ------------------------------------------------------------------------------------------

fn build_runtime(c: &Case, text: Option<&str>) -> Result<Runtime, String> {
    let generated;
    let src = match text {
        Some(t) => t,
        None => {
            generated = c.program();
            &generated
        }
    };
    let h = catch(|| TestHarness::from_source(src)).map_err(|m| format!("compiler panicked: {m}"))?;
    h.map(|h| h.into_runtime()).map_err(|e| format!("skeleton rejected by the compiler: {e}"))
}

/// The outputs carry the opposite of every safe value before the fault, so that no configured
/// value is in the image by coincidence.  With unbound outputs only %QX0.7 (whose safe value is
/// FALSE) is pre-loaded: the image stays 1 byte long and the safe state has to grow it.
fn preload_opposite(rt: &mut Runtime, bind: bool) -> Result<(), String> {
    for (i, sh) in SHAPES.iter().enumerate() {
        if bind || i == 1 {
            let addr = IoAddress::parse(sh.addr).map_err(|e| e.to_string())?;
            rt.io_mut().write(&addr, shape_value(i, sh.opposite)).map_err(|e| e.to_string())?;
        }
    }
    Ok(())
}

fn configure(rt: &mut Runtime, c: &Case, entries: &SafeEntries, shared: &Arc<Shared>, wd_enabled: bool, wd_timeout: Duration) -> Result<(), String> {
    let (fp, wa) = parse_policies(c)?;
    rt.set_fault_policy(fp);
    rt.set_watchdog_policy(WatchdogPolicy { enabled: wd_enabled, timeout: wd_timeout, action: wa });
    rt.set_io_safe_state(safe_state_for(entries, c.mask, c.bad));
    // the launcher sizes the images from the bindings: 2 input bytes (%IW0), 16 output bytes
    rt.io_mut().resize(2, if c.bind { 16 } else { 0 }, 0);
    preload_opposite(rt, c.bind)?;
    rt.storage_mut().set_global("lsafe", Value::LWord(SHAPES[5].safe));
    let mut logging = make_drivers(c, shared).into_iter();
    for d in 1..=c.drivers {
        if d == c.real {
            rt.add_io_driver("modbus-tcp", modbus_driver("fault")?);
        } else if let Some(drv) = logging.next() {
            rt.add_io_driver(format!("log{}", drv.d), Box::new(drv));
        }
    }
    if c.obs {
        let dbg = rt.enable_debug();
        *shared.debug.lock().unwrap() = Some(dbg);
        let m = Arc::new(Mutex::new(RuntimeMetrics::new()));
        rt.set_metrics_sink(m.clone());
        *shared.metrics.lock().unwrap() = Some(m);
    }
    if c.kind == Kind::Retain {
        rt.set_retain_store(
            Some(Box::new(FailingStore { calls: Mutex::new(0), fail_at: c.cycle })),
            Some(Duration::from_millis(0)),
        );
    }
    Ok(())
}

fn check_rt(c: &Case, entries: &SafeEntries, text: Option<&str>) -> Result<Outcome, String> {
    let mut out = Outcome::default();
    let kind = c.kind.class();
    let shared = Arc::new(Shared::default());
    let mut rt = build_runtime(c, text)?;
    configure(&mut rt, c, entries, &shared, true, Duration::from_millis(1000))?;
    out.demanded = c.safe_demanded();

    // ---- run up to the fault
    let good_cycles = if c.kind.injected_call() { c.cycle } else { c.cycle.saturating_sub(1) };
    let step = |rt: &mut Runtime| -> Result<Result<(), RuntimeError>, String> {
        rt.advance_time(Duration::from_millis(10));
        catch(|| rt.execute_cycle())
    };
    for i in 1..=good_cycles {
        match step(&mut rt) {
            Ok(Ok(())) => {}
            Ok(Err(e)) => {
                out.unplaced_why = format!("cycle {i} faulted ({e}) before the planned fault point");
                return Ok(out);
            }
            Err(m) => {
                out.bad.push((format!("C08/panic/execute_cycle/{}", norm_msg(&m)), format!("execute_cycle panicked in fault-free cycle {i}: {m}")));
                out.placed = true;
                return Ok(out);
            }
        }
    }
    // image relation set from outside: after the last publish, before the faulting call
    if c.via == 2 || c.via == 3 {
        for i in (0..SHAPES.len()).filter(|i| c.safe_set() & (1 << i) != 0) {
            let (addr, val) = entries.good[i].clone();
            if c.via == 2 {
                rt.io_mut().write(&addr, val).map_err(|e| e.to_string())?;
            } else {
                let dbg = shared.debug.lock().unwrap().clone().ok_or("debug I/O write needs observers")?;
                dbg.enqueue_io_write(addr, val);
            }
        }
    }
    let fault: Result<RuntimeError, String> = match c.kind {
        Kind::Watchdog => catch(|| rt.watchdog_timeout()),
        Kind::Sim => catch(|| rt.simulation_fault("injected")),
        _ => {
            if c.kind == Kind::Deadline {
                rt.set_execution_deadline(Some(Instant::now()));
            }
            if c.kind == Kind::Sched {
                rt.storage_mut().set_global("trig", Value::Int(1));
            }
            match step(&mut rt) {
                Ok(Ok(())) => {
                    out.unplaced_why = format!("cycle {} completed without the planned {kind} fault", c.cycle);
                    return Ok(out);
                }
                Ok(Err(e)) => Ok(e),
                Err(m) => Err(m),
            }
        }
    };
    rt.set_execution_deadline(None);
    let err = match fault {
        Ok(e) => e,
        Err(m) => {
            out.placed = true;
            out.bad.push((format!("C08/panic/fault/{kind}/{}", norm_msg(&m)), format!("the faulting call panicked instead of reporting the {kind} fault: {m}")));
            return Ok(out);
        }
    };
    if err == RuntimeError::ResourceFaulted {
        out.unplaced_why = "the planned fault point was reached with the resource already faulted".into();
        return Ok(out);
    }
    out.fault_error = err_class(&err);
    if out.fault_error != c.kind.expected_error() {
        out.unplaced_why = format!("the planned {kind} fault surfaced as {err:?}, expected {}", c.kind.expected_error());
        return Ok(out);
    }
    {
        // the fault must have surfaced in the planned cycle: driver 1 has latched inputs that often
        let reads = shared.log.lock().unwrap().iter().filter(|e| matches!(e, Ev::Read { d: 1 })).count() as u32;
        let want = c.cycle;
        if reads != want && c.real == 0 {
            out.unplaced_why = format!("driver 1 latched inputs {reads} times before the fault, planned {want}");
            return Ok(out);
        }
    }
    if c.rel != 0 {
        // The planned image relation must really have held when the fault arose.  Without a demanded
        // safe state the image after the fault still shows it; with a program-written image the
        // image the failing publish handed to the driver shows it.
        let holds = |read: &dyn Fn(&IoAddress) -> Option<Value>| -> Option<String> {
            for i in (0..SHAPES.len()).filter(|i| c.mask & (1 << i) != 0) {
                let safe = c.safe_set() & (1 << i) != 0;
                let want = if safe { entries.good[i].1.clone() } else { shape_value(i, SHAPES[i].opposite) };
                let got = read(&entries.good[i].0);
                if got.as_ref() != Some(&want) {
                    return Some(format!("{} reads {got:?}, planned {want:?}", SHAPES[i].addr));
                }
            }
            None
        };
        let bad = if !c.safe_demanded() {
            holds(&|a| rt.io().read(a).ok())
        } else if let (1, Kind::IoWrite(d)) = (c.via, &c.kind) {
            let log = shared.log.lock().unwrap();
            let img = log.iter().find_map(|e| match e {
                Ev::Write { d: dd, n, image, .. } if dd == d && *n == c.cycle => Some(image.clone()),
                _ => None,
            });
            match img {
                Some(img) => holds(&|a| read_image(&img, a)),
                None => Some("the failing publish was not logged".to_string()),
            }
        } else {
            None
        };
        if let Some(why) = bad {
            out.unplaced_why = format!("image relation {} (set by {}) did not hold at fault time: {why}", REL[c.rel as usize], VIA[c.via as usize]);
            return Ok(out);
        }
    }
    out.placed = true;

    // ---- the fault has been reported (the call returned): latch + safe state
    if !rt.faulted() {
        out.bad.push((
            format!("C08/latch/{kind}"),
            format!("the faulting call returned {err:?} ({kind} fault, cycle {}) but faulted() is false", c.cycle),
        ));
    }
    let log_at_report: Vec<Ev> = shared.log.lock().unwrap().clone();
    let _ = shared.fault_reported();
    if out.demanded {
        check_safe(c, entries, Some(rt.io()), &log_at_report, "runtime", false, &mut out);
    }
    let d0 = dump(&rt);
    out.fault_dump_hash = d0.iter().fold(0xcbf29ce484222325, |h, l| fnv(l, h));
    let delivered = (1..=c.drivers)
        .filter(|d| log_at_report.iter().any(|e| matches!(e, Ev::Write { d: dd, n, .. } if dd == d && *n >= c.safe_write_index(*d))))
        .count();
    out.outcome_key = format!("{kind}/{}/demanded={}/delivered={delivered}of{}", out.fault_error, out.demanded, c.drivers);
    if c.rel != 0 {
        out.outcome_key.push_str(&format!("/image={}:{}", REL[c.rel as usize], VIA[c.via as usize]));
    }

    // ---- every later cycle request is refused.  The refusal gate does not depend on the fault
    // kind, so these signatures carry none; the first anomaly of a case ends the case (everything
    // after it would be a consequence).
    if !rt.faulted() {
        return Ok(out);
    }
    for k in 1..=c.refused {
        rt.advance_time(Duration::from_millis(10));
        let before = dump(&rt);
        let log_before = shared.log.lock().unwrap().len();
        let r = catch(|| rt.execute_cycle());
        out.refused_checks += 1;
        match r {
            Err(m) => {
                out.bad.push((format!("C08/panic/refused-cycle/{}", norm_msg(&m)), format!("execute_cycle panicked on the faulted resource: {m}")));
                return Ok(out);
            }
            Ok(Err(RuntimeError::ResourceFaulted)) => {}
            Ok(other) => {
                let got = if other.is_ok() { "accepted" } else { "other-error" };
                out.bad.push((
                    format!("C08/refusal/result/{got}"),
                    format!("cycle request #{k} after the {kind} fault returned {other:?} instead of Err(ResourceFaulted)"),
                ));
                return Ok(out);
            }
        }
        let after = dump(&rt);
        if after != before {
            let what = first_diff(&before, &after);
            let part = if what.starts_with("`image") { "image" } else { "storage" };
            out.bad.push((
                format!("C08/refusal/state-changed/{part}"),
                format!("refused cycle request #{k} after the {kind} fault changed the resource state: {what}"),
            ));
            return Ok(out);
        }
        if !rt.faulted() {
            out.bad.push((
                "C08/refusal/latch-cleared".to_string(),
                format!("faulted() became false after refused cycle request #{k} (after a {kind} fault) without a restart"),
            ));
            return Ok(out);
        }
        if out.demanded {
            // a driver that is handed an image during a refused request must still see the safe values
            let log = shared.log.lock().unwrap().clone();
            if log.len() > log_before {
                let mut tmp = Outcome::default();
                check_safe(c, entries, None, &log, "runtime", false, &mut tmp);
                let lost: Vec<_> = tmp.bad.into_iter().filter(|(sig, _)| sig.starts_with("C08/safe-delivery") && !out.bad.iter().any(|(s, _)| s == sig)).collect();
                if let Some((_, what)) = lost.into_iter().next() {
                    out.bad.push(("C08/safe-lost-after-refusal".to_string(), format!("a driver was handed an image without the safe values during refused request #{k}: {what}")));
                    return Ok(out);
                }
            }
        }
    }

    // ---- until a restart
    let mode = if c.cold { RestartMode::Cold } else { RestartMode::Warm };
    let mode_s = if c.cold { "cold" } else { "warm" };
    match catch(|| rt.restart(mode)) {
        Err(m) => out.bad.push((format!("C08/panic/restart/{}", norm_msg(&m)), format!("restart({mode_s}) panicked: {m}"))),
        Ok(Err(_)) => {} // restart itself failing is C09's business
        Ok(Ok(())) => {
            shared.rebase();
            if rt.faulted() {
                out.bad.push((format!("C08/restart/still-faulted/{mode_s}"), format!("faulted() is still true after restart({mode_s})")));
            } else {
                rt.advance_time(Duration::from_millis(10));
                match catch(|| rt.execute_cycle()) {
                    Ok(Err(RuntimeError::ResourceFaulted)) => out.bad.push((
                        format!("C08/restart/still-refused/{mode_s}"),
                        format!("the first cycle after restart({mode_s}) is still refused with ResourceFaulted"),
                    )),
                    Err(m) => out.bad.push((format!("C08/panic/cycle-after-restart/{}", norm_msg(&m)), format!("execute_cycle panicked after restart({mode_s}): {m}"))),
                    Ok(first) => {
                        // ---- fault sequence: a second fault after the restart gets the same treatment.
                        // Either the first cycle after the restart faulted by itself (a driver that keeps
                        // failing), or a simulation fault is injected now.
                        let (second, c2) = match first {
                            Err(e) => {
                                let k2 = if c.fail_safe != 0 { Kind::IoWrite(c.fail_safe) } else { c.kind.clone() };
                                (Ok(e), Case { kind: k2, rel: 0, via: 0, ..c.clone() })
                            }
                            Ok(()) => {
                                preload_opposite(&mut rt, c.bind)?;
                                (catch(|| rt.simulation_fault("second")), Case { kind: Kind::Sim, rel: 0, via: 0, ..c.clone() })
                            }
                        };
                        let kind2 = c2.kind.class();
                        match second {
                            Err(m) => out.bad.push((format!("C08/panic/fault/{kind2}/{}", norm_msg(&m)), format!("second fault after restart({mode_s}) panicked: {m}"))),
                            Ok(e2) => {
                                if !rt.faulted() {
                                    out.bad.push((format!("C08/latch/{kind2}"), format!("second fault after restart({mode_s}): the call returned {e2:?} but faulted() is false")));
                                }
                                let first_clean = out.demanded && !out.bad.iter().any(|(s, _)| s.starts_with("C08/safe-") || s.starts_with("C08/order/"));
                                if c2.safe_demanded() && first_clean {
                                    let log = shared.log.lock().unwrap().clone();
                                    let mut tmp = Outcome::default();
                                    check_safe(&c2, entries, Some(rt.io()), &log, "runtime, second fault after a restart", true, &mut tmp);
                                    out.safe_checks += tmp.safe_checks;
                                    for (sig, what) in tmp.bad {
                                        if !out.bad.iter().any(|(s, _)| *s == sig) {
                                            out.bad.push((sig, what));
                                        }
                                    }
                                }
                                rt.advance_time(Duration::from_millis(10));
                                let before = dump(&rt);
                                out.refused_checks += 1;
                                match catch(|| rt.execute_cycle()) {
                                    Ok(Err(RuntimeError::ResourceFaulted)) if dump(&rt) == before && rt.faulted() => {}
                                    other => out.bad.push((
                                        "C08/refusal/after-second-fault".to_string(),
                                        format!("cycle request after the second fault (after restart({mode_s})) was not refused cleanly: {other:?}, faulted()={}", rt.faulted()),
                                    )),
                                }
                            }
                        }
                    }
                }
            }
        }
    }
    Ok(out)
}

// ------------------------------------------------------------------------------------------
// family "runner": the resource thread (scheduler.rs) reacting to faults and to the watchdog
// ------------------------------------------------------------------------------------------

#[derive(Clone, Debug, PartialEq, Eq, Hash)]
enum RKind {
    Prog,
    IoRead,
    IoWrite,
    /// real watchdog: enabled, timeout 1 ns, so the first cycle overruns
    WdOverrun,
    /// scripted simulation disturbance `Fault` (SimulationController::apply_pre_cycle)
    SimCtl,
}

impl RKind {
    fn name(&self) -> &'static str {
        match self {
            RKind::Prog => "program",
            RKind::IoRead => "io-read",
            RKind::IoWrite => "io-write",
            RKind::WdOverrun => "watchdog",
            RKind::SimCtl => "simulation",
        }
    }
    fn parse(s: &str) -> Option<RKind> {
        [RKind::Prog, RKind::IoRead, RKind::IoWrite, RKind::WdOverrun, RKind::SimCtl].into_iter().find(|k| k.name() == s)
    }
}

fn runner_case_json(k: &RKind, c: &Case) -> J {
    let mut j = c.to_json();
    j["family"] = json!("runner");
    j["kind"] = json!(k.name());
    j
}

/// `c.kind` is the rt-level equivalent used for plan arithmetic (safe write index, demanded).
fn runner_plan(k: &RKind, cycle: u32, fp: u8, wa: u8, drivers: u8, fail_safe: u8) -> Case {
    let kind = match k {
        RKind::Prog => Kind::Prog { site: 1, flavor: 0 },
        RKind::IoRead => Kind::IoRead(1),
        RKind::IoWrite => Kind::IoWrite(1),
        // after cycle 1 has published
        RKind::WdOverrun => Kind::Watchdog,
        // pre-cycle of iteration `cycle`: cycle-1 publishes so far
        RKind::SimCtl => Kind::Sim,
    };
    let cycle = if *k == RKind::SimCtl { cycle - 1 } else { cycle };
    Case { kind, cycle, fp, wa, mask: FULL_MASK, bad: 0, drivers, fail_safe, obs: false, bind: true, cold: false, refused: 0, real: 0, rel: 0, via: 0 }
}

fn check_runner(k: &RKind, c: &Case, entries: &SafeEntries) -> Result<Outcome, String> {
    let mut out = Outcome::default();
    let kind = k.name();
    let shared = Arc::new(Shared::default());
    let mut rt = build_runtime(c, None)?;
    let wd = *k == RKind::WdOverrun;
    configure(&mut rt, c, entries, &shared, wd, if wd { Duration::from_nanos(1) } else { Duration::from_millis(1000) })?;
    out.demanded = c.safe_demanded();
    let clock = StepClock { t: Arc::new(Mutex::new(10_000_000)) };
    let gate = Arc::new(StartGate::new());
    let mut runner = ResourceRunner::new(rt, clock, Duration::from_millis(10)).with_start_gate(gate.clone());
    if *k == RKind::SimCtl {
        let cfg = SimulationConfig {
            enabled: true,
            seed: 0,
            time_scale: 1,
            couplings: Vec::new(),
            // iteration i runs at 10 ms * i; due in the pre-cycle of iteration c.cycle + 1
            disturbances: vec![SimulationDisturbance {
                at: Duration::from_millis(10 * (c.cycle as i64 + 1) - 5),
                kind: SimulationDisturbanceKind::Fault { message: "injected".into() },
            }],
        };
        runner = runner.with_simulation(SimulationController::new(cfg));
    }
    let mut handle = runner.spawn("c08-runner").map_err(|e| format!("cannot spawn resource thread: {e}"))?;
    *shared.ctl.lock().unwrap() = Some(handle.control());
    gate.open();
    // Wait for the state Faulted.  The verdict "never faulted" is progress-based, not time-based:
    // it is given only once the thread has latched inputs three more times than the plan allows.
    let t0 = Instant::now();
    let mut reached = false;
    let mut stalled = false;
    loop {
        let st = handle.state();
        if st == ResourceState::Faulted {
            reached = true;
            break;
        }
        let reads = shared.log.lock().unwrap().iter().filter(|e| matches!(e, Ev::Read { d: 1 })).count() as u32;
        if reads >= c.cycle + 3 || st == ResourceState::Stopped {
            break;
        }
        if t0.elapsed() > StdDuration::from_secs(120) {
            stalled = true;
            break;
        }
        std::thread::yield_now();
    }
    let log_at_report: Vec<Ev> = shared.log.lock().unwrap().clone();
    let last_error = handle.last_error();
    handle.stop();
    let _ = handle.join();
    *shared.ctl.lock().unwrap() = None;
    if stalled {
        return Err(format!("runner case {}: resource thread made no progress for 120 s", runner_case_json(k, c)));
    }
    if !reached {
        // the planned fault never surfaced as state Faulted
        out.placed = true;
        out.bad.push((
            format!("C08/runner/not-faulted/{kind}"),
            format!("resource thread: the resource ran 3 cycles past the planned {kind} fault (planned after {} input latches; fault policy {}, watchdog action {}) and its state never became Faulted", c.cycle, POLICIES[c.fp as usize], POLICIES[c.wa as usize]),
        ));
        return Ok(out);
    }
    out.fault_error = last_error.as_ref().map(err_class).unwrap_or_default();
    {
        let reads = log_at_report.iter().filter(|e| matches!(e, Ev::Read { d: 1 })).count() as u32;
        let want = c.cycle;
        if reads != want || (last_error.is_some() && out.fault_error != c.kind.expected_error()) {
            out.unplaced_why = format!("runner: fault surfaced as {last_error:?} after {reads} input latches, planned {} after {want}", c.kind.expected_error());
            return Ok(out);
        }
    }
    out.placed = true;
    if last_error.is_none() {
        out.bad.push((format!("C08/runner/no-error-reported/{kind}"), "resource state is Faulted but last_error() is None".to_string()));
    }
    if out.demanded {
        check_safe(c, entries, None, &log_at_report, "resource thread", false, &mut out);
    }
    // no cycle may start once the state Faulted was observable
    let log_end = shared.log.lock().unwrap().clone();
    let later_reads = log_end[log_at_report.len()..].iter().filter(|e| matches!(e, Ev::Read { .. })).count();
    out.refused_checks += 1;
    if later_reads > 0 {
        out.bad.push((
            format!("C08/runner/cycle-after-fault/{kind}"),
            format!("resource thread latched inputs {later_reads} more time(s) after its state had become Faulted"),
        ));
    }
    let delivered = (1..=c.drivers)
        .filter(|d| log_at_report.iter().any(|e| matches!(e, Ev::Write { d: dd, n, .. } if dd == d && *n >= c.safe_write_index(*d))))
        .count();
    out.outcome_key = format!("runner/{kind}/{}/demanded={}/delivered={delivered}of{}", out.fault_error, out.demanded, c.drivers);
    Ok(out)
}

// ------------------------------------------------------------------------------------------
// replay
// ------------------------------------------------------------------------------------------

fn to_violations(out: Outcome, case: &J) -> Vec<Violation> {
    out.bad
        .into_iter()
        .map(|(signature, what)| Violation { signature, what, case: case.clone() })
        .collect()
}

pub fn check_case(case: &J) -> Vec<Violation> {
    let Ok(entries) = safe_entries() else { return Vec::new() };
    match case["family"].as_str() {
        Some("rt") => {
            let Some(c) = Case::from_json(case) else { return Vec::new() };
            match check_rt(&c, &entries, case["program"].as_str()) {
                Ok(out) => to_violations(out, case),
                Err(_) => Vec::new(),
            }
        }
        Some("runner") => {
            // the plan (rt form of the kind, cycle, drivers ...) is stored in the same fields
            let Some(k) = case["kind"].as_str().and_then(RKind::parse) else { return Vec::new() };
            let Some(c) = Case::from_json(case) else { return Vec::new() };
            match check_runner(&k, &c, &entries) {
                Ok(out) => to_violations(out, case),
                Err(_) => Vec::new(),
            }
        }
        Some("config") => check_config(&entries).into_iter().collect(),
        _ => Vec::new(),
    }
}

/// The values the config loader produced must be the ones written in io.toml (otherwise
/// "configured safe value" would be ill-defined for everything below).
fn check_config(entries: &SafeEntries) -> Vec<Violation> {
    let mut v = Vec::new();
    for (i, sh) in SHAPES.iter().enumerate() {
        let want = shape_value(i, sh.safe);
        let addr_ok = IoAddress::parse(sh.addr).ok().as_ref() == Some(&entries.good[i].0);
        if entries.good[i].1 != want || !addr_ok {
            v.push(Violation {
                signature: format!("C08/config/safe-state-entry/{}", sh.tag),
                what: format!("io.toml safe_state entry {} = {} is loaded as {:?} (expected {:?})", sh.addr, sh.safe_text, entries.good[i], want),
                case: json!({"family": "config"}),
            });
        }
    }
    v
}

// ------------------------------------------------------------------------------------------
// enumeration
// ------------------------------------------------------------------------------------------

fn fault_points(all_sites: bool) -> Vec<(Kind, u32)> {
    let mut v = Vec::new();
    // simplest first: injected calls, then I/O, then program sites
    for c in 0..=3 {
        v.push((Kind::Watchdog, c));
        v.push((Kind::Sim, c));
    }
    for c in 1..=3 {
        for d in 1..=2 {
            v.push((Kind::IoRead(d), c));
            v.push((Kind::IoWrite(d), c));
        }
        v.push((Kind::Deadline, c));
        v.push((Kind::Sched, c));
        v.push((Kind::Retain, c));
    }
    if all_sites {
        for c in 1..=3 {
            for site in 0..SITES.len() as u8 {
                for flavor in 0..FLAVORS.len() as u8 {
                    v.push((Kind::Prog { site, flavor }, c));
                }
            }
        }
    } else {
        // representative subset used by the slices that sweep the configuration dimensions:
        // first statement of the first task, nested call in the last task, un-tasked program
        v.retain(|(k, c)| match k {
            Kind::Watchdog => *c == 2,
            Kind::Sim => *c == 0,
            Kind::IoRead(d) => *c == 2 && *d == 1,
            Kind::IoWrite(d) => *c == 1 && *d == 2,
            _ => *c == 2,
        });
        v.push((Kind::Prog { site: 0, flavor: 0 }, 1));
        v.push((Kind::Prog { site: 16, flavor: 1 }, 2));
        v.push((Kind::Prog { site: 8, flavor: 2 }, 3));
    }
    v
}

const DRIVER_SETS: [(u8, u8); 5] = [(1, 0), (2, 0), (2, 1), (2, 2), (1, 1)];

fn enumerate(tier: Tier, entries: &SafeEntries) -> Vec<Case> {
    let refused = tier.pick(2u8, 3u8);
    let mut seen: HashSet<Case> = HashSet::new();
    let mut cases = Vec::new();
    let mut push = |c: Case, cases: &mut Vec<Case>| {
        if let Kind::IoRead(d) | Kind::IoWrite(d) = c.kind {
            if d > c.drivers {
                return;
            }
        }
        if seen.insert(c.clone()) {
            cases.push(c);
        }
    };
    let all_masks: Vec<u8> = {
        // simplest first: by population count, then value
        let mut m: Vec<u8> = (0..=FULL_MASK).collect();
        m.sort_by_key(|x| (x.count_ones(), *x));
        m
    };
    let bads: &[u8] = if entries.bad.is_some() { &[0, 1, 2] } else { &[0] };

    // slice A: every fault point x every policy pair x every driver set, full map
    for (kind, cycle) in fault_points(true) {
        for fp in 0..3u8 {
            for wa in 0..3u8 {
                for &(drivers, fail_safe) in &DRIVER_SETS {
                    push(Case { kind: kind.clone(), cycle, fp, wa, mask: FULL_MASK, bad: 0, drivers, fail_safe, obs: true, bind: true, cold: false, refused, real: 0, rel: 0, via: 0 }, &mut cases);
                }
            }
        }
    }
    // slice B: observers x image layout x restart mode x unappliable entry
    // (quick: representative fault points; thorough: every fault point)
    let points = tier.pick(fault_points(false), fault_points(true));
    for (kind, cycle) in &points {
        for fp in 0..3u8 {
            for wa in 0..3u8 {
                for &(drivers, fail_safe) in &[(2u8, 0u8), (2, 1)] {
                    for obs in [true, false] {
                        for bind in [true, false] {
                            for cold in [false, true] {
                                for &bad in bads {
                                    push(Case { kind: kind.clone(), cycle: *cycle, fp, wa, mask: FULL_MASK, bad, drivers, fail_safe, obs, bind, cold, refused, real: 0, rel: 0, via: 0 }, &mut cases);
                                }
                            }
                        }
                    }
                }
            }
        }
    }
    // slice D: relation of the output image to the safe state at fault time x the fault kinds after
    // which a driver can hold an older image than the runtime (2 logging drivers, nobody failing
    // in the delivery).  already-safe: applying the map does not change the image, yet every driver
    // must still be handed it; partially-safe: every second configured entry is already there.
    //   program : the programs write the safe values in the faulting cycle; the publish of that
    //             cycle fails at driver 1 (driver 2 never saw the image), at driver 2, or the
    //             retain save fails after a complete publish (control: both drivers have it)
    //   io_mut  : `io_mut().write` after the last publish, then a fault that precedes the next
    //             publish (program/deadline/task-collect/io-read) or watchdog_timeout() /
    //             simulation_fault() between cycles
    //   debug   : debug I/O write queued before the faulting cycle (applied at its input latch)
    {
        let prog_sites: Vec<u8> = tier.pick(vec![0, 4, 17, 8], (0..SITES.len() as u8).collect());
        let mut pts: Vec<(Kind, u32, u8)> = Vec::new();
        for c in 0..=3u32 {
            pts.push((Kind::Watchdog, c, 2));
            pts.push((Kind::Sim, c, 2));
        }
        for c in 1..=3u32 {
            pts.push((Kind::IoWrite(1), c, 1));
            pts.push((Kind::IoWrite(2), c, 1));
            pts.push((Kind::Retain, c, 1));
            for via in [2u8, 3u8] {
                pts.push((Kind::Deadline, c, via));
                pts.push((Kind::Sched, c, via));
                for &site in &prog_sites {
                    pts.push((Kind::Prog { site, flavor: 0 }, c, via));
                }
            }
            pts.push((Kind::IoRead(1), c, 2));
            pts.push((Kind::IoRead(2), c, 2));
        }
        let singles: Vec<u8> = (0..SHAPES.len()).map(|i| 1u8 << i).collect();
        let multi: [u8; 3] = [FULL_MASK, 0b00_1001, 0b11_0110];
        for (kind, cycle, via) in &pts {
            for fp in 0..3u8 {
                for wa in 0..3u8 {
                    for rel in [1u8, 2u8] {
                        let masks: Vec<u8> = if rel == 1 { multi.iter().chain(singles.iter()).copied().collect() } else { multi.to_vec() };
                        for mask in masks {
                            push(Case { kind: kind.clone(), cycle: *cycle, fp, wa, mask, bad: 0, drivers: 2, fail_safe: 0, obs: true, bind: true, cold: false, refused, real: 0, rel, via: *via }, &mut cases);
                        }
                    }
                }
            }
        }
    }
    // slice C: every safe-state map (simplest first) x policy pairs x driver sets
    // (quick: representative fault points, 2 driver sets; thorough: every fault point, 3 driver sets)
    let sets: &[(u8, u8)] = tier.pick(&DRIVER_SETS[1..3], &DRIVER_SETS[0..3]);
    for &mask in &all_masks {
        for (kind, cycle) in &points {
            for fp in 0..3u8 {
                for wa in 0..3u8 {
                    for &(drivers, fail_safe) in sets {
                        push(Case { kind: kind.clone(), cycle: *cycle, fp, wa, mask, bad: 0, drivers, fail_safe, obs: true, bind: true, cold: false, refused, real: 0, rel: 0, via: 0 }, &mut cases);
                    }
                }
            }
        }
    }
    cases
}

fn runner_cases() -> Vec<(RKind, Case)> {
    let mut v = Vec::new();
    for k in [RKind::WdOverrun, RKind::SimCtl, RKind::IoRead, RKind::IoWrite, RKind::Prog] {
        let cycles: &[u32] = if k == RKind::WdOverrun { &[1] } else { &[1, 2, 3] };
        for &cycle in cycles {
            // fault policy restart / watchdog action restart make the thread restart and run on for
            // ever; nothing in the statement applies to that, so they are not enumerated here
            for fp in 0..2u8 {
                for wa in 0..2u8 {
                    for &(drivers, fail_safe) in &[(1u8, 0u8), (2, 0), (2, 1), (2, 2)] {
                        v.push((k.clone(), runner_plan(&k, cycle, fp, wa, drivers, fail_safe)));
                    }
                }
            }
        }
    }
    v
}

/// Cases in which one of two drivers is the shipped Modbus/TCP driver with nobody answering.
/// on_error = fault: the first exchange faults the cycle ("I/O driver error with policy fault") and
/// the whole oracle applies (`check_rt`); warn / ignore: the driver swallows the error, so no
/// fault is expected and nothing is demanded (outcome recorded only).
fn modbus_cases(refused: u8) -> Vec<(Case, &'static str)> {
    let mut v = Vec::new();
    for real in [2u8, 1u8] {
        for on_error in ["fault", "warn", "ignore"] {
            for fp in 0..3u8 {
                v.push((
                    Case { kind: Kind::IoRead(real), cycle: 1, fp, wa: 1, mask: FULL_MASK, bad: 0, drivers: 2, fail_safe: real, obs: true, bind: true, cold: false, refused, real, rel: 0, via: 0 },
                    on_error,
                ));
            }
        }
    }
    v
}

/// warn / ignore: two cycles with the dead Modbus peer; returns the outcome key
fn modbus_tolerant(c: &Case, on_error: &str, entries: &SafeEntries) -> Result<String, String> {
    let shared = Arc::new(Shared::default());
    let plan = Case { real: 0, fail_safe: 0, kind: Kind::Sim, drivers: 1, ..c.clone() };
    let mut rt = build_runtime(&plan, None)?;
    let (fp, wa) = parse_policies(c)?;
    rt.set_fault_policy(fp);
    rt.set_watchdog_policy(WatchdogPolicy { enabled: false, timeout: Duration::from_millis(1000), action: wa });
    rt.set_io_safe_state(safe_state_for(entries, c.mask, 0));
    rt.io_mut().resize(2, 16, 0);
    let mut logging = make_drivers(&plan, &shared).into_iter();
    for d in 1..=2u8 {
        if d == c.real {
            rt.add_io_driver("modbus-tcp", modbus_driver(on_error)?);
        } else if let Some(drv) = logging.next() {
            rt.add_io_driver("log", Box::new(drv));
        }
    }
    let mut results = Vec::new();
    for _ in 0..2 {
        rt.advance_time(Duration::from_millis(10));
        let r = catch(|| rt.execute_cycle()).map_err(|m| format!("execute_cycle panicked with a tolerant modbus driver: {m}"))?;
        results.push(match r {
            Ok(()) => "ok".to_string(),
            Err(e) => err_class(&e),
        });
    }
    Ok(format!("modbus/on_error={on_error}/{}/faulted={}", results.join(","), rt.faulted()))
}

pub fn run(ctx: &Ctx) -> EngineResult {
    quiet_panics();
    let mut rep = Report::new("fault_enumeration");
    let deadline = Instant::now() + StdDuration::from_secs(ctx.tier.pick(36, 840));
    let entries = safe_entries().map_err(Machinery)?;
    rep.violations_from(check_config(&entries));
    if entries.bad.is_none() {
        rep.set("unappliable_entry_family", "dropped: the config loader rejects a wildcard safe-state address");
    }

    // skeleton sanity: the fault-free skeleton runs 4 cycles without a fault and executes every POU
    {
        let c = Case { kind: Kind::Sim, cycle: 3, fp: 0, wa: 0, mask: 0, bad: 0, drivers: 1, fail_safe: 0, obs: false, bind: true, cold: false, refused: 0, real: 0, rel: 0, via: 0 };
        let shared = Arc::new(Shared::default());
        let mut rt = build_runtime(&c, None).map_err(Machinery)?;
        configure(&mut rt, &c, &entries, &shared, false, Duration::from_millis(1000)).map_err(Machinery)?;
        for i in 1..=4 {
            rt.advance_time(Duration::from_millis(10));
            if let Err(e) = rt.execute_cycle() {
                return machinery(format!("fault-free skeleton faults in cycle {i}: {e}"));
            }
        }
        let d = dump(&rt).join("\n");
        for needle in ["global cyc = Int(4)", "global nf = "] {
            if !d.contains(needle) {
                return machinery(format!("skeleton sanity: `{needle}` not found in dump:\n{d}"));
            }
        }
        // every program (n) and every FB instance incl. the task-bound one (calls) ran 4 times: 4 * 101
        if d.matches("(404)").count() != 7 {
            return machinery(format!("skeleton sanity: expected 7 execution counters at 404:\n{d}"));
        }
    }

    let cases = enumerate(ctx.tier, &entries);
    let chunk = 32usize;
    let chunks: Vec<usize> = (0..cases.len().div_ceil(chunk)).collect();
    eprintln!("[C08] {} runtime cases, {} chunks", cases.len(), chunks.len());
    struct Acc {
        viol: Vec<Violation>,
        evaluated: u64,
        unplaced: Vec<String>,
        machinery: Vec<String>,
        demanded_nonempty: u64,
        safe_checks: u64,
        refused_checks: u64,
        outcomes: HashSet<String>,
        fault_states: HashSet<u64>,
        per_kind: BTreeMap<&'static str, u64>,
    }
    let res = par_map(&chunks, ctx.threads, 8 << 20, Some(deadline), |_, &ci| {
        let mut acc = Acc {
            viol: Vec::new(),
            evaluated: 0,
            unplaced: Vec::new(),
            machinery: Vec::new(),
            demanded_nonempty: 0,
            safe_checks: 0,
            refused_checks: 0,
            outcomes: HashSet::new(),
            fault_states: HashSet::new(),
            per_kind: BTreeMap::new(),
        };
        for c in &cases[ci * chunk..((ci + 1) * chunk).min(cases.len())] {
            match check_rt(c, &entries, None) {
                Err(m) => acc.machinery.push(m),
                Ok(out) => {
                    acc.evaluated += 1;
                    if !out.placed {
                        acc.unplaced.push(format!("{}: {}", c.to_json(), out.unplaced_why));
                        continue;
                    }
                    *acc.per_kind.entry(c.kind.class()).or_insert(0) += 1;
                    if out.demanded && c.mask != 0 {
                        acc.demanded_nonempty += 1;
                    }
                    acc.safe_checks += out.safe_checks;
                    acc.refused_checks += out.refused_checks;
                    acc.outcomes.insert(out.outcome_key.clone());
                    acc.fault_states.insert(out.fault_dump_hash);
                    if !out.bad.is_empty() {
                        let mut j = c.to_json();
                        j["program"] = json!(c.program());
                        acc.viol.extend(to_violations(out, &j));
                    }
                }
            }
        }
        acc
    });
    let mut exhaustive = true;
    let mut evaluated = 0u64;
    let mut unplaced: Vec<String> = Vec::new();
    let mut mach: Vec<String> = Vec::new();
    let mut nontrivial = 0u64;
    let mut safe_checks = 0u64;
    let mut refused_checks = 0u64;
    let mut outcomes: HashSet<String> = HashSet::new();
    let mut fault_states: HashSet<u64> = HashSet::new();
    let mut per_kind: BTreeMap<&'static str, u64> = BTreeMap::new();
    let mut skipped_chunks = 0usize;
    for r in res {
        match r {
            None => {
                exhaustive = false;
                skipped_chunks += 1;
            }
            Some(acc) => {
                rep.violations_from(acc.viol);
                evaluated += acc.evaluated;
                unplaced.extend(acc.unplaced);
                mach.extend(acc.machinery);
                nontrivial += acc.demanded_nonempty;
                safe_checks += acc.safe_checks;
                refused_checks += acc.refused_checks;
                outcomes.extend(acc.outcomes);
                fault_states.extend(acc.fault_states);
                for (k, n) in acc.per_kind {
                    *per_kind.entry(k).or_insert(0) += n;
                }
            }
        }
    }
    if !exhaustive {
        rep.cap(format!("runtime family: wall cap reached, {skipped_chunks} of {} chunks of {chunk} cases not executed (cases are ordered slice A, B, D, C; C sweeps the safe-state maps simplest first)", chunks.len()));
    }
    if let Some(m) = mach.first() {
        return machinery(format!("{} cases could not be built: {m}", mach.len()));
    }
    if let Some(u) = unplaced.first() {
        return machinery(format!("{} cases in which the planned fault did not occur where planned (the harness cannot place the fault); first: {u}", unplaced.len()));
    }
    eprintln!("[C08] runtime family done at {:.1}s ({evaluated} cases)", ctx.elapsed());

    // ---- runner family (sequential per thread; a handful of cases)
    let rcases = runner_cases();
    let rres = par_map(&rcases, ctx.threads.min(8), 8 << 20, None, |_, (k, c)| (check_runner(k, c, &entries), runner_case_json(k, c)));
    let mut runner_evaluated = 0u64;
    let mut runner_demanded = 0u64;
    for r in rres {
        let Some((r, j)) = r else { return machinery("runner case not executed") };
        match r {
            Err(m) => return machinery(format!("runner case could not be built: {m}")),
            Ok(out) => {
                if !out.placed {
                    return machinery(format!("runner case {j}: planned fault not placed: {}", out.unplaced_why));
                }
                runner_evaluated += 1;
                if out.demanded {
                    runner_demanded += 1;
                }
                safe_checks += out.safe_checks;
                refused_checks += out.refused_checks;
                outcomes.insert(out.outcome_key.clone());
                rep.violations_from(to_violations(out, &j));
            }
        }
    }
    eprintln!("[C08] runner family done at {:.1}s ({runner_evaluated} cases)", ctx.elapsed());

    // ---- the shipped Modbus/TCP driver with a dead peer as one of two drivers
    let mcases = modbus_cases(ctx.tier.pick(2, 3));
    let mres = par_map(&mcases, ctx.threads, 8 << 20, None, |_, (c, on_error)| {
        if *on_error == "fault" {
            check_rt(c, &entries, None).map(|o| (Some(o), String::new()))
        } else {
            modbus_tolerant(c, on_error, &entries).map(|k| (None, k))
        }
    });
    let mut modbus_evaluated = 0u64;
    for (r, (c, on_error)) in mres.into_iter().zip(mcases.iter()) {
        let Some(r) = r else { return machinery("modbus case not executed") };
        match r {
            Err(m) => return machinery(format!("modbus case could not be run: {m}")),
            Ok((None, key)) => {
                modbus_evaluated += 1;
                outcomes.insert(key);
            }
            Ok((Some(out), _)) => {
                if !out.placed {
                    return machinery(format!("modbus case {} (on_error={on_error}): planned fault not placed: {}", c.to_json(), out.unplaced_why));
                }
                modbus_evaluated += 1;
                if out.demanded {
                    nontrivial += 1;
                }
                safe_checks += out.safe_checks;
                refused_checks += out.refused_checks;
                outcomes.insert(format!("modbus/on_error=fault/{}", out.outcome_key));
                let mut j = c.to_json();
                j["program"] = json!(c.program());
                rep.violations_from(to_violations(out, &j));
            }
        }
    }
    eprintln!("[C08] modbus family done at {:.1}s ({modbus_evaluated} cases)", ctx.elapsed());

    if evaluated == 0 || nontrivial < 2 || safe_checks == 0 || refused_checks == 0 {
        return machinery(format!("vacuous exploration: evaluated={evaluated} nontrivial={nontrivial} safe_checks={safe_checks} refused_checks={refused_checks}"));
    }
    if exhaustive && per_kind.len() < 8 {
        return machinery(format!("only {} of 8 fault kinds were placed: {per_kind:?}", per_kind.len()));
    }
    if exhaustive && fault_states.len() < SITES.len() {
        return machinery(format!("only {} distinct resource states at fault time for {} statement positions", fault_states.len(), SITES.len()));
    }

    rep.set("evaluations", evaluated + runner_evaluated + modbus_evaluated);
    rep.set("modbus_cases", modbus_evaluated);
    rep.set("distinct_nontrivial", nontrivial + runner_demanded);
    rep.set("rule", "runtime family: union of four fully enumerated products: A = every fault point (8 fault kinds; program faults = 20 statement positions x {div-by-zero, index out of bounds, NULL deref} x cycle 1..3; driver/deadline/task-collect/retain faults x cycle 1..3; watchdog_timeout()/simulation_fault() after 0..3 cycles) x fault policy x watchdog action x 5 driver sets (1|2 logging drivers, optionally one failing from the safe-state delivery on), full safe-state map; B = fault points x policies x {2 drivers, 2 drivers with #1 failing} x observers on/off x outputs bound/unbound x warm/cold restart x unappliable wildcard entry none/first/last; D = image relation to the safe state at fault time {already-safe, partially-safe} (A-C: opposite) set by {the programs in the faulting cycle, io_mut().write after the last publish, a queued debug I/O write} x the fault kinds after which a driver can hold an older image (publish error of driver 1|2 of 2, retain-save error, and program/deadline/task-collect/io-read faults resp. watchdog_timeout()/simulation_fault() after such a write) x policies x 9 (already-safe) / 3 (partially-safe) maps, 2 drivers; C = fault points x policies x all 64 subsets of the 6 address shapes x driver sets (quick: B and C on 11 representative fault points; thorough: all 209). Every case builds a fresh Runtime from generated ST, runs it to the fault, through 2 (quick) / 3 (thorough) refused cycle requests, a restart, one more cycle and a second fault. runner family: ResourceRunner::spawn on a step clock for 5 fault kinds incl. the real watchdog and a scripted simulation fault. modbus family: the shipped ModbusTcpDriver (built from io.toml through the driver registry, peer = closed loopback port) as driver 1 or 2 of 2 x on_error fault|warn|ignore x fault policy. Cases are distinct tuples by construction (de-duplicated by hash); distinct_nontrivial = cases in which the planned fault occurred where planned, the governing policy demands the safe state and the map is non-empty (each compares >= 1 (address,value) in io() and in each driver's last image).");
    rep.set("runtime_cases", evaluated);
    rep.set("runner_cases", runner_evaluated);
    rep.set("cases_per_fault_kind", json!(per_kind));
    rep.set("statement_positions", SITES.len() as u64);
    rep.set("safe_value_comparisons", safe_checks);
    rep.set("refused_cycle_requests_checked", refused_checks);
    rep.set("distinct_outcomes", outcomes.len() as u64);
    rep.set("distinct_resource_states_at_fault", fault_states.len() as u64);
    rep.set("refused_requests_per_case", ctx.tier.pick(2u64, 3u64));
    rep.set("exhaustive", exhaustive);
    let mut o: Vec<&String> = outcomes.iter().collect();
    o.sort();
    rep.set("outcomes", json!(o));
    for idx in [0usize, cases.len() / 3, cases.len() / 2, cases.len() - 1] {
        rep.sample(cases[idx].to_json());
    }
    rep.sample(runner_case_json(&rcases[0].0, &rcases[0].1));
    rep.assume("a driver error is a driver whose read_inputs/write_outputs returns Err (on_error = fault); the on_error mapping is exercised only for the Modbus/TCP driver with a refused connection (warn/ignore: outcome recorded, nothing demanded)");
    rep.assume("safe state is demanded only where both readings of the statement agree: fault policy safe_halt for non-watchdog faults, watchdog action halt/safe_halt for watchdog timeouts");
    rep.assume("images are decoded with IoInterface::read (byte order is property C07's subject)");
    rep.assume("runner family leaves out fault policy / watchdog action `restart` (the thread restarts and runs on; no clause of the statement applies)");
    Ok(rep)
}

pub fn workers() -> Vec<(&'static str, WorkerFn)> {
    Vec::new()
}
