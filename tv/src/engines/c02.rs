//! C02 — engine over the shared ST-core corpus (see `stcore::judge`).

use crate::fw::*;
use crate::iso::WorkerFn;
use serde_json::Value;

pub fn run(ctx: &Ctx) -> EngineResult {
    crate::stcore::judge::run_engine(ctx, "C02")
}

pub fn check_case(case: &Value) -> Vec<Violation> {
    crate::stcore::judge::replay("C02", case)
}

pub fn workers() -> Vec<(&'static str, WorkerFn)> {
    Vec::new()
}
