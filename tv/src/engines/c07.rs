//! C07 — process image: inputs latched once per cycle, outputs published once at the end
//! (core X1: bounded-exhaustive enumeration of binding sets x driver input streams, every case
//! compiled and executed on the real runtime with instrumented `IoDriver`s).
//!
//! Families (all enumerated completely, simplest first):
//! * `api`     — `IoInterface::write/read` for every address (area x size x offset x bit) on a
//!               pre-filled image, against the reference image model below.
//! * `single`  — one `AT` binding, every address x every declared type of the right width,
//!               in four binding sites (program-local, VAR_GLOBAL + two tasks + background
//!               program, `AT %I*` + VAR_CONFIG, FB-local), 1 or 2 drivers, with/without a
//!               division by zero in the middle of the program.
//! * `partial` — IEC Table 17 partial access (`.%Xn .%Bn .%Wn .%Dn`) on a bound bit-string
//!               variable: the image bit/byte it lands in (little-endian, bit n of byte b).
//! * `tri`     — the same address bound in %I, %Q and %M at once (areas are independent).
//! * `pair`    — two bindings in one area whose byte spans overlap or touch.
//! * `short-image` — images of 0/1/2/3/5/7 bytes: cells inside / crossing the end / beyond it, via
//!               the raw API and via a bound variable with a driver filling the short image: a read
//!               decodes the existing bytes (missing bytes 0), a write grows the image exactly to
//!               the cell's end (`short-image/read:%IW:crosses-end`).
//! Extra dimensions: binding site `alltasked` (every program task-bound, INTERVAL 100 ms, cycles at
//! t = 0/100/125/225 ms: two cycles in which no task is due; an output-bound variable is changed
//! through the storage API before them; never a debugger attached) — every cycle, idle or not, must
//! show [read.., write..] and publish encode(variables). For %Q/%M singles and bit-sharing pairs:
//! value schedule (in cycles 2 and 3 each variable keeps or changes its final value) x external
//! `IoInterface::write` of a different pattern into the bound spans before cycles 2 and 3.
//! Faulting runs of %Q singles: fault policy {Halt, SafeHalt, Restart} (`Runtime::set_fault_policy`)
//! x safe-state entries {none, the bound address, an entry covering it only partly}
//! (`Runtime::set_io_safe_state`) x the division by zero placed after {none, some, all} output
//! assignments of the cycle; %Q pairs under SafeHalt with a safe entry for the first binding only.
//! Fault kinds beyond the division by zero: a bound %Q/%M variable holding a value that cannot be
//! encoded when the outputs are published (wrong tag / out of range, stored through the storage
//! API into the source variable of the late assignment — the same state the known un-narrowed
//! arithmetic of C02/C03 produces), for the first or the second of two bindings; driver 0 failing
//! in read_inputs / in write_outputs. Cleared faults: after the faulting cycle the fault is cleared
//! by clear_fault(), restart(Warm) or restart(Cold) and two more cycles run under the FULL oracle
//! (calls, latch, publish, locality); findings there are `after-fault/<kind>:<clearing>:<clause>`.
//! Fault clause: in every image handed to a driver in/after the faulted cycle, and in
//! `io().outputs()` afterwards, the bits of a bound span that no safe-state entry covers must not
//! carry a value the program assigned in the faulted cycle (whether the safe-state delivery itself
//! must happen is C08's business; the driver call is accepted). Signatures
//! `fault-publish/fault-cycle` (Halt) and `fault-publish/fault-cycle:safe_halt:%Q:no-safe-entry`
//! / `:partial-safe-entry` (`:io-image` if only the runtime's own image is polluted).
//!
//! What is NOT in the alphabet (expected behaviour not derivable from statement + docs/specs):
//! * TIME/DATE/TOD/DT/LTIME/LDATE/LTOD/LDT bindings: the compiler accepts them but no encoding is
//!   documented, and on the current tree every cycle ends in `TypeMismatch` inside the exchange
//!   (a faulted cycle publishes nothing, which the statement allows). They are probed once and the
//!   outcome is recorded in the evidence (`non_alphabet_types`), never reported.
//! * size prefix that does not match the declared type (`x AT %QB0 : DINT`): the runtime lets the
//!   declared type decide the extent (the repository's own tests bind structs at `%QB6`), so
//!   "the bytes the address denotes" is read as location + extent of the declared type.
//! * arrays/structs at an address, hierarchical addresses, addresses beyond the image size.
//! * direct addresses used as expressions (`x := %IW0;`): the runtime's lowering has no case for
//!   them, a program reaches the image only through `AT` variables (and hosts through the API).
//! * value type tags: C03's business. All comparisons here are on bit patterns; a value with a
//!   drifted tag but the right numeric value is accepted.
//!
//! Ambiguities resolved by accepting every reasonable reading:
//! * two output (or marker) bindings with overlapping spans and different final values cannot both
//!   be encoded; the published image may be either serialisation (A then B, or B then A), but the
//!   same one in every cycle of a run: the bytes must be a function of the final values, not of
//!   which variable happened to change (`publish/%Q:order-flip`).
//! * "final value" of an output-bound variable = the value found in the variable after the cycle
//!   (no assumption on task order, that is C06's business); the harness only insists (as a
//!   machinery check) that all three program segments ran.
//! * in a faulted cycle a driver may be given outputs as long as no bound span carries a value the
//!   program computed in that cycle.
//! * a fault raised by the exchange itself (coercion error in latch/publish) makes the cycle a
//!   faulted cycle, which may publish nothing: counted (`exchange_faults_not_reported`, reported as
//!   a cap), never a violation; if that makes a whole type/area unchecked the engine fails itself.
//!
//! Signatures name the violated clause and the diagnosed cause, never addresses or values:
//! `calls/reads=2:writes=1`, `calls/order:R0R1W1W0`, `latch/%I:stale:later-call:last`,
//! `latch/W:byte-order`, `latch/B:SINT:decode`, `latch/X:mismatch` (one bit cannot tell causes
//! apart), `publish/%Q:stale:mid`, `publish/W:byte-order`, `publish/D:REAL:encode`,
//! `publish/overlap:B+W`, `locality/X:same-byte`, `locality/D:after`, `fault-publish/fault-cycle`,
//! `partial/write:%B@D`, `api/write:W:byte-order`. A pair/tri case is reported for the read or
//! write side only if no member size already failed that side alone (minimal configuration).

use crate::fw::*;
use crate::iso::WorkerFn;
use crate::par::par_map;
use serde_json::{json, Value as J};
use std::collections::{BTreeMap, HashSet};
use std::sync::{Arc, Mutex};
use std::time::{Duration as StdDuration, Instant};
use trust_runtime::error::RuntimeError;
use trust_runtime::harness::TestHarness;
use trust_runtime::io::{IoAddress, IoDriver, IoSafeState};
use trust_runtime::watchdog::FaultPolicy;
use trust_runtime::memory::InstanceId;
use trust_runtime::value::{Duration, Value};
use trust_runtime::{RestartMode, Runtime};

const IMG: usize = 18;
const PREFILL: u8 = 0xA5;
/// with two drivers, driver 0 supplies input bytes [0,SPLIT), driver 1 the rest
const SPLIT: usize = 4;
const OFFSETS: [usize; 5] = [0, 1, 2, 3, 7];

// ------------------------------------------------------------------------------------------
// alphabet
// ------------------------------------------------------------------------------------------

#[derive(Clone, Copy, PartialEq, Eq, Debug, Hash, PartialOrd, Ord)]
enum Area {
    I,
    Q,
    M,
}

impl Area {
    fn ch(self) -> char {
        match self {
            Area::I => 'I',
            Area::Q => 'Q',
            Area::M => 'M',
        }
    }
    fn reads(self) -> bool {
        matches!(self, Area::I | Area::M)
    }
    fn writes(self) -> bool {
        matches!(self, Area::Q | Area::M)
    }
}

const AREAS: [Area; 3] = [Area::I, Area::Q, Area::M];

#[derive(Clone, Copy, PartialEq, Eq, Debug, Hash, PartialOrd, Ord)]
enum Size {
    X,
    B,
    W,
    D,
    L,
}

impl Size {
    fn ch(self) -> char {
        match self {
            Size::X => 'X',
            Size::B => 'B',
            Size::W => 'W',
            Size::D => 'D',
            Size::L => 'L',
        }
    }
    fn bits(self) -> usize {
        match self {
            Size::X => 1,
            Size::B => 8,
            Size::W => 16,
            Size::D => 32,
            Size::L => 64,
        }
    }
    fn mask(self) -> u64 {
        if self.bits() == 64 {
            u64::MAX
        } else {
            (1u64 << self.bits()) - 1
        }
    }
}

const SIZES: [Size; 5] = [Size::X, Size::B, Size::W, Size::D, Size::L];

#[derive(Clone, Copy, PartialEq, Eq, Debug, Hash)]
struct Addr {
    area: Area,
    size: Size,
    byte: usize,
    bit: u8,
}

impl Addr {
    fn text(&self) -> String {
        match self.size {
            Size::X => format!("%{}X{}.{}", self.area.ch(), self.byte, self.bit),
            s => format!("%{}{}{}", self.area.ch(), s.ch(), self.byte),
        }
    }
    fn parse(t: &str) -> Option<Addr> {
        let b = t.as_bytes();
        if b.len() < 4 || b[0] != b'%' {
            return None;
        }
        let area = match b[1] {
            b'I' => Area::I,
            b'Q' => Area::Q,
            b'M' => Area::M,
            _ => return None,
        };
        let size = match b[2] {
            b'X' => Size::X,
            b'B' => Size::B,
            b'W' => Size::W,
            b'D' => Size::D,
            b'L' => Size::L,
            _ => return None,
        };
        let rest = &t[3..];
        let (byte, bit) = if size == Size::X {
            let (a, c) = rest.split_once('.')?;
            (a.parse().ok()?, c.parse().ok()?)
        } else {
            (rest.parse().ok()?, 0u8)
        };
        let a = Addr { area, size, byte, bit };
        if bit > 7 || a.byte_span().1 > IMG {
            return None;
        }
        Some(a)
    }
    /// [start, end) in image bit numbering (bit n of byte b = 8b+n)
    fn bit_span(&self) -> (usize, usize) {
        let s = self.byte * 8 + self.bit as usize;
        (s, s + self.size.bits())
    }
    fn byte_span(&self) -> (usize, usize) {
        match self.size {
            Size::X => (self.byte, self.byte + 1),
            s => (self.byte, self.byte + s.bits() / 8),
        }
    }
    /// cause feature used in signatures: the size only (the image code is the same for all areas)
    fn tag(&self) -> String {
        self.size.ch().to_string()
    }
}

fn addresses(area: Area) -> Vec<Addr> {
    let mut v = Vec::new();
    for size in SIZES {
        for byte in OFFSETS {
            if size == Size::X {
                for bit in 0..8u8 {
                    v.push(Addr { area, size, byte, bit });
                }
            } else {
                v.push(Addr { area, size, byte, bit: 0 });
            }
        }
    }
    v
}

#[derive(Clone, Copy, PartialEq, Eq, Debug)]
enum Kind {
    Bool,
    Signed,
    Unsigned,
    Bits,
    Char,
    Real,
}

#[derive(Debug)]
struct Ty {
    name: &'static str,
    size: Size,
    kind: Kind,
}

/// every elementary type whose I/O encoding follows from "little-endian" alone
static TYPES: [Ty; 17] = [
    Ty { name: "BOOL", size: Size::X, kind: Kind::Bool },
    Ty { name: "BYTE", size: Size::B, kind: Kind::Bits },
    Ty { name: "SINT", size: Size::B, kind: Kind::Signed },
    Ty { name: "USINT", size: Size::B, kind: Kind::Unsigned },
    Ty { name: "CHAR", size: Size::B, kind: Kind::Char },
    Ty { name: "WORD", size: Size::W, kind: Kind::Bits },
    Ty { name: "INT", size: Size::W, kind: Kind::Signed },
    Ty { name: "UINT", size: Size::W, kind: Kind::Unsigned },
    Ty { name: "WCHAR", size: Size::W, kind: Kind::Char },
    Ty { name: "DWORD", size: Size::D, kind: Kind::Bits },
    Ty { name: "DINT", size: Size::D, kind: Kind::Signed },
    Ty { name: "UDINT", size: Size::D, kind: Kind::Unsigned },
    Ty { name: "REAL", size: Size::D, kind: Kind::Real },
    Ty { name: "LWORD", size: Size::L, kind: Kind::Bits },
    Ty { name: "LINT", size: Size::L, kind: Kind::Signed },
    Ty { name: "ULINT", size: Size::L, kind: Kind::Unsigned },
    Ty { name: "LREAL", size: Size::L, kind: Kind::Real },
];

/// accepted by the compiler as bindings, but outside the alphabet (see module comment)
const NON_ALPHABET_TYPES: [(&str, char); 8] = [
    ("TIME", 'D'),
    ("DATE", 'D'),
    ("TOD", 'D'),
    ("DT", 'D'),
    ("LTIME", 'L'),
    ("LDATE", 'L'),
    ("LTOD", 'L'),
    ("LDT", 'L'),
];

fn ty_by_name(n: &str) -> Option<&'static Ty> {
    TYPES.iter().find(|t| t.name == n)
}

fn types_of(size: Size) -> Vec<&'static Ty> {
    TYPES.iter().filter(|t| t.size == size).collect()
}

fn bits_type(size: Size) -> &'static Ty {
    TYPES.iter().find(|t| t.size == size && matches!(t.kind, Kind::Bits | Kind::Bool)).unwrap()
}

fn mk_value(ty: &Ty, bits: u64) -> Value {
    let bits = bits & ty.size.mask();
    match (ty.kind, ty.size) {
        (Kind::Bool, _) => Value::Bool(bits & 1 == 1),
        (Kind::Signed, Size::B) => Value::SInt(bits as u8 as i8),
        (Kind::Signed, Size::W) => Value::Int(bits as u16 as i16),
        (Kind::Signed, Size::D) => Value::DInt(bits as u32 as i32),
        (Kind::Signed, _) => Value::LInt(bits as i64),
        (Kind::Unsigned, Size::B) => Value::USInt(bits as u8),
        (Kind::Unsigned, Size::W) => Value::UInt(bits as u16),
        (Kind::Unsigned, Size::D) => Value::UDInt(bits as u32),
        (Kind::Unsigned, _) => Value::ULInt(bits),
        (Kind::Bits, Size::B) => Value::Byte(bits as u8),
        (Kind::Bits, Size::W) => Value::Word(bits as u16),
        (Kind::Bits, Size::D) => Value::DWord(bits as u32),
        (Kind::Bits, _) => Value::LWord(bits),
        (Kind::Char, Size::B) => Value::Char(bits as u8),
        (Kind::Char, _) => Value::WChar(bits as u16),
        (Kind::Real, Size::D) => Value::Real(f32::from_bits(bits as u32)),
        (Kind::Real, _) => Value::LReal(f64::from_bits(bits)),
    }
}

/// Bit pattern of a runtime value as seen through a variable of type `ty`. Deliberately blind to
/// the tag (C03): any integer-like variant is taken by its numeric value in two's complement.
fn value_bits(ty: &Ty, v: &Value) -> Option<u64> {
    let num: Option<i128> = match v {
        Value::SInt(x) => Some(*x as i128),
        Value::Int(x) => Some(*x as i128),
        Value::DInt(x) => Some(*x as i128),
        Value::LInt(x) => Some(*x as i128),
        Value::USInt(x) => Some(*x as i128),
        Value::UInt(x) => Some(*x as i128),
        Value::UDInt(x) => Some(*x as i128),
        Value::ULInt(x) => Some(*x as i128),
        Value::Byte(x) => Some(*x as i128),
        Value::Word(x) => Some(*x as i128),
        Value::DWord(x) => Some(*x as i128),
        Value::LWord(x) => Some(*x as i128),
        Value::Char(x) => Some(*x as i128),
        Value::WChar(x) => Some(*x as i128),
        _ => None,
    };
    match ty.kind {
        Kind::Bool => match v {
            Value::Bool(b) => Some(*b as u64),
            _ => None,
        },
        Kind::Real => match (v, ty.size) {
            (Value::Real(f), Size::D) => Some(f.to_bits() as u64),
            (Value::LReal(d), Size::D) => Some((*d as f32).to_bits() as u64),
            (Value::LReal(d), _) => Some(d.to_bits()),
            (Value::Real(f), _) => Some((*f as f64).to_bits()),
            _ => None,
        },
        _ => num.map(|n| (n as u64) & ty.size.mask()),
    }
}

// ------------------------------------------------------------------------------------------
// reference image model (little-endian, bit n of byte b) — written from the statement only
// ------------------------------------------------------------------------------------------

fn img_get(img: &[u8], a: &Addr) -> u64 {
    match a.size {
        Size::X => ((img[a.byte] >> a.bit) & 1) as u64,
        s => {
            let mut v = 0u64;
            for k in 0..s.bits() / 8 {
                v |= (img[a.byte + k] as u64) << (8 * k);
            }
            v
        }
    }
}

fn img_put(img: &mut [u8], a: &Addr, v: u64) {
    match a.size {
        Size::X => {
            if v & 1 == 1 {
                img[a.byte] |= 1 << a.bit;
            } else {
                img[a.byte] &= !(1 << a.bit);
            }
        }
        s => {
            for k in 0..s.bits() / 8 {
                img[a.byte + k] = (v >> (8 * k)) as u8;
            }
        }
    }
}

fn bit_at(img: &[u8], pos: usize) -> bool {
    (img[pos / 8] >> (pos % 8)) & 1 == 1
}

fn rev_bytes(size: Size, v: u64) -> u64 {
    match size {
        Size::W => (v as u16).swap_bytes() as u64,
        Size::D => (v as u32).swap_bytes() as u64,
        Size::L => v.swap_bytes(),
        _ => v,
    }
}

fn hex(img: &[u8]) -> String {
    img.iter().map(|b| format!("{b:02x}")).collect::<Vec<_>>().join(" ")
}

// ------------------------------------------------------------------------------------------
// recognisable data
// ------------------------------------------------------------------------------------------

/// byte `i` of the image driver `drv` supplies on its `n`-th call: neighbouring bytes differ,
/// every bit flips between consecutive calls, calls two apart differ in every byte.
fn in_pat(drv: usize, n: u32, i: usize) -> u8 {
    let base = (i as u8)
        .wrapping_mul(0x1D)
        .wrapping_add(0x3B)
        .wrapping_add(((n / 2) as u8).wrapping_mul(0x47))
        .wrapping_add((drv as u8).wrapping_mul(0x65));
    if n % 2 == 1 {
        !base
    } else {
        base
    }
}

/// marker image poked by the harness before cycle `c` (stands for an external writer of %M)
fn mem_pat(c: usize, i: usize) -> u8 {
    let base = (i as u8)
        .wrapping_mul(0x2B)
        .wrapping_add(0x17)
        .wrapping_add(((c / 2) as u8).wrapping_mul(0x59));
    if c % 2 == 1 {
        !base
    } else {
        base
    }
}

/// value written by the program to binding `k` in cycle `c` in phase 0 (early), 1 (mid), 2 (late);
/// phase 3 = value the harness stores into an output-bound variable before an idle cycle.
/// `ec` is the cycle whose late value is (re)used as this cycle's late value ("keep" schedules).
fn src_bits(ty: &Ty, k: usize, c: usize, phase: usize, fault_cycle: usize, ec: usize) -> u64 {
    if ty.kind == Kind::Bool {
        // late alternates per (effective) cycle; mid differs from late (premature publication is
        // visible); in the fault cycle mid differs from the last published value instead
        let late = |c: usize| (c + k) % 2 == 1;
        let mid = if c == fault_cycle { !late(c.wrapping_sub(1)) } else { !late(ec) };
        let b = match phase {
            0 => !mid,
            1 => mid,
            _ => late(ec),
        };
        return b as u64;
    }
    let c = if phase == 2 { ec } else { c };
    let off = (phase as u8)
        .wrapping_mul(0x07)
        .wrapping_add((c as u8).wrapping_mul(0x35))
        .wrapping_add((k as u8).wrapping_mul(0x80))
        .wrapping_add(0x02);
    let mut v = 0u64;
    for j in 0..ty.size.bits() / 8 {
        let b = ((j as u8 + 1).wrapping_mul(0x11)).wrapping_add(off);
        v |= (b as u64) << (8 * j);
    }
    v
}

// ------------------------------------------------------------------------------------------
// cases
// ------------------------------------------------------------------------------------------

#[derive(Clone, Copy, PartialEq, Eq, Debug, Hash)]
enum Shape {
    Local,
    Tasks,
    VarCfg,
    Fb,
    /// every program bound to a task (no background program); INTERVAL 100 ms, some cycles idle
    AllTasked,
}

impl Shape {
    /// (milliseconds the clock advances before the cycle, cycle is idle = no task due)
    fn cycles(self) -> &'static [(i64, bool)] {
        match self {
            Shape::AllTasked => &[(0, true), (100, false), (25, true), (100, false)],
            _ => &[(10, false), (10, false), (10, false)],
        }
    }
    fn name(self) -> &'static str {
        match self {
            Shape::Local => "local",
            Shape::Tasks => "tasks",
            Shape::VarCfg => "varcfg",
            Shape::Fb => "fb",
            Shape::AllTasked => "alltasked",
        }
    }
    fn parse(s: &str) -> Option<Shape> {
        Some(match s {
            "local" => Shape::Local,
            "tasks" => Shape::Tasks,
            "varcfg" => Shape::VarCfg,
            "fb" => Shape::Fb,
            "alltasked" => Shape::AllTasked,
            _ => return None,
        })
    }
}

#[derive(Clone, Debug)]
struct Bind {
    addr: Addr,
    ty: &'static Ty,
}

#[derive(Clone, Copy, Debug, PartialEq, Eq)]
struct Partial {
    /// 'X' | 'B' | 'W' | 'D'
    kind: char,
    idx: usize,
}

impl Partial {
    fn size(&self) -> Size {
        match self.kind {
            'X' => Size::X,
            'B' => Size::B,
            'W' => Size::W,
            _ => Size::D,
        }
    }
    /// address of the accessed part inside the image, given the address of the whole variable
    fn sub_addr(&self, whole: &Addr) -> Addr {
        let s = self.size();
        let start = whole.byte * 8 + self.idx * s.bits();
        Addr { area: whole.area, size: s, byte: start / 8, bit: (start % 8) as u8 }
    }
}

#[derive(Clone, Debug)]
struct Case {
    family: &'static str,
    shape: Shape,
    drivers: usize,
    /// 0 = no fault; otherwise the (1-based) cycle in which the program divides by zero
    fault_cycle: usize,
    binds: Vec<Bind>,
    partial: Option<Partial>,
    /// value schedule of bindings 0 and 1: bit (c-2)*2+k set = in cycle c (2 or 3) variable k
    /// ends the cycle with the same final value as in the previous cycle
    sched: u8,
    /// before cycles 2 and 3 something else writes a different pattern into every bound %Q/%M
    /// span through `IoInterface::write`
    ext: bool,
    /// fault policy of the runtime: 0 = Halt (default), 1 = SafeHalt, 2 = Restart
    policy: u8,
    /// configured safe-state entries (address, bit pattern), applied by the runtime under SafeHalt
    safe: Vec<(Addr, u64)>,
    /// where in the faulting cycle the division by zero sits: 0 = before any output assignment,
    /// 1 = after the early and mid assignments (some), 2 = after the late ones (all)
    fault_pos: u8,
    /// what makes cycle `fault_cycle` fail: 0 = division by zero in the program, 1 = the first /
    /// 2 = the second output-or-marker-bound variable holds a value that cannot be encoded into its
    /// cell when the outputs are published, 3 = driver 0 fails in read_inputs, 4 = in write_outputs
    fault_kind: u8,
    /// how the fault is cleared before two more fully checked cycles: 0 = not at all,
    /// 1 = clear_fault(), 2 = restart(Warm), 3 = restart(Cold)
    clear: u8,
}

const KIND_NAMES: [&str; 5] = ["program", "output-phase", "output-phase", "driver-read", "driver-write"];
const CLEAR_NAMES: [&str; 4] = ["none", "clear-fault", "warm-restart", "cold-restart"];

/// a value of the wrong tag / out of range for `ty` that `coerce_to_io` cannot encode; None for
/// types whose encode step accepts anything numeric (64-bit integers, REAL, LREAL)
fn unencodable(ty: &Ty) -> Option<Value> {
    match (ty.kind, ty.size) {
        (Kind::Real, _) | (Kind::Signed, Size::L) | (Kind::Unsigned, Size::L) => None,
        _ => Some(Value::LInt(0x7FFF_FFFF_FFFF)),
    }
}

const POLICY_NAMES: [&str; 3] = ["halt", "safe_halt", "restart"];

/// recognisable safe value for an address (bits covered by a safe entry are exempt from the fault
/// clause, so a coincidence with a program value cannot matter)
fn safe_bits(a: &Addr) -> u64 {
    if a.size == Size::X {
        return (a.bit % 2 == 0) as u64;
    }
    let mut v = 0u64;
    for j in 0..a.size.bits() / 8 {
        v |= ((0xC3u8.wrapping_add((j as u8).wrapping_mul(0x0B))) as u64) << (8 * j);
    }
    v
}

impl Case {
    fn plain(family: &'static str, shape: Shape, drivers: usize, fault_cycle: usize, binds: Vec<Bind>) -> Case {
        Case { family, shape, drivers, fault_cycle, binds, partial: None, sched: 0, ext: false, policy: 0, safe: Vec::new(), fault_pos: 1, fault_kind: 0, clear: 0 }
    }
    /// index of the binding that is given the unencodable value (fault kinds 1 and 2)
    fn bad_binding(&self) -> Option<usize> {
        let nth = match self.fault_kind {
            1 => 0,
            2 => 1,
            _ => return None,
        };
        self.binds.iter().enumerate().filter(|(_, b)| b.addr.area.writes()).map(|(k, _)| k).nth(nth)
    }
    fn eff_cycle(&self, k: usize, c: usize) -> usize {
        let mut e = c;
        while (2..=3).contains(&e) && k < 2 && (self.sched >> ((e - 2) * 2 + k)) & 1 == 1 {
            e -= 1;
        }
        e
    }
    fn val(&self, k: usize, c: usize, phase: usize) -> u64 {
        src_bits(self.binds[k].ty, k, c, phase, self.fault_cycle, self.eff_cycle(k, c))
    }
    fn to_json(&self) -> J {
        let mut j = json!({
            "family": self.family,
            "shape": self.shape.name(),
            "drivers": self.drivers,
            "fault_cycle": self.fault_cycle,
            "binds": self.binds.iter().map(|b| json!({"addr": b.addr.text(), "type": b.ty.name})).collect::<Vec<_>>(),
        });
        if let Some(p) = &self.partial {
            j["partial"] = json!({"kind": p.kind.to_string(), "idx": p.idx});
        }
        if self.sched != 0 || self.ext {
            j["sched"] = json!(self.sched);
            j["ext"] = json!(self.ext);
        }
        if self.policy != 0 || !self.safe.is_empty() || self.fault_pos != 1 {
            j["policy"] = json!(POLICY_NAMES[self.policy as usize % 3]);
            j["safe"] = json!(self.safe.iter().map(|(a, v)| json!({"addr": a.text(), "bits": v})).collect::<Vec<_>>());
            j["fault_pos"] = json!(self.fault_pos);
        }
        if self.fault_kind != 0 || self.clear != 0 {
            j["fault_kind"] = json!(self.fault_kind);
            j["clear"] = json!(CLEAR_NAMES[self.clear as usize % 4]);
        }
        j
    }
    fn from_json(j: &J) -> Option<Case> {
        let family = match j["family"].as_str()? {
            "single" => "single",
            "pair" => "pair",
            "tri" => "tri",
            "partial" => "partial",
            _ => return None,
        };
        let mut binds = Vec::new();
        for b in j["binds"].as_array()? {
            binds.push(Bind { addr: Addr::parse(b["addr"].as_str()?)?, ty: ty_by_name(b["type"].as_str()?)? });
        }
        let partial = match j.get("partial") {
            Some(p) if p.is_object() => Some(Partial {
                kind: p["kind"].as_str()?.chars().next()?,
                idx: p["idx"].as_u64()? as usize,
            }),
            _ => None,
        };
        Some(Case {
            family,
            shape: Shape::parse(j["shape"].as_str()?)?,
            drivers: j["drivers"].as_u64()? as usize,
            fault_cycle: j["fault_cycle"].as_u64()? as usize,
            binds,
            partial,
            sched: j["sched"].as_u64().unwrap_or(0) as u8,
            ext: j["ext"].as_bool().unwrap_or(false),
            policy: POLICY_NAMES.iter().position(|n| Some(*n) == j["policy"].as_str()).unwrap_or(0) as u8,
            safe: j["safe"]
                .as_array()
                .map(|a| a.iter().filter_map(|e| Some((Addr::parse(e["addr"].as_str()?)?, e["bits"].as_u64()?))).collect())
                .unwrap_or_default(),
            fault_pos: j["fault_pos"].as_u64().unwrap_or(1) as u8,
            fault_kind: j["fault_kind"].as_u64().unwrap_or(0) as u8,
            clear: CLEAR_NAMES.iter().position(|n| Some(*n) == j["clear"].as_str()).unwrap_or(0) as u8,
        })
    }
}

// ------------------------------------------------------------------------------------------
// program generator
// ------------------------------------------------------------------------------------------

struct Var {
    name: String,
    ty: String,
    at: Option<String>,
}

struct Prog {
    vars: Vec<Var>,
    /// statements of the three segments with the variables each uses
    seg: [Vec<String>; 3],
    uses: [Vec<String>; 3],
}

impl Prog {
    fn var(&mut self, name: &str, ty: &str, at: Option<String>) {
        self.vars.push(Var { name: name.to_string(), ty: ty.to_string(), at });
    }
    fn stmt(&mut self, seg: usize, text: String, uses: &[&str]) {
        self.seg[seg].push(text);
        for u in uses {
            if !self.uses[seg].iter().any(|x| x == u) {
                self.uses[seg].push(u.to_string());
            }
        }
    }
}

fn build_prog(case: &Case) -> Prog {
    let mut p = Prog { vars: Vec::new(), seg: Default::default(), uses: Default::default() };
    for (k, b) in case.binds.iter().enumerate() {
        let t = b.ty.name;
        p.var(&format!("b{k}"), t, Some(b.addr.text()));
        if b.addr.area.reads() {
            p.var(&format!("ra{k}"), t, None);
        }
        if b.addr.area == Area::I {
            p.var(&format!("rm{k}"), t, None);
            p.var(&format!("rz{k}"), t, None);
        }
        if b.addr.area.writes() {
            p.var(&format!("se{k}"), t, None);
            p.var(&format!("sm{k}"), t, None);
            p.var(&format!("sl{k}"), t, None);
        }
    }
    if let Some(pa) = &case.partial {
        let pt = bits_type(pa.size()).name;
        p.var("pv", pt, None);
    }
    for n in ["stamp", "ma", "mb", "mc", "zq", "zz"] {
        p.var(n, "INT", None);
    }
    p.var("trip", "BOOL", None);

    // segment A: first statements read the inputs, then the early output writes
    for (k, b) in case.binds.iter().enumerate() {
        if b.addr.area.reads() && case.partial.is_none() {
            p.stmt(0, format!("ra{k} := b{k};"), &[&format!("ra{k}"), &format!("b{k}")]);
        }
    }
    let trip = "IF trip THEN zq := zq / zz; END_IF;";
    if case.fault_pos == 0 {
        p.stmt(0, trip.into(), &["trip", "zq", "zz"]);
    }
    for (k, b) in case.binds.iter().enumerate() {
        if b.addr.area.writes() {
            p.stmt(0, format!("b{k} := se{k};"), &[&format!("b{k}"), &format!("se{k}")]);
        }
    }
    p.stmt(0, "ma := stamp;".into(), &["ma", "stamp"]);
    // segment B: middle reads and writes, then the (optional) fault
    for (k, b) in case.binds.iter().enumerate() {
        if b.addr.area == Area::I && case.partial.is_none() {
            p.stmt(1, format!("rm{k} := b{k};"), &[&format!("rm{k}"), &format!("b{k}")]);
        }
    }
    for (k, b) in case.binds.iter().enumerate() {
        if b.addr.area.writes() {
            p.stmt(1, format!("b{k} := sm{k};"), &[&format!("b{k}"), &format!("sm{k}")]);
        }
    }
    p.stmt(1, "mb := stamp;".into(), &["mb", "stamp"]);
    if case.fault_pos == 1 {
        p.stmt(1, trip.into(), &["trip", "zq", "zz"]);
    }
    // segment C: late writes (final values), last statements read the inputs again
    p.stmt(2, "mc := stamp;".into(), &["mc", "stamp"]);
    for (k, b) in case.binds.iter().enumerate() {
        if b.addr.area.writes() {
            p.stmt(2, format!("b{k} := sl{k};"), &[&format!("b{k}"), &format!("sl{k}")]);
        }
    }
    if let Some(pa) = &case.partial {
        // partial access on binding 0: write a part of an output/marker, read a part of an input
        let acc = format!("b0.%{}{}", pa.kind, pa.idx);
        if case.binds[0].addr.area.writes() {
            p.stmt(2, format!("{acc} := pv;"), &["b0", "pv"]);
        } else {
            p.stmt(2, format!("pv := {acc};"), &["b0", "pv"]);
        }
    }
    for (k, b) in case.binds.iter().enumerate() {
        if b.addr.area == Area::I && case.partial.is_none() {
            p.stmt(2, format!("rz{k} := b{k};"), &[&format!("rz{k}"), &format!("b{k}")]);
        }
    }
    if case.fault_pos == 2 {
        p.stmt(2, trip.into(), &["trip", "zq", "zz"]);
    }
    p
}

fn source_of(case: &Case) -> String {
    let p = build_prog(case);
    let mut s = String::new();
    let decl = |v: &Var, wildcard: bool| -> String {
        match &v.at {
            Some(a) if wildcard => format!("  {} AT %{}* : {};\n", v.name, &a[1..2], v.ty),
            Some(a) => format!("  {} AT {} : {};\n", v.name, a, v.ty),
            None => format!("  {} : {};\n", v.name, v.ty),
        }
    };
    let body = |segs: &[usize]| -> String {
        let mut b = String::new();
        for &g in segs {
            for st in &p.seg[g] {
                b.push_str(st);
                b.push('\n');
            }
        }
        b
    };
    match case.shape {
        Shape::Local | Shape::VarCfg => {
            s.push_str("PROGRAM Main\nVAR\n");
            for v in &p.vars {
                s.push_str(&decl(v, case.shape == Shape::VarCfg));
            }
            s.push_str("END_VAR\n");
            s.push_str(&body(&[0, 1, 2]));
            s.push_str("END_PROGRAM\n");
            if case.shape == Shape::VarCfg {
                s.push_str("CONFIGURATION Conf\nPROGRAM P1 : Main;\nVAR_CONFIG\n");
                for v in &p.vars {
                    if let Some(a) = &v.at {
                        s.push_str(&format!("  P1.{} AT {} : {};\n", v.name, a, v.ty));
                    }
                }
                s.push_str("END_VAR\nEND_CONFIGURATION\n");
            }
        }
        Shape::Fb => {
            s.push_str("FUNCTION_BLOCK Blk\nVAR\n");
            for v in &p.vars {
                s.push_str(&decl(v, false));
            }
            s.push_str("END_VAR\n");
            s.push_str(&body(&[0, 1, 2]));
            s.push_str("END_FUNCTION_BLOCK\nPROGRAM Main\nVAR\n  fb : Blk;\nEND_VAR\nfb();\nEND_PROGRAM\n");
        }
        Shape::Tasks | Shape::AllTasked => {
            s.push_str("CONFIGURATION Conf\nVAR_GLOBAL\n");
            for v in &p.vars {
                s.push_str(&decl(v, false));
            }
            if case.shape == Shape::Tasks {
                s.push_str("END_VAR\nTASK TA (INTERVAL := T#10ms, PRIORITY := 0);\nTASK TB (INTERVAL := T#10ms, PRIORITY := 1);\nPROGRAM PA WITH TA : ProgA;\nPROGRAM PB WITH TB : ProgB;\nPROGRAM PC : ProgC;\nEND_CONFIGURATION\n");
            } else {
                s.push_str("END_VAR\nTASK TA (INTERVAL := T#100ms, PRIORITY := 0);\nTASK TB (INTERVAL := T#100ms, PRIORITY := 1);\nTASK TC (INTERVAL := T#100ms, PRIORITY := 2);\nPROGRAM PA WITH TA : ProgA;\nPROGRAM PB WITH TB : ProgB;\nPROGRAM PC WITH TC : ProgC;\nEND_CONFIGURATION\n");
            }
            for (g, name) in ["ProgA", "ProgB", "ProgC"].iter().enumerate() {
                s.push_str(&format!("PROGRAM {name}\nVAR_EXTERNAL\n"));
                for u in &p.uses[g] {
                    let v = p.vars.iter().find(|v| &v.name == u).expect("declared");
                    s.push_str(&format!("  {} : {};\n", v.name, v.ty));
                }
                s.push_str("END_VAR\n");
                s.push_str(&body(&[g]));
                s.push_str("END_PROGRAM\n");
            }
        }
    }
    s
}

// ------------------------------------------------------------------------------------------
// instrumented driver
// ------------------------------------------------------------------------------------------

#[derive(Clone, Debug)]
enum Ev {
    Read { drv: usize, n: u32 },
    Write { drv: usize, image: Vec<u8> },
    /// the driver answered with an error (injected by the harness), nothing supplied / accepted
    Failed { drv: usize },
}

#[derive(Default)]
struct Shared {
    events: Vec<Ev>,
    calls: Vec<u32>,
    /// driver 0 fails its next read_inputs / write_outputs call
    fail_read: bool,
    fail_write: bool,
}

struct LogDriver {
    id: usize,
    ndrv: usize,
    sh: Arc<Mutex<Shared>>,
}

fn region(id: usize, ndrv: usize, len: usize) -> std::ops::Range<usize> {
    if ndrv == 1 {
        0..len
    } else if id == 0 {
        0..SPLIT.min(len)
    } else {
        SPLIT.min(len)..len
    }
}

impl IoDriver for LogDriver {
    fn read_inputs(&mut self, inputs: &mut [u8]) -> Result<(), RuntimeError> {
        let mut sh = self.sh.lock().unwrap();
        if self.id == 0 && sh.fail_read {
            sh.fail_read = false;
            sh.events.push(Ev::Failed { drv: self.id });
            return Err(RuntimeError::IoDriver("injected read failure".into()));
        }
        let n = sh.calls[self.id];
        sh.calls[self.id] += 1;
        for i in region(self.id, self.ndrv, inputs.len()) {
            inputs[i] = in_pat(self.id, n, i);
        }
        sh.events.push(Ev::Read { drv: self.id, n });
        Ok(())
    }
    fn write_outputs(&mut self, outputs: &[u8]) -> Result<(), RuntimeError> {
        let mut sh = self.sh.lock().unwrap();
        if self.id == 0 && sh.fail_write {
            sh.fail_write = false;
            sh.events.push(Ev::Failed { drv: self.id });
            return Err(RuntimeError::IoDriver("injected write failure".into()));
        }
        sh.events.push(Ev::Write { drv: self.id, image: outputs.to_vec() });
        Ok(())
    }
}

// ------------------------------------------------------------------------------------------
// oracle helpers
// ------------------------------------------------------------------------------------------

struct WriteSpec {
    addr: Addr,
    ty: &'static Ty,
    fin: u64,
    /// other values the span could wrongly carry: (label, bits)
    alts: Vec<(&'static str, u64)>,
}

fn apply_writes(base: &[u8], ws: &[WriteSpec], order: &[usize]) -> Vec<u8> {
    let mut img = base.to_vec();
    for &i in order {
        img_put(&mut img, &ws[i].addr, ws[i].fin);
    }
    img
}

fn orders(n: usize) -> Vec<Vec<usize>> {
    match n {
        0 => vec![vec![]],
        1 => vec![vec![0]],
        2 => vec![vec![0, 1], vec![1, 0]],
        _ => {
            // not used by the current families (at most two bindings per area)
            let mut out = Vec::new();
            let mut idx: Vec<usize> = (0..n).collect();
            permute(&mut idx, 0, &mut out);
            out
        }
    }
}

fn permute(idx: &mut Vec<usize>, k: usize, out: &mut Vec<Vec<usize>>) {
    if k == idx.len() {
        out.push(idx.clone());
        return;
    }
    for i in k..idx.len() {
        idx.swap(k, i);
        permute(idx, k + 1, out);
        idx.swap(k, i);
    }
}

/// Compares an image (as given to a driver / found in the runtime) with the reference model:
/// `base` with the final values of all bound variables of this area written into their spans,
/// in any order. Ok(bit mask of the orders of `orders(n)` that explain the image) or
/// Err((signature tail, description)).
fn check_image(area: Area, base: &[u8], got: &[u8], ws: &[WriteSpec]) -> Result<u32, (String, String)> {
    let a = area.ch();
    if got.len() != base.len() {
        return Err((
            format!("locality/%{a}:image-length"),
            format!("image length changed from {} to {}", base.len(), got.len()),
        ));
    }
    let ords = orders(ws.len());
    let mut mask = 0u32;
    for (oi, ord) in ords.iter().enumerate() {
        if apply_writes(base, ws, ord) == got {
            mask |= 1 << oi;
        }
    }
    if mask != 0 {
        return Ok(mask);
    }
    let nbits = base.len() * 8;
    let mut cover = vec![0u8; nbits];
    for w in ws {
        let (s, e) = w.addr.bit_span();
        for c in cover.iter_mut().take(e.min(nbits)).skip(s) {
            *c += 1;
        }
    }
    // 1. locality: a bit outside every addressed span changed
    for pos in 0..nbits {
        if cover[pos] == 0 && bit_at(got, pos) != bit_at(base, pos) {
            if ws.is_empty() {
                return Err((
                    format!("locality/%{a}:no-binding"),
                    format!("byte {} of the %{a} image changed from {:02x} to {:02x} although nothing is bound in this area", pos / 8, base[pos / 8], got[pos / 8]),
                ));
            }
            let mut best: Option<(usize, &WriteSpec, &'static str)> = None;
            for w in ws {
                let (s, e) = w.addr.bit_span();
                let (d, lab) = if pos < s {
                    (s - pos, if w.addr.size == Size::X && pos / 8 == w.addr.byte { "same-byte" } else { "before" })
                } else {
                    (pos + 1 - e, if w.addr.size == Size::X && pos / 8 == w.addr.byte { "same-byte" } else { "after" })
                };
                if best.as_ref().map(|b| d < b.0).unwrap_or(true) {
                    best = Some((d, w, lab));
                }
            }
            let (_, w, lab) = best.unwrap();
            return Err((
                format!("locality/{}:{lab}", w.addr.tag()),
                format!(
                    "bit {} of byte {} (outside every bound span; nearest binding {} : {}) changed: image before [{}], after [{}]",
                    pos % 8, pos / 8, w.addr.text(), w.ty.name, hex(base), hex(got)
                ),
            ));
        }
    }
    // 2. whole-image hypotheses: every span carries the value of one earlier phase, or some
    //    values are byte-reversed. One-bit values cannot tell hypotheses apart, so a set of
    //    bit bindings only gets the neutral diagnosis of step 3.
    let with = |f: &dyn Fn(usize, &WriteSpec) -> u64| -> Vec<WriteSpec> {
        ws.iter().enumerate().map(|(i, x)| WriteSpec { addr: x.addr, ty: x.ty, fin: f(i, x), alts: Vec::new() }).collect()
    };
    let matches = |cand: &[WriteSpec]| ords.iter().any(|ord| apply_writes(base, cand, ord) == got);
    let wide = ws.iter().any(|w| w.addr.size != Size::X);
    if wide {
        for lab in ["untouched-image", "cycle-start", "mid", "early"] {
            if !ws.iter().any(|w| w.addr.size != Size::X && w.alts.iter().any(|(l, _)| *l == lab)) {
                continue;
            }
            let cand = with(&|_, x| x.alts.iter().find(|(l, _)| *l == lab).map(|(_, v)| *v).unwrap_or(x.fin));
            if matches(&cand) {
                return Err((
                    format!("publish/%{a}:stale:{lab}"),
                    format!(
                        "the bound spans carry the {lab} values instead of the final values {}; image [{}]",
                        ws.iter().map(|w| format!("{}={:#x}", w.addr.text(), w.fin)).collect::<Vec<_>>().join(", "),
                        hex(got)
                    ),
                ));
            }
        }
        for mask in 1u32..(1 << ws.len()) {
            let Some(w) = ws.iter().enumerate().find(|(i, w)| mask >> i & 1 == 1 && w.addr.size.bits() > 8).map(|(_, w)| w) else {
                continue;
            };
            let cand = with(&|i, x| if mask >> i & 1 == 1 { rev_bytes(x.addr.size, x.fin) } else { x.fin });
            if matches(&cand) {
                return Err((
                    format!("publish/{}:byte-order", w.addr.tag()),
                    format!("{} : {} holds its final value {:#x} with reversed byte order; image [{}]", w.addr.text(), w.ty.name, w.fin, hex(got)),
                ));
            }
        }
    }
    // 3. per binding: its own (exclusive) bits do not encode its final value
    for w in ws {
        let (s, e) = w.addr.bit_span();
        let excl: Vec<usize> = (s..e.min(nbits)).filter(|&p| cover[p] == 1).collect();
        if excl.is_empty() {
            continue;
        }
        let mut t = base.to_vec();
        img_put(&mut t, &w.addr, w.fin);
        if excl.iter().all(|&p| bit_at(&t, p) == bit_at(got, p)) {
            continue;
        }
        if w.addr.size == Size::X {
            return Err((
                "publish/X:mismatch".to_string(),
                format!("bit {} of byte {} is {} but the final value of {} is {}; image [{}]", w.addr.bit, w.addr.byte, bit_at(got, s) as u8, w.addr.text(), w.fin, hex(got)),
            ));
        }
        return Err((
            format!("publish/{}:{}:encode", w.addr.tag(), w.ty.name),
            format!(
                "span of {} : {} does not encode the final value {:#x} (little-endian expected [{}]); image [{}]",
                w.addr.text(), w.ty.name, w.fin, hex(&apply_writes(base, ws, &ords[0])), hex(got)
            ),
        ));
    }
    // 4. only the overlapping part is wrong
    let tags: Vec<String> = ws.iter().map(|w| w.addr.size.ch().to_string()).collect();
    Err((
        format!("publish/overlap:{}", tags.join("+")),
        format!(
            "overlapping spans {} hold neither serialisation of the final values; expected [{}] or the other order, image [{}]",
            ws.iter().map(|w| format!("{}={:#x}", w.addr.text(), w.fin)).collect::<Vec<_>>().join(", "),
            hex(&apply_writes(base, ws, &ords[0])), hex(got)
        ),
    ))
}

/// Published bytes must be a function of the final values: with conflicting overlapping bindings
/// either serialisation order is accepted, but it has to be the same one in every cycle of a run
/// (otherwise equal final values could give different images depending on history).
fn order_consistency(area: Area, seen: &mut BTreeMap<Area, u32>, mask: u32, ws: &[WriteSpec]) -> Option<(String, String)> {
    let cur = seen.get_mut(&area).unwrap();
    let before = *cur;
    *cur &= mask;
    if *cur != 0 || before == 0 {
        return None;
    }
    let name = |m: u32| if m & 1 == 1 { "declaration order (the later binding wins)" } else { "reverse declaration order (the earlier binding wins)" };
    Some((
        format!("publish/%{}:order-flip", area.ch()),
        format!(
            "overlapping bindings {}: earlier cycles were only explained by writing them in {}, this cycle only by {}; the published bytes are not a function of the final values",
            ws.iter().map(|w| format!("{}={:#x}", w.addr.text(), w.fin)).collect::<Vec<_>>().join(", "),
            name(before), name(mask)
        ),
    ))
}

/// A variable read by the program against the latched image.
fn check_latch(
    b: &Bind,
    observed: Option<u64>,
    latched: &[u8],
    alts: &[(&'static str, &[u8])],
    var_before: Option<u64>,
    readpos: &str,
) -> Option<(String, String)> {
    let exp = img_get(latched, &b.addr);
    if observed == Some(exp) {
        return None;
    }
    let a = b.addr.area.ch();
    let obs_txt = observed.map(|o| format!("{o:#x}")).unwrap_or_else(|| "<no numeric value>".into());
    if b.addr.size == Size::X {
        // a one-bit value cannot tell a stale image from a wrong bit index: neutral diagnosis
        return Some((
            "latch/X:mismatch".to_string(),
            format!("{readpos} read of {} saw {obs_txt} but bit {} of byte {} of the latched image [{}] is {exp}", b.addr.text(), b.addr.bit, b.addr.byte, hex(latched)),
        ));
    }
    if let Some(o) = observed {
        for (lab, img) in alts {
            if img_get(img, &b.addr) == o {
                return Some((
                    format!("latch/%{a}:stale:{lab}"),
                    format!(
                        "{readpos} read of {} : {} saw {obs_txt}, the value of the {lab} image, instead of {exp:#x} from this cycle's latched image [{}]",
                        b.addr.text(), b.ty.name, hex(latched)
                    ),
                ));
            }
        }
        if var_before == Some(o) {
            return Some((
                format!("latch/%{a}:stale:not-refreshed"),
                format!(
                    "{readpos} read of {} : {} saw {obs_txt}, the value the variable already had before the cycle, instead of {exp:#x} from the image [{}]",
                    b.addr.text(), b.ty.name, hex(latched)
                ),
            ));
        }
        if b.addr.size.bits() > 8 && rev_bytes(b.addr.size, exp) == o {
            return Some((
                format!("latch/{}:byte-order", b.addr.tag()),
                format!("{} : {} decoded with reversed byte order: saw {obs_txt}, expected {exp:#x}; image [{}]", b.addr.text(), b.ty.name, hex(latched)),
            ));
        }
    }
    Some((
        format!("latch/{}:{}:decode", b.addr.tag(), b.ty.name),
        format!(
            "{readpos} read of {} : {} saw {obs_txt}, expected {exp:#x} = little-endian decode of the latched image [{}]",
            b.addr.text(), b.ty.name, hex(latched)
        ),
    ))
}

fn norm_msg(m: &str) -> String {
    let s: String = m.chars().map(|c| if c.is_ascii_digit() { '#' } else { c }).collect();
    s.chars().take(60).collect()
}

fn err_name(e: &RuntimeError) -> String {
    let d = format!("{e:?}");
    d.split(|c: char| !c.is_ascii_alphanumeric()).next().unwrap_or("").to_string()
}

// ------------------------------------------------------------------------------------------
// execution of one binding case
// ------------------------------------------------------------------------------------------

#[derive(Default, Debug, Clone)]
struct Stats {
    rejected: Option<String>,
    normal_cycles_checked: u64,
    latch_comparisons: u64,
    publish_comparisons: u64,
    fault_cycles_checked: u64,
    fault_value_was_visible: u64,
    overlap_conflicts: u64,
    order_decl_wins_last: u64,
    order_decl_wins_first: u64,
    exchange_fault: Option<String>,
    image_changed: bool,
    idle_cycles_checked: u64,
    idle_outputs_changed: u64,
    sched_conflicts: u64,
    safe_deliveries: u64,
    continuation_cycles: u64,
}

enum Home {
    Global,
    Inst(InstanceId),
}

fn get_var(rt: &Runtime, home: &Home, name: &str) -> Option<Value> {
    match home {
        Home::Global => rt.storage().get_global(name).cloned(),
        Home::Inst(id) => rt.storage().get_instance_var(*id, name).cloned(),
    }
}

fn set_var(rt: &mut Runtime, home: &Home, name: &str, v: Value) -> Result<(), String> {
    match home {
        Home::Global => {
            if rt.storage().get_global(name).is_none() {
                return Err(format!("global {name} missing"));
            }
            rt.storage_mut().set_global(name, v);
            Ok(())
        }
        Home::Inst(id) => {
            if rt.storage().get_instance_var(*id, name).is_none() {
                return Err(format!("instance variable {name} missing"));
            }
            rt.storage_mut().set_instance_var(*id, name, v);
            Ok(())
        }
    }
}

fn find_home(rt: &Runtime, shape: Shape) -> Result<Home, String> {
    let inst = |name: &str| -> Result<InstanceId, String> {
        match rt.storage().get_global(name) {
            Some(Value::Instance(id)) => Ok(*id),
            other => Err(format!("program instance {name} not found: {other:?}")),
        }
    };
    Ok(match shape {
        Shape::Tasks | Shape::AllTasked => Home::Global,
        Shape::Local => Home::Inst(inst("Main")?),
        Shape::VarCfg => Home::Inst(inst("P1")?),
        Shape::Fb => {
            let main = inst("Main")?;
            match rt.storage().get_instance_var(main, "fb") {
                Some(Value::Instance(id)) => Home::Inst(*id),
                other => return Err(format!("fb instance not found: {other:?}")),
            }
        }
    })
}

struct CaseRun {
    viols: Vec<Violation>,
    stats: Stats,
}

/// Err = machinery problem (the harness itself did not behave as designed).
fn run_case(case: &Case) -> Result<CaseRun, String> {
    let mut stats = Stats::default();
    let mut viols: Vec<Violation> = Vec::new();
    let src = source_of(case);
    let case_json = |cycle: usize| -> J {
        let mut j = case.to_json();
        j["source"] = json!(src);
        j["cycle"] = json!(cycle);
        j
    };
    // set once a fault has been cleared: "<fault kind>:<way of clearing>"
    let after_clear: std::cell::RefCell<Option<String>> = std::cell::RefCell::new(None);
    let push = |viols: &mut Vec<Violation>, tail: String, what: String, cycle: usize| {
        // in the cycles after a cleared fault the finding is the clause that no longer holds
        let (tail, what) = match after_clear.borrow().as_ref() {
            Some(label) => (
                format!("after-fault/{label}:{}", tail.split('/').next().unwrap_or("")),
                format!("after the fault was cleared ({label}) the cycle clauses must hold again, but [{tail}] {what}"),
            ),
            None => (tail, what),
        };
        let sig = format!("C07/{tail}");
        if !viols.iter().any(|v| v.signature == sig) {
            viols.push(Violation {
                signature: sig,
                what: format!("{what} (family {}, shape {}, {} driver(s), cycle {cycle})", case.family, case.shape.name(), case.drivers),
                case: case_json(cycle),
            });
        }
    };

    let mut h = match catch(|| TestHarness::from_source(&src)) {
        Ok(Ok(h)) => h,
        Ok(Err(e)) => {
            stats.rejected = Some(e.to_string().lines().next().unwrap_or("").to_string());
            return Ok(CaseRun { viols, stats });
        }
        Err(m) => {
            push(&mut viols, format!("panic/compile/{}", norm_msg(&m)), format!("compiler panicked: {m}"), 0);
            return Ok(CaseRun { viols, stats });
        }
    };
    let rt = h.runtime_mut();
    let mut home = find_home(rt, case.shape)?;
    rt.io_mut().resize(IMG, IMG, IMG);
    for b in rt.io_mut().inputs_mut() {
        *b = PREFILL;
    }
    for b in rt.io_mut().outputs_mut() {
        *b = PREFILL;
    }
    for b in rt.io_mut().memory_mut() {
        *b = PREFILL;
    }
    if case.policy != 0 {
        rt.set_fault_policy(match case.policy {
            1 => FaultPolicy::SafeHalt,
            _ => FaultPolicy::Restart,
        });
    }
    if !case.safe.is_empty() {
        let mut st = IoSafeState::default();
        for (a, v) in &case.safe {
            let parsed = IoAddress::parse(&a.text()).map_err(|e| format!("safe address {}: {e:?}", a.text()))?;
            st.outputs.push((parsed, api_value(a.size, *v)));
        }
        rt.set_io_safe_state(st);
    }
    let sh = Arc::new(Mutex::new(Shared { events: Vec::new(), calls: vec![0; case.drivers], fail_read: false, fail_write: false }));
    for id in 0..case.drivers {
        rt.add_io_driver(format!("d{id}"), Box::new(LogDriver { id, ndrv: case.drivers, sh: sh.clone() }));
    }

    let mut model_in = vec![PREFILL; IMG];
    let mut last_pub: Vec<Vec<u8>> = vec![vec![PREFILL; IMG]; case.drivers];
    let mut prev_mem_end = vec![PREFILL; IMG];
    let mut faulted_at: Option<usize> = None;
    // values the program had computed when it faulted: per binding
    let mut fault_vals: Vec<Vec<u64>> = Vec::new();
    let mut fault_var_before: Vec<Option<u64>> = Vec::new();
    let has_m = case.binds.iter().any(|b| b.addr.area == Area::M);
    let expected_pattern: String = (0..case.drivers).map(|d| format!("R{d}")).chain((0..case.drivers).map(|d| format!("W{d}"))).collect();

    // serialisation orders of overlapping bindings that explain every cycle so far (per area)
    let mut order_mask: BTreeMap<Area, u32> = BTreeMap::new();
    order_mask.insert(Area::Q, u32::MAX);
    order_mask.insert(Area::M, u32::MAX);
    let plan = case.shape.cycles();
    // with a cleared fault: two more cycles after the faulting one
    let ncycles = if case.clear != 0 { case.fault_cycle + 2 } else { plan.len() };
    for c in 1..=ncycles {
        let (dt_ms, idle) = plan[(c - 1).min(plan.len() - 1)];
        let is_fault_cycle = faulted_at.is_none() && case.fault_cycle == c;
        // ---- stimulus -------------------------------------------------------------------
        let mut idle_set: Vec<Option<u64>> = vec![None; case.binds.len()];
        if faulted_at.is_none() {
            set_var(rt, &home, "stamp", Value::Int(c as i16))?;
            set_var(rt, &home, "trip", Value::Bool(is_fault_cycle && case.fault_kind == 0))?;
            for (k, b) in case.binds.iter().enumerate() {
                if b.addr.area.writes() {
                    for (ph, n) in ["se", "sm", "sl"].iter().enumerate() {
                        set_var(rt, &home, &format!("{n}{k}"), mk_value(b.ty, case.val(k, c, ph)))?;
                    }
                }
            }
            if is_fault_cycle {
                if let Some(k) = case.bad_binding() {
                    let bad = unencodable(case.binds[k].ty).ok_or_else(|| format!("no unencodable value for {}", case.to_json()))?;
                    set_var(rt, &home, &format!("sl{k}"), bad)?;
                }
                let mut g = sh.lock().unwrap();
                g.fail_read = case.fault_kind == 3;
                g.fail_write = case.fault_kind == 4;
            }
            if let Some(pa) = &case.partial {
                if case.binds[0].addr.area.writes() {
                    // the part written is the complement of what the whole-variable write leaves there
                    let whole = case.val(0, c, 2);
                    let cur = (whole >> (pa.idx * pa.size().bits())) & pa.size().mask();
                    set_var(rt, &home, "pv", mk_value(bits_type(pa.size()), !cur))?;
                }
            }
            if has_m {
                for (i, b) in rt.io_mut().memory_mut().iter_mut().enumerate() {
                    *b = mem_pat(c, i);
                }
            }
            if idle {
                // no program will run: an output-bound variable is changed from outside (storage API)
                for (k, b) in case.binds.iter().enumerate() {
                    if b.addr.area != Area::Q {
                        continue;
                    }
                    let cur = get_var(rt, &home, &format!("b{k}")).and_then(|v| value_bits(b.ty, &v));
                    let nv = if b.ty.kind == Kind::Bool { !cur.unwrap_or(0) & 1 } else { case.val(k, c, 3) };
                    set_var(rt, &home, &format!("b{k}"), mk_value(b.ty, nv))?;
                    idle_set[k] = Some(nv);
                }
            }
            if case.ext && c >= 2 {
                // something outside write_outputs changes the bound spans of the %Q/%M images
                for b in case.binds.iter().filter(|b| b.addr.area.writes()) {
                    let img = if b.addr.area == Area::Q { rt.io().outputs() } else { rt.io().memory() };
                    let nv = !img_get(img, &b.addr) & b.addr.size.mask();
                    let parsed = IoAddress::parse(&b.addr.text()).map_err(|e| format!("parse {}: {e:?}", b.addr.text()))?;
                    rt.io_mut().write(&parsed, api_value(b.addr.size, nv)).map_err(|e| format!("external write {}: {e:?}", b.addr.text()))?;
                }
            }
        }
        let out_before = rt.io().outputs().to_vec();
        let mem_before = rt.io().memory().to_vec();
        let var_before: Vec<Option<u64>> = case
            .binds
            .iter()
            .enumerate()
            .map(|(k, b)| get_var(rt, &home, &format!("b{k}")).and_then(|v| value_bits(b.ty, &v)))
            .collect();
        rt.advance_time(Duration::from_millis(dt_ms));
        let res = match catch(|| rt.execute_cycle()) {
            Ok(r) => r,
            Err(m) => {
                push(&mut viols, format!("panic/cycle/{}", norm_msg(&m)), format!("execute_cycle panicked: {m}"), c);
                return Ok(CaseRun { viols, stats });
            }
        };
        let events: Vec<Ev> = std::mem::take(&mut sh.lock().unwrap().events);
        let pattern: String = events
            .iter()
            .map(|e| match e {
                Ev::Read { drv, .. } => format!("R{drv}"),
                Ev::Write { drv, .. } => format!("W{drv}"),
                Ev::Failed { drv } => format!("E{drv}"),
            })
            .collect();
        // model of the input image: first read of each driver = the latch; all reads = "later"
        let model_prev = model_in.clone();
        let mut model_first = model_in.clone();
        let mut seen = vec![false; case.drivers];
        for e in &events {
            if let Ev::Read { drv, n } = e {
                for i in region(*drv, case.drivers, IMG) {
                    let v = in_pat(*drv, *n, i);
                    model_in[i] = v;
                    if !seen[*drv] {
                        model_first[i] = v;
                    }
                }
                seen[*drv] = true;
            }
        }
        let writes: Vec<(usize, &Vec<u8>)> = events
            .iter()
            .filter_map(|e| match e {
                Ev::Write { drv, image } => Some((*drv, image)),
                _ => None,
            })
            .collect();

        // ---- cycles at / after the fault --------------------------------------------------
        if is_fault_cycle || faulted_at.is_some() {
            if is_fault_cycle {
                match (&res, case.fault_kind) {
                    (Err(RuntimeError::DivisionByZero), 0) => {}
                    (Err(_), 1..=4) => {}
                    (Err(other), _) => {
                        // some other fault came first (exchange fault): nothing to check here
                        stats.exchange_fault = Some(format!("{}:{}", bind_tags(case), err_name(other)));
                        return Ok(CaseRun { viols, stats });
                    }
                    (Ok(()), _) => return Err(format!("the injected fault (kind {}) did not fault cycle {c}: {}", case.fault_kind, case.to_json())),
                }
                faulted_at = Some(c);
                fault_var_before = var_before.clone();
                fault_vals = case
                    .binds
                    .iter()
                    .enumerate()
                    .map(|(k, _)| {
                        let phases = match (case.fault_kind, case.fault_pos) {
                            (3, _) => 0,                 // the program never ran
                            (1, _) | (2, _) => 3,        // the program ran to its end
                            (_, 0) => 0,
                            (_, 1) => 2,
                            _ => 3,
                        };
                        (0..phases).map(|ph| case.val(k, c, ph)).collect()
                    })
                    .collect();
                // the interesting branch: the early/mid writes really happened before the fault
                let visible = case.binds.iter().enumerate().any(|(k, b)| {
                    b.addr.area == Area::Q
                        && !fault_vals[k].is_empty()
                        && get_var(rt, &home, &format!("b{k}")).and_then(|v| value_bits(b.ty, &v)) == fault_vals[k].last().copied()
                });
                if visible {
                    stats.fault_value_was_visible += 1;
                }
                let mark = |n: &str| get_var(rt, &home, n).and_then(|v| value_bits(&TYPES[6], &v)) == Some(c as u64);
                let (ma, mb, mc) = (mark("ma"), mark("mb"), mark("mc"));
                let as_designed = match (case.fault_kind, case.fault_pos) {
                    (3, _) => !ma && !mb && !mc,
                    // an unencodable value faults when published, or (should assignments ever
                    // narrow) already at the late assignment in segment C: both are fine here
                    (1, _) | (2, _) => ma && mb,
                    (4, _) => ma && mb && mc,
                    (_, 0) => !ma && !mb && !mc,
                    (_, 1) => ma && mb && !mc,
                    _ => ma && mb && mc,
                };
                if !as_designed {
                    return Err(format!("fault cycle {c}: the fault did not sit where it was placed (ma={ma}, mb={mb}, mc={mc}): {}", case.to_json()));
                }
                // inputs are still asked for exactly once before the program
                let reads: String = events.iter().filter_map(|e| if let Ev::Read { drv, .. } = e { Some(format!("R{drv}")) } else { None }).collect();
                let exp_reads: String = (0..case.drivers).map(|d| format!("R{d}")).collect();
                if reads != exp_reads && case.fault_kind != 3 {
                    push(&mut viols, calls_tail(&events, case.drivers, false), format!("driver calls in the faulting cycle were [{pattern}], expected reads [{exp_reads}] once each before the program"), c);
                }
            }
            stats.fault_cycles_checked += 1;
            let when = if is_fault_cycle { "fault-cycle" } else { "after-fault" };
            // every image handed to a driver, and the image the runtime holds afterwards: outside
            // the configured safe-state entries no bound span may carry a value that the program
            // computed in the faulted cycle
            let mut cover = vec![0u8; IMG * 8];
            for b in case.binds.iter().filter(|b| b.addr.area == Area::Q) {
                let (s, e) = b.addr.bit_span();
                for x in cover.iter_mut().take(e).skip(s) {
                    *x += 1;
                }
            }
            let mut safe_cover = vec![false; IMG * 8];
            for (a, _) in case.safe.iter().filter(|(a, _)| a.area == Area::Q) {
                let (s, e) = a.bit_span();
                for x in safe_cover.iter_mut().take(e).skip(s) {
                    *x = true;
                }
            }
            let mut consumers: Vec<(String, &[u8], &[u8], bool)> = writes
                .iter()
                .filter(|(_, img)| img.len() == IMG)
                .map(|(d, img)| (format!("driver {d} was given an output image"), &img[..], &last_pub[*d][..], false))
                .collect();
            if !writes.is_empty() && case.policy == 1 {
                stats.safe_deliveries += 1;
            }
            let io_after = rt.io().outputs().to_vec();
            if io_after.len() == IMG {
                consumers.push(("after the faulted cycle Runtime::io().outputs() holds an image".to_string(), &io_after[..], &out_before[..], true));
            }
            if case.fault_kind == 4 && is_fault_cycle {
                // the program completed and the publication itself was under way when the driver
                // failed: what reached the drivers was published legitimately
                consumers.clear();
            }
            let mut reported = false;
            for (label, image, lp, is_io) in consumers {
                if is_io && reported {
                    continue; // same leak, already reported at the driver
                }
                for (k, b) in case.binds.iter().enumerate() {
                    if b.addr.area != Area::Q {
                        continue;
                    }
                    let (s, e) = b.addr.bit_span();
                    let touched_by_safe = (s..e).any(|p| safe_cover[p]);
                    let mut bits: Vec<usize> = (s..e).filter(|&p| cover[p] == 1 && !safe_cover[p]).collect();
                    if bits.is_empty() {
                        bits = (s..e).filter(|&p| !safe_cover[p]).collect();
                    }
                    if bits.is_empty() || bits.iter().all(|&p| bit_at(image, p) == bit_at(lp, p)) {
                        continue;
                    }
                    for v in &fault_vals[k] {
                        if Some(*v) == fault_var_before[k] {
                            continue;
                        }
                        let mut t = lp.to_vec();
                        img_put(&mut t, &b.addr, *v);
                        if bits.iter().all(|&p| bit_at(&t, p) == bit_at(image, p)) {
                            let mut tail = format!("fault-publish/{when}");
                            if matches!(case.fault_kind, 1 | 2) {
                                // the cycle faulted while the outputs were being encoded, not in program code
                                tail.push_str(":output-phase");
                            }
                            if case.policy != 0 {
                                tail.push_str(&format!(
                                    ":{}:%Q:{}",
                                    POLICY_NAMES[case.policy as usize % 3],
                                    if touched_by_safe { "partial-safe-entry" } else { "no-safe-entry" }
                                ));
                            }
                            if is_io {
                                tail.push_str(":io-image");
                            }
                            reported = true;
                            push(
                                &mut viols,
                                tail,
                                format!(
                                    "{label} in which {} : {} carries {v:#x}, a value the program computed in the faulted cycle (fault policy {}, safe-state entries [{}]); image before the fault [{}], image now [{}]",
                                    b.addr.text(), b.ty.name, POLICY_NAMES[case.policy as usize % 3],
                                    case.safe.iter().map(|(a, v)| format!("{} := {v:#x}", a.text())).collect::<Vec<_>>().join(", "),
                                    hex(lp), hex(image)
                                ),
                                c,
                            );
                        }
                    }
                }
            }
            if case.fault_kind == 4 && is_fault_cycle {
                for (d, img) in &writes {
                    last_pub[*d] = (*img).clone();
                }
            }
            if is_fault_cycle && case.clear != 0 {
                // ---- the fault is cleared: from here on the full cycle oracle applies again ----
                let kind = if matches!(case.fault_kind, 1 | 2) && !get_var(rt, &home, "mc").and_then(|v| value_bits(&TYPES[6], &v)).map(|v| v == c as u64).unwrap_or(false) {
                    "program"
                } else {
                    KIND_NAMES[case.fault_kind as usize % 5]
                };
                let r = match case.clear {
                    1 => {
                        rt.clear_fault();
                        Ok(Ok(()))
                    }
                    2 => catch(|| rt.restart(RestartMode::Warm)),
                    _ => catch(|| rt.restart(RestartMode::Cold)),
                };
                match r {
                    Ok(Ok(())) => {}
                    Ok(Err(e)) => return Err(format!("restart failed: {e:?}: {}", case.to_json())),
                    Err(m) => {
                        push(&mut viols, format!("panic/restart/{}", norm_msg(&m)), format!("restart panicked: {m}"), c);
                        return Ok(CaseRun { viols, stats });
                    }
                }
                if rt.faulted() {
                    return Err(format!("fault not cleared by {}: {}", CLEAR_NAMES[case.clear as usize % 4], case.to_json()));
                }
                home = find_home(rt, case.shape)?;
                faulted_at = None;
                prev_mem_end = rt.io().memory().to_vec();
                *after_clear.borrow_mut() = Some(format!("{kind}:{}", CLEAR_NAMES[case.clear as usize % 4]));
                let mut g = sh.lock().unwrap();
                g.fail_read = false;
                g.fail_write = false;
                g.events.clear();
            }
            continue;
        }

        // ---- normal cycle -----------------------------------------------------------------
        if let Err(e) = &res {
            // a fault raised by the exchange itself: the statement allows a faulted cycle to
            // publish nothing; recorded, not reported (vacuity is guarded per type in `run`)
            stats.exchange_fault = Some(format!("{}:{}", bind_tags(case), err_name(e)));
            return Ok(CaseRun { viols, stats });
        }
        let i16t = &TYPES[6];
        for n in ["ma", "mb", "mc"] {
            let v = get_var(rt, &home, n).and_then(|v| value_bits(i16t, &v));
            if !idle && v != Some(c as u64) {
                return Err(format!("cycle {c}: segment marker {n} = {v:?}: not every program segment ran: {}", case.to_json()));
            }
            if idle && v == Some(c as u64) {
                return Err(format!("cycle {c} was meant to be idle but segment {n} ran: {}", case.to_json()));
            }
        }
        if idle {
            stats.idle_cycles_checked += 1;
        }
        // (1) driver calls
        if pattern != expected_pattern {
            push(
                &mut viols,
                calls_tail(&events, case.drivers, true),
                format!("driver calls during the cycle were [{pattern}], expected [{expected_pattern}] (each driver: one read_inputs before the program, one write_outputs after it, in registration order)"),
                c,
            );
        }
        // (2) latched values
        let alts_in: Vec<(&'static str, &[u8])> = vec![("later-call", &model_in[..]), ("previous-cycle", &model_prev[..])];
        let alts_mem: Vec<(&'static str, &[u8])> = vec![("previous-cycle-end", &prev_mem_end[..])];
        if case.partial.is_none() && !idle {
            for (k, b) in case.binds.iter().enumerate() {
                let (latched, alts, names): (&[u8], &[(&'static str, &[u8])], Vec<(&str, String)>) = match b.addr.area {
                    Area::I => (&model_first[..], &alts_in[..], vec![("first", format!("ra{k}")), ("middle", format!("rm{k}")), ("last", format!("rz{k}"))]),
                    Area::M => (&mem_before[..], &alts_mem[..], vec![("first", format!("ra{k}"))]),
                    Area::Q => continue,
                };
                // the same diagnosis at several read positions is one finding: positions are joined
                let mut found: Vec<(String, String, Vec<&str>)> = Vec::new();
                for (pos, name) in names {
                    let obs = get_var(rt, &home, &name).and_then(|v| value_bits(b.ty, &v));
                    stats.latch_comparisons += 1;
                    if let Some((tail, what)) = check_latch(b, obs, latched, alts, var_before[k], pos) {
                        match found.iter_mut().find(|f| f.0 == tail) {
                            Some(f) => f.2.push(pos),
                            None => found.push((tail, what, vec![pos])),
                        }
                    }
                }
                for (tail, what, poss) in found {
                    let tail = if tail.contains(":stale:") { format!("{tail}:{}", poss.join("+")) } else { tail };
                    push(&mut viols, tail, what, c);
                }
                if img_get(latched, &b.addr) != img_get(&[PREFILL; IMG], &b.addr) {
                    stats.image_changed = true;
                }
            }
        }
        // (3) reading must not modify the input image
        if rt.io().inputs() != &model_first[..] && pattern == expected_pattern {
            push(
                &mut viols,
                "locality/%I:image-modified".into(),
                format!("input image after the cycle [{}] differs from what the drivers supplied [{}]", hex(rt.io().inputs()), hex(&model_first)),
                c,
            );
        }
        // (4)+(5) published outputs and marker image
        let mut specs: BTreeMap<Area, Vec<WriteSpec>> = BTreeMap::new();
        specs.insert(Area::Q, Vec::new());
        specs.insert(Area::M, Vec::new());
        for (k, b) in case.binds.iter().enumerate() {
            if !b.addr.area.writes() {
                continue;
            }
            let fin = get_var(rt, &home, &format!("b{k}")).and_then(|v| value_bits(b.ty, &v));
            let late = case.val(k, c, 2);
            let mut want = late;
            if k == 0 {
                if let Some(pa) = &case.partial {
                    let sh = pa.idx * pa.size().bits();
                    let m = pa.size().mask() << sh;
                    want = (late & !m) | ((!late) & m);
                }
            }
            let Some(fin) = fin else {
                return Err(format!("cycle {c}: b{k} has no numeric value: {}", case.to_json()));
            };
            if idle {
                // nothing ran: the final value is whatever the variable holds (set from outside for %Q)
                if idle_set[k].is_some() && idle_set[k] == Some(fin) && img_get(&out_before, &b.addr) != fin {
                    stats.idle_outputs_changed += 1;
                }
            } else if fin != want {
                match &case.partial {
                    None => return Err(format!("cycle {c}: b{k} = {fin:#x} after the cycle, the late write should have left {want:#x}: {}", case.to_json())),
                    Some(pa) => push(
                        &mut viols,
                        format!("partial/write:%{}@{}", pa.kind, b.addr.tag()),
                        format!(
                            "b0 := {late:#x}; b0.%{}{} := {:#x} left b0 = {fin:#x}, expected {want:#x} (part {} counted from the least significant end)",
                            pa.kind, pa.idx, (want >> (pa.idx * pa.size().bits())) & pa.size().mask(), pa.idx
                        ),
                        c,
                    ),
                }
            }
            let base = if b.addr.area == Area::Q { &out_before } else { &mem_before };
            let mut alts = if idle { Vec::new() } else { vec![("early", case.val(k, c, 0)), ("mid", case.val(k, c, 1))] };
            if let Some(vb) = var_before[k] {
                alts.push(("cycle-start", vb));
            }
            alts.push(("untouched-image", img_get(base, &b.addr)));
            alts.retain(|(_, v)| *v != fin);
            specs.get_mut(&b.addr.area).unwrap().push(WriteSpec { addr: b.addr, ty: b.ty, fin, alts });
        }
        let qspecs = &specs[&Area::Q];
        let mut images: Vec<(String, &[u8])> = writes.iter().map(|(d, img)| (format!("given to driver {d}"), &img[..])).collect();
        images.push(("Runtime::io().outputs()".to_string(), rt.io().outputs()));
        for (label, img) in &images {
            stats.publish_comparisons += 1;
            match check_image(Area::Q, &out_before, img, qspecs) {
                Ok(mask) => {
                    if qspecs.len() == 2 && mask != 0b11 {
                        stats.overlap_conflicts += 1;
                        if mask == 0b01 {
                            stats.order_decl_wins_last += 1;
                        } else {
                            stats.order_decl_wins_first += 1;
                        }
                        if case.sched != 0 || case.ext {
                            stats.sched_conflicts += 1;
                        }
                    }
                    if let Some((tail, what)) = order_consistency(Area::Q, &mut order_mask, mask, qspecs) {
                        push(&mut viols, tail, format!("output image {label}: {what}"), c);
                    }
                    if *img != &out_before[..] {
                        stats.image_changed = true;
                    }
                }
                Err((tail, what)) => push(&mut viols, tail, format!("output image {label}: {what}"), c),
            }
        }
        for (d, img) in &writes {
            last_pub[*d] = (*img).clone();
        }
        let mspecs = &specs[&Area::M];
        stats.publish_comparisons += 1;
        match check_image(Area::M, &mem_before, rt.io().memory(), mspecs) {
            Ok(mask) => {
                if mspecs.len() == 2 && mask != 0b11 && (case.sched != 0 || case.ext) {
                    stats.sched_conflicts += 1;
                }
                if let Some((tail, what)) = order_consistency(Area::M, &mut order_mask, mask, mspecs) {
                    push(&mut viols, tail, format!("marker image after the cycle: {what}"), c);
                }
                if rt.io().memory() != &mem_before[..] {
                    stats.image_changed = true;
                }
            }
            Err((tail, what)) => push(&mut viols, tail, format!("marker image after the cycle: {what}"), c),
        }
        prev_mem_end = rt.io().memory().to_vec();
        // partial read of an input
        if let Some(pa) = &case.partial {
            let b = &case.binds[0];
            if b.addr.area == Area::I {
                let sub = pa.sub_addr(&b.addr);
                let pt = bits_type(pa.size());
                let obs = get_var(rt, &home, "pv").and_then(|v| value_bits(pt, &v));
                let whole = get_var(rt, &home, "b0").and_then(|v| value_bits(b.ty, &v));
                stats.latch_comparisons += 2;
                stats.image_changed = true;
                // the whole variable against the latched image (generic latch diagnosis)
                if let Some((tail, what)) = check_latch(b, whole, &model_first, &alts_in, var_before[0], "end-of-cycle") {
                    let tail = if tail.contains(":stale:") { format!("{tail}:end-of-cycle") } else { tail };
                    push(&mut viols, tail, what, c);
                }
                // the part against the whole variable; with a correct latch this is `sub` of the image
                if let Some(w) = whole {
                    let exp = (w >> (pa.idx * pa.size().bits())) & pa.size().mask();
                    if obs != Some(exp) {
                        push(
                            &mut viols,
                            format!("partial/read:%{}@{}", pa.kind, b.addr.tag()),
                            format!(
                                "b0.%{}{} of b0 = {w:#x} (AT {} : {}) read {:?}, expected {exp:#x} (= {} of the image)",
                                pa.kind, pa.idx, b.addr.text(), b.ty.name, obs, sub.text()
                            ),
                            c,
                        );
                    }
                }
            }
        }
        stats.normal_cycles_checked += 1;
        if after_clear.borrow().is_some() {
            stats.continuation_cycles += 1;
        }
    }
    Ok(CaseRun { viols, stats })
}

/// Cause features of a wrong driver-call sequence: the per-driver counts of the first driver that
/// deviates from one read (and one write), or the order if every count is right.
fn calls_tail(events: &[Ev], ndrv: usize, with_writes: bool) -> String {
    for d in 0..ndrv {
        let r = events.iter().filter(|e| matches!(e, Ev::Read { drv, .. } if *drv == d)).count();
        let w = events.iter().filter(|e| matches!(e, Ev::Write { drv, .. } if *drv == d)).count();
        if with_writes && (r != 1 || w != 1) {
            return format!("calls/reads={r}:writes={w}");
        }
        if !with_writes && r != 1 {
            return format!("calls/reads={r}");
        }
    }
    let pattern: String = events
        .iter()
        .filter_map(|e| match e {
            Ev::Read { drv, .. } => Some(format!("R{drv}")),
            Ev::Write { drv, .. } if with_writes => Some(format!("W{drv}")),
            _ => None,
        })
        .collect();
    format!("calls/order:{pattern}")
}

fn bind_tags(case: &Case) -> String {
    case.binds.iter().map(|b| format!("{}:{}", b.addr.tag(), b.ty.name)).collect::<Vec<_>>().join("+")
}

// ------------------------------------------------------------------------------------------
// family `api`: IoInterface::read / write directly
// ------------------------------------------------------------------------------------------

fn api_value(size: Size, bits: u64) -> Value {
    mk_value(bits_type(size), bits)
}

fn run_api(addr: &Addr, variant: usize) -> Vec<Violation> {
    let mut out = Vec::new();
    let case = json!({"family": "api", "addr": addr.text(), "variant": variant});
    let r = catch(|| {
        let mut v: Vec<(String, String)> = Vec::new();
        let mut rt = Runtime::new();
        rt.io_mut().resize(IMG, IMG, IMG);
        let fill = |c: usize, i: usize| mem_pat(c + variant, i);
        for (i, b) in rt.io_mut().inputs_mut().iter_mut().enumerate() {
            *b = fill(0, i);
        }
        for (i, b) in rt.io_mut().outputs_mut().iter_mut().enumerate() {
            *b = fill(2, i);
        }
        for (i, b) in rt.io_mut().memory_mut().iter_mut().enumerate() {
            *b = fill(4, i);
        }
        let snap = |rt: &Runtime| [rt.io().inputs().to_vec(), rt.io().outputs().to_vec(), rt.io().memory().to_vec()];
        let before = snap(&rt);
        let ai = match addr.area {
            Area::I => 0,
            Area::Q => 1,
            Area::M => 2,
        };
        let Ok(parsed) = IoAddress::parse(&addr.text()) else {
            v.push((format!("api/parse:{}", addr.tag()), format!("IoAddress::parse rejected {}", addr.text())));
            return v;
        };
        // read
        let exp = img_get(&before[ai], addr);
        match rt.io().read(&parsed) {
            Ok(val) => {
                let got = value_bits(bits_type(addr.size), &val);
                if got != Some(exp) {
                    v.push((
                        format!("api/read:{}", addr.tag()),
                        format!("IoInterface::read({}) = {val:?}, expected {exp:#x} from image [{}]", addr.text(), hex(&before[ai])),
                    ));
                }
            }
            Err(e) => v.push((format!("api/read-error:{}", addr.tag()), format!("IoInterface::read({}) failed: {e:?}", addr.text()))),
        }
        if snap(&rt) != before {
            v.push((format!("api/read-modifies:{}", addr.tag()), format!("IoInterface::read({}) modified an image", addr.text())));
        }
        // write the complement of what is there (every addressed bit changes)
        let newv = !exp & addr.size.mask();
        match rt.io_mut().write(&parsed, api_value(addr.size, newv)) {
            Ok(()) => {
                let after = snap(&rt);
                for x in 0..3 {
                    let mut want = before[x].clone();
                    if x == ai {
                        img_put(&mut want, addr, newv);
                    }
                    if after[x] != want {
                        let ws = [WriteSpec { addr: *addr, ty: bits_type(addr.size), fin: newv, alts: vec![] }];
                        let area = AREAS[x];
                        let specs: &[WriteSpec] = if x == ai { &ws } else { &[] };
                        let (tail, what) = check_image(area, &before[x], &after[x], specs)
                            .err()
                            .unwrap_or(("api/write".into(), "image differs".into()));
                        let tail = tail.strip_prefix("publish/").or(tail.strip_prefix("locality/")).unwrap_or(&tail).to_string();
                        v.push((
                            format!("api/write:{tail}"),
                            format!("IoInterface::write({}, {newv:#x}): %{} image: {what}", addr.text(), area.ch()),
                        ));
                    }
                }
            }
            Err(e) => v.push((format!("api/write-error:{}", addr.tag()), format!("IoInterface::write({}) failed: {e:?}", addr.text()))),
        }
        v
    });
    match r {
        Ok(v) => {
            for (tail, what) in v {
                out.push(Violation { signature: format!("C07/{tail}"), what, case: case.clone() });
            }
        }
        Err(m) => out.push(Violation {
            signature: format!("C07/panic/api/{}", norm_msg(&m)),
            what: format!("IoInterface access to {} panicked: {m}", addr.text()),
            case,
        }),
    }
    out
}

// ------------------------------------------------------------------------------------------
// family `short-image`: cells that cross or lie beyond the end of a short image
// ------------------------------------------------------------------------------------------

const SHORT_LENS: [usize; 6] = [0, 1, 2, 3, 5, 7];

/// little-endian decode of the bytes that exist, missing bytes read as 0 (the image's documented default)
fn get_zero_ext(img: &[u8], a: &Addr) -> u64 {
    let mut ext = img.to_vec();
    let end = a.byte_span().1;
    if ext.len() < end {
        ext.resize(end, 0);
    }
    img_get(&ext, a)
}

/// a write grows the image exactly to the end of the cell (new bytes 0) and changes only the cell
fn put_growing(img: &[u8], a: &Addr, v: u64) -> Vec<u8> {
    let mut ext = img.to_vec();
    let end = a.byte_span().1;
    if ext.len() < end {
        ext.resize(end, 0);
    }
    img_put(&mut ext, a, v);
    ext
}

fn span_position(a: &Addr, len: usize) -> &'static str {
    let (s, e) = a.byte_span();
    if e <= len {
        "inside"
    } else if s < len {
        "crosses-end"
    } else {
        "beyond"
    }
}

fn run_short(addr: &Addr, len: usize, bound: bool) -> Vec<Violation> {
    let case = json!({"family": "short-image", "mode": if bound { "bound" } else { "api" }, "addr": addr.text(), "len": len});
    let pos = span_position(addr, len);
    let tag = format!("%{}{}:{pos}", addr.area.ch(), addr.size.ch());
    let fill = |rt: &mut Runtime| {
        rt.io_mut().resize(len, len, len);
        for (i, b) in rt.io_mut().inputs_mut().iter_mut().enumerate() {
            *b = mem_pat(0, i);
        }
        for (i, b) in rt.io_mut().outputs_mut().iter_mut().enumerate() {
            *b = mem_pat(2, i);
        }
        for (i, b) in rt.io_mut().memory_mut().iter_mut().enumerate() {
            *b = mem_pat(4, i);
        }
    };
    let snap = |rt: &Runtime| [rt.io().inputs().to_vec(), rt.io().outputs().to_vec(), rt.io().memory().to_vec()];
    let ai = match addr.area {
        Area::I => 0,
        Area::Q => 1,
        Area::M => 2,
    };
    let r = catch(|| -> Result<Vec<(String, String)>, String> {
        let mut v: Vec<(String, String)> = Vec::new();
        if !bound {
            // (a) raw API on a fresh, short interface
            let mut rt = Runtime::new();
            fill(&mut rt);
            let before = snap(&rt);
            let parsed = IoAddress::parse(&addr.text()).map_err(|e| format!("{e:?}"))?;
            let exp = get_zero_ext(&before[ai], addr);
            match rt.io().read(&parsed) {
                Ok(val) => {
                    let got = value_bits(bits_type(addr.size), &val);
                    if got != Some(exp) {
                        v.push((
                            format!("short-image/read:{tag}"),
                            format!("IoInterface::read({}) on a {len}-byte image [{}] = {val:?}, expected {exp:#x} (existing bytes little-endian, missing bytes 0)", addr.text(), hex(&before[ai])),
                        ));
                    }
                }
                Err(e) => v.push((format!("short-image/read-error:{tag}"), format!("IoInterface::read({}) on a {len}-byte image failed: {e:?}", addr.text()))),
            }
            if snap(&rt) != before {
                v.push((format!("short-image/read-modifies:{tag}"), format!("IoInterface::read({}) changed an image", addr.text())));
            }
            let newv = !exp & addr.size.mask();
            match rt.io_mut().write(&parsed, api_value(addr.size, newv)) {
                Ok(()) => {
                    let after = snap(&rt);
                    for x in 0..3 {
                        let want = if x == ai { put_growing(&before[x], addr, newv) } else { before[x].clone() };
                        if after[x] != want {
                            v.push((
                                format!("short-image/write:{tag}"),
                                format!(
                                    "IoInterface::write({}, {newv:#x}) on {len}-byte images: %{} image is [{}], expected [{}] (grown exactly to the end of the cell, other bytes unchanged)",
                                    addr.text(), AREAS[x].ch(), hex(&after[x]), hex(&want)
                                ),
                            ));
                        }
                    }
                }
                Err(e) => v.push((format!("short-image/write-error:{tag}"), format!("IoInterface::write({}) on a {len}-byte image failed: {e:?}", addr.text()))),
            }
            return Ok(v);
        }
        // (b) a bound variable; the driver is handed (and fills) the short input image
        let ty = bits_type(addr.size);
        let mut src = format!("PROGRAM Main\nVAR\n  b0 AT {} : {};\n  r0 : {};\n  s0 : {};\nEND_VAR\n", addr.text(), ty.name, ty.name, ty.name);
        if addr.area.reads() {
            src.push_str("r0 := b0;\n");
        }
        if addr.area.writes() {
            src.push_str("b0 := s0;\n");
        }
        src.push_str("END_PROGRAM\n");
        let mut h = TestHarness::from_source(&src).map_err(|e| format!("short-image program rejected: {e}"))?;
        let rt = h.runtime_mut();
        fill(rt);
        let sh = Arc::new(Mutex::new(Shared { events: Vec::new(), calls: vec![0; 1], fail_read: false, fail_write: false }));
        rt.add_io_driver("d0", Box::new(LogDriver { id: 0, ndrv: 1, sh: sh.clone() }));
        let home = find_home(rt, Shape::Local)?;
        let sval = src_bits(ty, 0, 1, 2, 0, 1);
        set_var(rt, &home, "s0", mk_value(ty, sval))?;
        let before = snap(rt);
        if rt.execute_cycle().is_err() {
            return Ok(v); // a runtime that refuses short images with an error is accepted
        }
        let supplied: Vec<u8> = (0..len).map(|i| in_pat(0, 0, i)).collect();
        if addr.area.reads() {
            let latched = if addr.area == Area::I { &supplied } else { &before[2] };
            let exp = get_zero_ext(latched, addr);
            let obs = get_var(rt, &home, "r0").and_then(|x| value_bits(ty, &x));
            if obs != Some(exp) {
                v.push((
                    format!("short-image/bound-read:{tag}"),
                    format!("b0 AT {} : {} read {obs:?} from the {len}-byte image [{}], expected {exp:#x} (existing bytes little-endian, missing bytes 0)", addr.text(), ty.name, hex(latched)),
                ));
            }
        }
        if rt.io().inputs() != &supplied[..] {
            v.push((format!("short-image/input-image:{tag}"), format!("input image after the cycle [{}] differs from the {len} bytes the driver supplied [{}]", hex(rt.io().inputs()), hex(&supplied))));
        }
        if addr.area.writes() {
            let want = put_growing(&before[ai], addr, sval);
            let got = if addr.area == Area::Q { rt.io().outputs().to_vec() } else { rt.io().memory().to_vec() };
            if got != want {
                v.push((
                    format!("short-image/bound-write:{tag}"),
                    format!("b0 AT {} : {} := {sval:#x} on a {len}-byte image: image is [{}], expected [{}]", addr.text(), ty.name, hex(&got), hex(&want)),
                ));
            }
            if addr.area == Area::Q {
                let given: Vec<Vec<u8>> = sh.lock().unwrap().events.iter().filter_map(|e| if let Ev::Write { image, .. } = e { Some(image.clone()) } else { None }).collect();
                if given.len() != 1 || given[0] != want {
                    v.push((
                        format!("short-image/bound-publish:{tag}"),
                        format!("the driver was given {:?}, expected one image [{}]", given.iter().map(|g| hex(g)).collect::<Vec<_>>(), hex(&want)),
                    ));
                }
            }
        }
        let after = snap(rt);
        for x in 0..3 {
            if x != ai && x != 0 && after[x] != before[x] {
                v.push((format!("short-image/other-area:{tag}"), format!("the %{} image changed although nothing is bound there", AREAS[x].ch())));
            }
        }
        Ok(v)
    });
    match r {
        Ok(Ok(v)) => v.into_iter().map(|(tail, what)| Violation { signature: format!("C07/{tail}"), what, case: case.clone() }).collect(),
        Ok(Err(m)) => vec![Violation { signature: "C07/machinery".into(), what: format!("short-image harness: {m}"), case }],
        Err(m) => vec![Violation {
            signature: format!("C07/panic/short-image/{}", norm_msg(&m)),
            what: format!("access to {} on a {len}-byte image panicked: {m}", addr.text()),
            case,
        }],
    }
}

// ------------------------------------------------------------------------------------------
// enumeration
// ------------------------------------------------------------------------------------------

fn spans_touch(a: &Addr, b: &Addr) -> bool {
    let (s1, e1) = a.byte_span();
    let (s2, e2) = b.byte_span();
    s1 <= e2 && s2 <= e1
}

fn relation(a: &Addr, b: &Addr) -> &'static str {
    if a == b {
        return "same";
    }
    let (s1, e1) = a.bit_span();
    let (s2, e2) = b.bit_span();
    if s1 < e2 && s2 < e1 {
        return "overlap";
    }
    let (bs1, be1) = a.byte_span();
    let (bs2, be2) = b.byte_span();
    if bs1 < be2 && bs2 < be1 {
        "same-byte"
    } else {
        "adjacent"
    }
}

struct Plan {
    shapes_single: Vec<Shape>,
    shapes_pair: Vec<Shape>,
    shapes_partial: Vec<Shape>,
    faults: Vec<usize>,
    pair_all_types: bool,
    pair_ordered: bool,
    partial_offsets: Vec<usize>,
    /// value schedules x external image writes (see `Case::sched`, `Case::ext`)
    shapes_sched_single: Vec<Shape>,
    shapes_fault: Vec<Shape>,
    shapes_clear: Vec<Shape>,
    shapes_fault_pair: Vec<Shape>,
    pair_scheds: Vec<u8>,
}

fn variants(shapes: &[Shape], faults: &[usize], has_q: bool, full: bool) -> Vec<(Shape, usize, usize)> {
    // (shape, drivers, fault_cycle), simplest first
    let mut v = Vec::new();
    for &f in std::iter::once(&0).chain(faults.iter()) {
        if f != 0 && !has_q {
            continue;
        }
        for &sh in shapes {
            if f != 0 && sh == Shape::AllTasked {
                continue;
            }
            for d in [1usize, 2] {
                if !full {
                    // reduced product: one driver for local/varcfg, two for tasks/fb
                    let want = if matches!(sh, Shape::Local | Shape::VarCfg) { 1 } else { 2 };
                    if d != want {
                        continue;
                    }
                }
                v.push((sh, d, f));
            }
        }
    }
    v
}

fn enumerate(plan: &Plan) -> Vec<Case> {
    let mut cases = Vec::new();
    // singles
    let mut singles: Vec<Bind> = Vec::new();
    for area in AREAS {
        for addr in addresses(area) {
            for ty in types_of(addr.size) {
                singles.push(Bind { addr, ty });
            }
        }
    }
    for (sh, d, f) in variants(&plan.shapes_single, &plan.faults, true, true) {
        for b in &singles {
            if f != 0 && b.addr.area != Area::Q {
                continue;
            }
            cases.push(Case { family: "single", shape: sh, drivers: d, fault_cycle: f, binds: vec![b.clone()], partial: None, sched: 0, ext: false, policy: 0, safe: Vec::new(), fault_pos: 1, fault_kind: 0, clear: 0 });
        }
    }
    // partial access on a bound bit-string variable
    for &sh in &plan.shapes_partial {
        for area in AREAS {
            for size in [Size::B, Size::W, Size::D, Size::L] {
                for &byte in &plan.partial_offsets {
                    let addr = Addr { area, size, byte, bit: 0 };
                    for kind in ['X', 'B', 'W', 'D'] {
                        let p = Partial { kind, idx: 0 };
                        if p.size().bits() >= size.bits() {
                            continue;
                        }
                        for idx in 0..size.bits() / p.size().bits() {
                            cases.push(Case {
                                family: "partial",
                                shape: sh,
                                drivers: 1,
                                fault_cycle: 0,
                                binds: vec![Bind { addr, ty: bits_type(size) }],
                                partial: Some(Partial { kind, idx }),
                                sched: 0,
                                ext: false,
                                policy: 0,
                                safe: Vec::new(),
                                fault_pos: 1,
                                fault_kind: 0,
                                clear: 0,
                            });
                        }
                    }
                }
            }
        }
    }
    // value schedules (keep/change per cycle) x external image writes, output and marker areas
    for &sh in &plan.shapes_sched_single {
        for ext in [false, true] {
            for sched in [0b0000u8, 0b0001, 0b0100, 0b0101] {
                if sched == 0 && !ext {
                    continue; // the plain single cases above
                }
                for b in singles.iter().filter(|b| b.addr.area.writes()) {
                    cases.push(Case { family: "single", shape: sh, drivers: 1, fault_cycle: 0, binds: vec![b.clone()], partial: None, sched, ext, policy: 0, safe: Vec::new(), fault_pos: 1, fault_kind: 0, clear: 0 });
                }
            }
        }
    }
    for ext in [false, true] {
        for &sched in &plan.pair_scheds {
            if sched == 0 && !ext {
                continue;
            }
            for area in [Area::Q, Area::M] {
                let addrs = addresses(area);
                for (i, a) in addrs.iter().enumerate() {
                    for (j, b) in addrs.iter().enumerate() {
                        // only pairs that really share bits: that is where the order of the two writes shows
                        if !matches!(relation(a, b), "overlap" | "same") {
                            continue;
                        }
                        let ta = types_of(a.size);
                        let tb = types_of(b.size);
                        let combos: Vec<(&'static Ty, &'static Ty)> = if plan.pair_all_types {
                            ta.iter().flat_map(|x| tb.iter().map(move |y| (*x, *y))).collect()
                        } else {
                            vec![(ta[(i + j + sched as usize) % ta.len()], tb[(i + 2 * j + 1 + sched as usize) % tb.len()])]
                        };
                        for (x, y) in combos {
                            cases.push(Case {
                                family: "pair",
                                shape: Shape::Local,
                                drivers: 1,
                                fault_cycle: 0,
                                binds: vec![Bind { addr: *a, ty: x }, Bind { addr: *b, ty: y }],
                                partial: None,
                                sched,
                                ext,
                                policy: 0,
                                safe: Vec::new(),
                                fault_pos: 1,
                                fault_kind: 0,
                                clear: 0,
                            });
                        }
                    }
                }
            }
        }
    }
    // fault policy x safe-state entry set x position of the fault among the output assignments
    for (sh, d, f) in variants(&plan.shapes_fault, &plan.faults, true, plan.pair_all_types) {
        if f == 0 {
            continue;
        }
        for b in singles.iter().filter(|b| b.addr.area == Area::Q) {
            let a = b.addr;
            let all = vec![(a, safe_bits(&a))];
            // an entry that covers the bound address only partly
            let part = match a.size {
                Size::X => None,
                Size::B => Some(Addr { area: Area::Q, size: Size::X, byte: a.byte, bit: 0 }),
                _ => Some(Addr { area: Area::Q, size: Size::B, byte: a.byte + 1, bit: 0 }),
            };
            let mut combos: Vec<(u8, Vec<(Addr, u64)>, u8)> = vec![(0, vec![], 0), (0, vec![], 2), (2, vec![], 1)];
            for pos in 0..3u8 {
                combos.push((1, vec![], pos));
                combos.push((1, all.clone(), pos));
                if let Some(pa) = part {
                    combos.push((1, vec![(pa, safe_bits(&pa))], pos));
                }
            }
            for (policy, safe, fault_pos) in combos {
                let mut c = Case::plain("single", sh, d, f, vec![b.clone()]);
                c.policy = policy;
                c.safe = safe;
                c.fault_pos = fault_pos;
                cases.push(c);
            }
        }
    }
    // SafeHalt with a safe entry for a strict subset (the first) of two bound output addresses
    for (sh, d, f) in variants(&plan.shapes_fault_pair, &plan.faults, true, plan.pair_all_types) {
        if f == 0 {
            continue;
        }
        let addrs = addresses(Area::Q);
        for (i, a) in addrs.iter().enumerate() {
            for (j, b) in addrs.iter().enumerate() {
                if !spans_touch(a, b) {
                    continue;
                }
                let ta = types_of(a.size);
                let tb = types_of(b.size);
                let combos: Vec<(&'static Ty, &'static Ty)> = if plan.pair_all_types {
                    ta.iter().flat_map(|x| tb.iter().map(move |y| (*x, *y))).collect()
                } else {
                    vec![(ta[(i + j) % ta.len()], tb[(i + 2 * j + 1) % tb.len()])]
                };
                for (x, y) in combos {
                    let mut c = Case::plain("pair", sh, d, f, vec![Bind { addr: *a, ty: x }, Bind { addr: *b, ty: y }]);
                    c.policy = 1;
                    c.safe = vec![(*a, safe_bits(a))];
                    cases.push(c);
                }
            }
        }
    }
    // cleared faults: fault kind x way of clearing it, then two more fully checked cycles
    for (sh, d, _) in variants(&plan.shapes_clear, &[], true, plan.pair_all_types) {
        for clear in 1..=3u8 {
            for kind in [0u8, 1, 3, 4] {
                for b in &singles {
                    if kind == 1 && !(b.addr.area.writes() && unencodable(b.ty).is_some()) {
                        continue;
                    }
                    let mut c = Case::plain("single", sh, d, 2, vec![b.clone()]);
                    c.fault_kind = kind;
                    c.clear = clear;
                    cases.push(c);
                }
            }
            // an input, an output and a marker binding together; the output cannot be encoded
            for addr in addresses(Area::I) {
                for ty in types_of(addr.size) {
                    if unencodable(ty).is_none() {
                        continue;
                    }
                    let binds = AREAS.iter().map(|&a| Bind { addr: Addr { area: a, ..addr }, ty }).collect();
                    let mut c = Case::plain("tri", sh, d, 2, binds);
                    c.fault_kind = 1;
                    c.clear = clear;
                    cases.push(c);
                }
            }
        }
    }
    // the second of two bound outputs cannot be encoded: the first one has already been encoded
    for policy in [0u8, 1] {
        let addrs = addresses(Area::Q);
        for (i, a) in addrs.iter().enumerate() {
            for (j, b) in addrs.iter().enumerate() {
                if !spans_touch(a, b) {
                    continue;
                }
                let ta = types_of(a.size);
                let tb: Vec<&'static Ty> = types_of(b.size).into_iter().filter(|t| unencodable(t).is_some()).collect();
                if tb.is_empty() {
                    continue;
                }
                let combos: Vec<(&'static Ty, &'static Ty)> = if plan.pair_all_types {
                    ta.iter().flat_map(|x| tb.iter().map(move |y| (*x, *y))).collect()
                } else {
                    vec![(ta[(i + j) % ta.len()], tb[(i + 2 * j + 1) % tb.len()])]
                };
                for (x, y) in combos {
                    let mut c = Case::plain("pair", Shape::Local, 1, 2, vec![Bind { addr: *a, ty: x }, Bind { addr: *b, ty: y }]);
                    c.fault_kind = 2;
                    c.policy = policy;
                    cases.push(c);
                }
            }
        }
    }
    // the same address in all three areas
    for (sh, d, f) in variants(&plan.shapes_single, &plan.faults, true, false) {
        for addr in addresses(Area::I) {
            for ty in types_of(addr.size) {
                let binds = AREAS.iter().map(|&a| Bind { addr: Addr { area: a, ..addr }, ty }).collect();
                cases.push(Case { family: "tri", shape: sh, drivers: d, fault_cycle: f, binds, partial: None, sched: 0, ext: false, policy: 0, safe: Vec::new(), fault_pos: 1, fault_kind: 0, clear: 0 });
            }
        }
    }
    // pairs with overlapping or touching byte spans
    for (sh, d, f) in variants(&plan.shapes_pair, &plan.faults, true, plan.pair_all_types) {
        for area in AREAS {
            if f != 0 && area != Area::Q {
                continue;
            }
            let addrs = addresses(area);
            for (i, a) in addrs.iter().enumerate() {
                for (j, b) in addrs.iter().enumerate() {
                    if !plan.pair_ordered && j < i {
                        continue;
                    }
                    if !spans_touch(a, b) {
                        continue;
                    }
                    let ta = types_of(a.size);
                    let tb = types_of(b.size);
                    if plan.pair_all_types {
                        for x in &ta {
                            for y in &tb {
                                cases.push(Case { family: "pair", shape: sh, drivers: d, fault_cycle: f, binds: vec![Bind { addr: *a, ty: x }, Bind { addr: *b, ty: y }], partial: None, sched: 0, ext: false, policy: 0, safe: Vec::new(), fault_pos: 1, fault_kind: 0, clear: 0 });
                            }
                        }
                    } else {
                        // one type per member, rotating through the types of its size
                        let x = ta[(i + j) % ta.len()];
                        let y = tb[(i + 2 * j + 1) % tb.len()];
                        cases.push(Case { family: "pair", shape: sh, drivers: d, fault_cycle: f, binds: vec![Bind { addr: *a, ty: x }, Bind { addr: *b, ty: y }], partial: None, sched: 0, ext: false, policy: 0, safe: Vec::new(), fault_pos: 1, fault_kind: 0, clear: 0 });
                    }
                }
            }
        }
    }
    cases
}

fn hash64(s: &str) -> u64 {
    let mut h: u64 = 0xcbf29ce484222325;
    for b in s.bytes() {
        h ^= b as u64;
        h = h.wrapping_mul(0x100000001b3);
    }
    h
}

pub fn run(ctx: &Ctx) -> EngineResult {
    quiet_panics();
    let mut rep = Report::new("exploration");
    let deadline = Instant::now() + StdDuration::from_secs(ctx.tier.pick(38, 840));
    let all = vec![Shape::Local, Shape::Tasks, Shape::VarCfg, Shape::Fb];
    let mut with_idle = all.clone();
    with_idle.push(Shape::AllTasked);
    let plan = Plan {
        shapes_single: with_idle.clone(),
        shapes_pair: ctx.tier.pick(all.clone(), with_idle.clone()),
        shapes_sched_single: ctx.tier.pick(vec![Shape::Local, Shape::Tasks], all.clone()),
        shapes_fault: all.clone(),
        shapes_clear: ctx.tier.pick(vec![Shape::Local, Shape::Tasks], all.clone()),
        shapes_fault_pair: vec![Shape::Local, Shape::Tasks],
        // quick: every keep/change combination occurs once in cycle 2 and once in cycle 3
        pair_scheds: ctx.tier.pick(vec![0b0000, 0b1100, 0b1001, 0b0110, 0b0011], (0..16).collect()),
        shapes_partial: ctx.tier.pick(vec![Shape::Local], vec![Shape::Local, Shape::Tasks]),
        faults: ctx.tier.pick(vec![2], vec![1, 2, 3]),
        pair_all_types: ctx.tier.pick(false, true),
        pair_ordered: true,
        partial_offsets: ctx.tier.pick(vec![0, 3], OFFSETS.to_vec()),
    };
    let mut evaluations = 0u64;
    let mut exhaustive = true;

    // ---- non-alphabet types: probed once, recorded, never reported --------------------------
    let mut non_alpha = Vec::new();
    for (name, sz) in NON_ALPHABET_TYPES {
        for area in ['I', 'Q', 'M'] {
            let src = format!("PROGRAM Main\nVAR\n  b0 AT %{area}{sz}0 : {name};\nEND_VAR\nEND_PROGRAM\n");
            let outcome = match catch(|| TestHarness::from_source(&src).map(|mut h| {
                h.runtime_mut().io_mut().resize(IMG, IMG, IMG);
                h.runtime_mut().execute_cycle()
            })) {
                Ok(Ok(Ok(()))) => "cycle ok".to_string(),
                Ok(Ok(Err(e))) => format!("cycle fault {}", err_name(&e)),
                Ok(Err(_)) => "rejected by the compiler".to_string(),
                Err(m) => format!("panic {}", norm_msg(&m)),
            };
            non_alpha.push(json!({"binding": format!("%{area}{sz}0 : {name}"), "outcome": outcome}));
        }
    }
    rep.set("non_alphabet_types", J::Array(non_alpha));

    // ---- family api -------------------------------------------------------------------------
    let mut api_cases = 0u64;
    for area in AREAS {
        for addr in addresses(area) {
            for variant in 0..2 {
                api_cases += 1;
                rep.violations_from(run_api(&addr, variant));
            }
        }
    }
    evaluations += api_cases;
    rep.set("api_cases", api_cases);

    // ---- family short-image -----------------------------------------------------------------
    let mut short_cases = 0u64;
    let mut short_positions: BTreeMap<&'static str, u64> = BTreeMap::new();
    let mut short_seen: HashSet<(char, Size, &'static str)> = HashSet::new();
    for bound in [false, true] {
        for len in SHORT_LENS {
            for area in AREAS {
                for addr in addresses(area) {
                    if addr.size == Size::X && !matches!(addr.bit, 0 | 3 | 7) {
                        continue;
                    }
                    short_cases += 1;
                    *short_positions.entry(span_position(&addr, len)).or_insert(0) += 1;
                    let vs = run_short(&addr, len, bound);
                    if let Some(m) = vs.iter().find(|v| v.signature == "C07/machinery") {
                        return machinery(m.what.clone());
                    }
                    // the image code is the same for all areas and for bound variables: a
                    // (read|write, size, position) that already failed is not reported again
                    for v in vs {
                        let rw = if v.signature.contains("read") { 'r' } else { 'w' };
                        if v.signature.starts_with("C07/short-image/") && !short_seen.insert((rw, addr.size, span_position(&addr, len))) {
                            continue;
                        }
                        rep.violation(v);
                    }
                }
            }
        }
    }
    if ["inside", "crosses-end", "beyond"].iter().any(|p| !short_positions.contains_key(p)) {
        return machinery(format!("short-image family does not reach every span position: {short_positions:?}"));
    }
    evaluations += short_cases;
    rep.set("short_image_cases", short_cases);
    rep.set("short_image_span_positions", json!(short_positions));

    // ---- binding families -------------------------------------------------------------------
    let cases = enumerate(&plan);
    eprintln!("[C07] {} binding cases enumerated at {:.1}s", cases.len(), ctx.elapsed());
    let res = par_map(&cases, ctx.threads, 4 << 20, Some(deadline), |_, c| run_case(c));
    let mut per_family: BTreeMap<String, u64> = BTreeMap::new();
    let mut rejected: BTreeMap<String, u64> = BTreeMap::new();
    let mut exchange_faults: BTreeMap<String, u64> = BTreeMap::new();
    let mut checked_types: HashSet<(char, &'static str)> = HashSet::new();
    let mut shapes_ok: HashSet<&'static str> = HashSet::new();
    let mut relations: BTreeMap<&'static str, u64> = BTreeMap::new();
    let mut distinct: HashSet<u64> = HashSet::new();
    let mut tot = Stats::default();
    let mut executed = 0usize;
    let sample_at: Vec<usize> = vec![1, cases.len() / 40, cases.len() / 8, cases.len() / 3, cases.len() * 3 / 4];
    let mut broken: HashSet<(char, Size)> = HashSet::new();
    let mut subsumed = 0u64;
    let mut sched_cases = 0u64;
    let mut policy_cases = 0u64;
    let mut continued: BTreeMap<String, u64> = BTreeMap::new();
    for (case, r) in cases.iter().zip(res) {
        let Some(r) = r else {
            exhaustive = false;
            continue;
        };
        executed += 1;
        evaluations += 1;
        let run = match r {
            Ok(run) => run,
            Err(m) => return machinery(format!("harness self-check failed: {m}")),
        };
        *per_family.entry(format!("{}:{}", case.family, case.shape.name())).or_insert(0) += 1;
        let st = &run.stats;
        if let Some(why) = &st.rejected {
            *rejected.entry(format!("{}:{}:{}", case.family, case.shape.name(), norm_msg(why))).or_insert(0) += 1;
        }
        if let Some(x) = &st.exchange_fault {
            *exchange_faults.entry(x.clone()).or_insert(0) += 1;
        }
        if st.normal_cycles_checked > 0 {
            shapes_ok.insert(case.shape.name());
            for b in &case.binds {
                checked_types.insert((b.addr.area.ch(), b.ty.name));
            }
            if st.image_changed {
                distinct.insert(hash64(&case.to_json().to_string()));
            }
            if case.family == "pair" {
                *relations.entry(relation(&case.binds[0].addr, &case.binds[1].addr)).or_insert(0) += 1;
            }
        }
        tot.normal_cycles_checked += st.normal_cycles_checked;
        tot.latch_comparisons += st.latch_comparisons;
        tot.publish_comparisons += st.publish_comparisons;
        tot.fault_cycles_checked += st.fault_cycles_checked;
        tot.fault_value_was_visible += st.fault_value_was_visible;
        tot.overlap_conflicts += st.overlap_conflicts;
        tot.order_decl_wins_last += st.order_decl_wins_last;
        tot.order_decl_wins_first += st.order_decl_wins_first;
        tot.idle_cycles_checked += st.idle_cycles_checked;
        tot.idle_outputs_changed += st.idle_outputs_changed;
        tot.sched_conflicts += st.sched_conflicts;
        tot.safe_deliveries += st.safe_deliveries;
        tot.continuation_cycles += st.continuation_cycles;
        if case.clear != 0 && st.continuation_cycles > 0 {
            *continued.entry(format!("{}:{}", KIND_NAMES[case.fault_kind as usize % 5], CLEAR_NAMES[case.clear as usize % 4])).or_insert(0) += 1;
        }
        if case.policy != 0 || !case.safe.is_empty() || case.fault_pos != 1 {
            policy_cases += 1;
        }
        if case.sched != 0 || case.ext {
            sched_cases += 1;
        }
        if rep.samples.len() < 5 && st.normal_cycles_checked > 0 && sample_at.contains(&executed) {
            rep.sample(json!({"case": case.to_json(), "source": source_of(case)}));
        }
        // Minimal failing configuration: a pair/tri case is only reported for a clause group
        // (write side: publish/locality, read side: latch) if no member's size already failed
        // that group in a one-binding case — otherwise one broken size would show up once per
        // partner size and relation. Enumeration order guarantees singles come first.
        for v in run.viols {
            if let Some(rest) = v.signature.strip_prefix("C07/after-fault/") {
                // the same clause already fails for this size without any fault: nothing new
                let g = match rest.rsplit(':').next() {
                    Some("publish") | Some("locality") => Some('w'),
                    Some("latch") => Some('r'),
                    _ => None,
                };
                if let Some(g) = g {
                    let relevant = |b: &&Bind| if g == 'w' { b.addr.area.writes() } else { b.addr.area.reads() };
                    if case.binds.iter().filter(relevant).any(|b| broken.contains(&(g, b.addr.size))) {
                        subsumed += 1;
                        continue;
                    }
                }
                rep.violation(v);
                continue;
            }
            let group = if v.signature.ends_with(":order-flip") {
                None // needs two bindings by nature
            } else if v.signature.starts_with("C07/publish/") || v.signature.starts_with("C07/locality/") {
                Some('w')
            } else if v.signature.starts_with("C07/latch/") {
                Some('r')
            } else {
                None
            };
            if let Some(g) = group {
                let relevant = |b: &&Bind| if g == 'w' { b.addr.area.writes() } else { b.addr.area.reads() };
                if case.binds.len() == 1 {
                    broken.insert((g, case.binds[0].addr.size));
                } else if case.binds.iter().filter(relevant).any(|b| broken.contains(&(g, b.addr.size))) {
                    subsumed += 1;
                    continue;
                }
            }
            rep.violation(v);
        }
    }
    rep.set("pair_violations_subsumed_by_single_binding_findings", subsumed);
    if !exchange_faults.is_empty() {
        exhaustive = false;
        rep.cap(format!("cases not checked because the I/O exchange itself faulted (not reported, see assumptions): {exchange_faults:?}"));
    }
    if executed < cases.len() {
        rep.cap(format!("wall cap: {executed} of {} binding cases executed (enumeration order, simplest first)", cases.len()));
    }
    // ---- vacuity guards ---------------------------------------------------------------------
    for sh in plan.shapes_single.iter() {
        if !shapes_ok.contains(sh.name()) {
            return machinery(format!("binding site '{}' is vacuous: no case compiled and completed a cycle ({rejected:?})", sh.name()));
        }
    }
    if executed == cases.len() {
        for area in AREAS {
            for t in TYPES.iter() {
                if !checked_types.contains(&(area.ch(), t.name)) {
                    return machinery(format!(
                        "type {} in area %{} is vacuous: no cycle with such a binding completed (exchange faults: {exchange_faults:?}, rejected: {rejected:?})",
                        t.name, area.ch()
                    ));
                }
            }
        }
    }
    if tot.latch_comparisons == 0 || tot.publish_comparisons == 0 || tot.fault_cycles_checked == 0 || tot.fault_value_was_visible == 0 {
        return machinery(format!("vacuous exploration: {tot:?}"));
    }
    if executed == cases.len() && (tot.idle_cycles_checked == 0 || tot.idle_outputs_changed == 0) {
        return machinery(format!("no idle cycle (no task due) with an externally changed output variable was checked: {tot:?}"));
    }
    if executed == cases.len() {
        for kind in ["program", "output-phase", "driver-read", "driver-write"] {
            for clear in &CLEAR_NAMES[1..] {
                if !continued.contains_key(&format!("{kind}:{clear}")) {
                    return machinery(format!("no case continued after a {kind} fault cleared by {clear}: {continued:?}"));
                }
            }
        }
    }
    if executed == cases.len() && (policy_cases == 0 || tot.safe_deliveries == 0) {
        return machinery("no faulted cycle under SafeHalt delivered an image to a driver: the fault-policy family is vacuous");
    }
    if executed == cases.len() && (sched_cases == 0 || tot.sched_conflicts == 0) {
        return machinery("no keep/change value schedule on overlapping bindings reached a cycle with conflicting final values");
    }
    if executed == cases.len() && tot.overlap_conflicts == 0 {
        return machinery("no overlapping output pair with conflicting final values was executed");
    }
    rep.set("evaluations", evaluations);
    rep.set("distinct_nontrivial", distinct.len() as u64);
    rep.set(
        "rule",
        "cases = api (every address x 2 fill patterns) + binding sets: every single binding (area x {X bit0-7,B,W,D,L} x byte offset {0,1,2,3,7} x every declared type of that width) and every pair in one area whose byte spans overlap or touch (quick: unordered, one rotating type per member; thorough: ordered, all type pairs), the same address in %I+%Q+%M, and IEC partial accesses on bound bit strings; each multiplied by binding site {program VAR, VAR_GLOBAL with two tasks + background program, AT %* + VAR_CONFIG, FB VAR, VAR_GLOBAL with every program task-bound at INTERVAL 100 ms and cycles at t=0,100,125,225 ms (two idle cycles, output variables changed through the storage API)}, 1 or 2 logging drivers and {no fault, division by zero in cycle f}; for %Q/%M singles and bit-sharing pairs additionally value schedule (per cycle 2,3 each variable keeps or changes its final value) x {no, yes} external IoInterface::write of a different pattern into the bound spans before cycles 2 and 3; for %Q singles in faulting runs additionally fault policy {Halt, SafeHalt, Restart} x safe-state entries {none, the bound address, an entry covering it partly} x fault placed after {none, some, all} output assignments, and %Q pairs under SafeHalt with a safe entry for the first binding only; and for every single (and I+Q+M triple) fault kind {division by zero in the program, bound variable holding a value that cannot be encoded when the outputs are published, driver read error, driver write error} in cycle 2 x the fault cleared by {clear_fault, restart(Warm), restart(Cold)} followed by two more cycles under the full oracle. distinct_nontrivial = distinct cases (hash of the case description) that compiled, completed at least one fully checked cycle and in which a latched value or a written image differed from the 0xA5 pre-fill.",
    );
    rep.set("binding_cases_enumerated", cases.len() as u64);
    rep.set("binding_cases_executed", executed as u64);
    rep.set("cases_per_family_and_site", json!(per_family));
    rep.set("rejected_by_compiler", json!(rejected));
    rep.set("exchange_faults_not_reported", json!(exchange_faults));
    rep.set("normal_cycles_checked", tot.normal_cycles_checked);
    rep.set("latch_comparisons", tot.latch_comparisons);
    rep.set("image_comparisons", tot.publish_comparisons);
    rep.set("fault_or_post_fault_cycles_checked", tot.fault_cycles_checked);
    rep.set("fault_cycles_with_program_value_in_variable", tot.fault_value_was_visible);
    rep.set("pair_relations_checked", json!(relations));
    rep.set("overlap_conflicts_checked", tot.overlap_conflicts);
    rep.set("overlap_later_declared_binding_wins", tot.order_decl_wins_last);
    rep.set("overlap_earlier_declared_binding_wins", tot.order_decl_wins_first);
    rep.set("idle_cycles_checked", tot.idle_cycles_checked);
    rep.set("idle_cycles_with_output_variable_changed_from_outside", tot.idle_outputs_changed);
    rep.set("value_schedule_or_external_write_cases", sched_cases);
    rep.set("value_schedule_cycles_with_conflicting_overlap", tot.sched_conflicts);
    rep.set("fault_policy_safe_state_cases", policy_cases);
    rep.set("safe_halt_fault_cycles_with_driver_delivery", tot.safe_deliveries);
    rep.set("cases_continued_after_cleared_fault", json!(continued));
    rep.set("cycles_fully_checked_after_cleared_fault", tot.continuation_cycles);
    rep.set("types_in_alphabet", TYPES.len() as u64);
    rep.set("exhaustive", exhaustive);
    rep.assume("value type tags are not inspected (C03); values are compared as bit patterns of the declared width");
    rep.assume("a fault raised by the I/O exchange itself (coercion error) makes the cycle a faulted cycle, which may publish nothing; such cycles are counted in exchange_faults_not_reported");
    rep.assume("overlapping output/marker bindings with different final values: either serialisation of the two writes is accepted, but the same one in every cycle of a run (published bytes must be a function of the final values)");
    rep.assume("AT size prefix and declared type agree in every enumerated binding; TIME/DATE-like types are outside the alphabet (see non_alphabet_types)");
    Ok(rep)
}

pub fn check_case(case: &J) -> Vec<Violation> {
    if case["family"].as_str() == Some("short-image") {
        let Some(addr) = case["addr"].as_str().and_then(Addr::parse) else {
            return Vec::new();
        };
        return run_short(&addr, case["len"].as_u64().unwrap_or(0) as usize, case["mode"].as_str() == Some("bound"));
    }
    if case["family"].as_str() == Some("api") {
        let Some(addr) = case["addr"].as_str().and_then(Addr::parse) else {
            return Vec::new();
        };
        return run_api(&addr, case["variant"].as_u64().unwrap_or(0) as usize);
    }
    let Some(c) = Case::from_json(case) else {
        return Vec::new();
    };
    match run_case(&c) {
        Ok(r) => r.viols,
        Err(m) => vec![Violation {
            signature: "C07/machinery".into(),
            what: format!("harness self-check failed on replay: {m}"),
            case: case.clone(),
        }],
    }
}

pub fn workers() -> Vec<(&'static str, WorkerFn)> {
    Vec::new()
}
