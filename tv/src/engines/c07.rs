//! C07 — engine not implemented yet.

use crate::fw::*;
use crate::iso::WorkerFn;
use serde_json::Value;

pub fn run(_ctx: &Ctx) -> EngineResult {
    machinery("engine C07 not implemented")
}

pub fn check_case(_case: &Value) -> Vec<Violation> {
    Vec::new()
}

pub fn workers() -> Vec<(&'static str, WorkerFn)> {
    Vec::new()
}
