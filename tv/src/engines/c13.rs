//! C13 — incremental analysis equals from-scratch analysis after any edit history
//! (core X2 without merging: the hidden state under test — the salsa memo tables and the three
//! views of the file set inside `trust_hir::Database` — is not observable, so a state IS the
//! history that reaches it; every history is replayed on a brand-new incremental `Database`).
//!
//! Alphabet
//!   files      FileId(0..F)            F = 3 (thorough: 4)
//!   edits      set(f, text) for every text of the menu below, remove(f)   (no-op edits — same
//!              text again, removing an absent file — are kept: they are distinct code paths)
//!   queries    diagnostics(f), analyze(f), file_symbols(f), type_of(f, every expr id + 2 ids
//!              beyond), expr_id_at_offset(f, both ends of every token-like run + end + end+1)
//!              — the whole query surface named by the property
//!   gaps       before every edit: nothing / one single (kind,file) query / every query ("all")
//!   final      after the last edit: [one single (kind,file) query first,] then a sweep of every
//!              (kind,file) in a fixed order, then the same sweep again (repeat clause)
//! The text menu (TEXTS) is built so that every text collides with the others through the names
//! `T`, `FB` and `P`: definition / use / conflicting definition / function block that uses T and
//! is used by P / empty / syntax error that still defines a third T / whitespace twin.
//!
//! Bounds: the combinations of gap choices are enumerated in named families (see `Family`),
//! simplest first; the stage list in `run` fixes (number of edits, family, number of texts) per
//! tier. Quick: 1 edit full product; 2 edits PlainSweep+PlainFirst+LastGap+Uniform over 7 texts;
//! (+FirstGap); 3 edits PlainSweep+PlainFirst+LastGap over the first 5 texts (PlainFirst matters:
//! the sweep starts with `file_symbols`, which registers a pending file and thereby heals a
//! database whose project-level queries would have answered from a stale file set). Thorough (4 files): the same with 7 texts up
//! to 3 edits (+UniformX at 2, +Uniform and PlainFirst at 3) and 4 edits PlainSweep (+LastGapAll
//! over 5 texts). A wall cap stops the stage list; completed stages are reported.
//!
//! Twin stage (both tiers, runs first): 2 files, TWINS = groups of SAME-LENGTH library texts that
//! differ only inside one non-name token (EXTENDS/IMPLEMENTS clause, return/parameter/element/
//! field type name, constant/enum/initial value, qualifier, direct address) plus a user file that
//! sees the difference through inheritance / calls / externals: [set(lib,v1), set(user,U) in
//! either order; gap; set(lib,v2); final] for every ordered twin pair and both FileId assignments
//! (signature shape `set-change:<what>-only`). Quick also has a 4-edit sweep-only stage confined
//! to 2 files over 5 texts (the shortest "remove f; edit present g; query g" history has 4 edits).
//!
//! Oracle (differential, no hand-written expectations): the canonical rendering of every answer
//! of the incremental database equals the rendering of the same query on a brand-new database
//! loaded with the final contents under the same FileIds (loaded in ascending FileId order; a
//! second one loaded in descending order must agree with the first — clause `fresh-order`; an
//! incremental answer is accepted if it equals either). Since every prefix of an enumerated
//! history is itself enumerated (the families are prefix-closed), "forall prefixes" is covered by
//! checking every history at its end. Renderings never contain raw TypeId/SymbolId numbers: types
//! are rendered by name + structure, symbols by name/kind/range/type/parent path/origin file/
//! whether the global lookup of the name hits them, diagnostics as a sorted multiset of
//! code/severity/range/message/related; the TypeId answered by `type_of` is named through
//! `analyze(f).symbols` of the same database (what the consumers in trust-ide do). Repeating the
//! sweep without an edit must give the same answers. Any panic of the subject is a violation.
//! The expected renderings are tabulated once per contents state (hashes); a history whose hashes
//! differ is re-executed by the detailed checker (`violations_of`, also used by --replay), which
//! compares full strings and derives the cause-oriented signature
//!   C13/stale/<project|file answers>/<shape of the first edit after which a sweep differs>/
//!       <edited-file|other-file>/<cold|query-dependent>
//!   C13/repeat/<kind>   C13/fresh-order/<kind>   C13/panic/<operation>/<message>
//!
//! Not demanded (the statement does not): the order of diagnostics inside the vector (compared as
//! a multiset; order differences are only counted), `Arc` identity / cache reuse (only counted as
//! evidence that memoised values really were reused across edits), which of two conflicting
//! definitions wins (only that incremental and fresh agree), `source_text`, `file_ids`,
//! `resolve_name`, `file_symbols_with_project_filtered`, `trigger_salsa_cancellation`, concurrent
//! use of one database from several threads (C13 is about histories, not schedules).
//! Left out of the alphabet: texts with VAR_GLOBAL/CONFIGURATION (cross-file global/task checks)
//! — they would add two more texts per file and push 3 edits out of the quick budget.

use crate::fw::*;
use crate::iso::WorkerFn;
use crate::par::par_map;
use serde_json::{json, Value};
use std::collections::{BTreeSet, HashMap, HashSet};
use std::sync::Arc;
use std::time::{Duration, Instant};
use trust_hir::db::{Database, FileId, SemanticDatabase, SourceDatabase};
use trust_hir::symbols::{Symbol, SymbolId, SymbolKind, SymbolTable};
use trust_hir::types::{Type, TypeId};
use trust_hir::Diagnostic;

// ------------------------------------------------------------------------------------------------
// alphabet
// ------------------------------------------------------------------------------------------------

/// (label, text). Order = "simplest first" order of the enumeration.
const TEXTS: &[(&str, &str)] = &[
    // defines TYPE T (a struct, so that importing it interns a user type in the importer's table)
    ("A", "TYPE T : STRUCT a : INT; END_STRUCT END_TYPE\n"),
    // a PROGRAM that uses T and FB
    ("P", "PROGRAM P\nVAR x : T; f : FB; END_VAR\nx.a := f.o;\nEND_PROGRAM\n"),
    // a conflicting second definition of T (field `a` has another type)
    ("C", "TYPE T : STRUCT a : BOOL; END_STRUCT END_TYPE\n"),
    // a FUNCTION_BLOCK that uses T and is used by P
    ("B", "FUNCTION_BLOCK FB\nVAR_OUTPUT o : INT; END_VAR\nVAR v : T; END_VAR\no := v.a;\nEND_FUNCTION_BLOCK\n"),
    // empty text
    ("0", ""),
    // a syntax error (the field's type is missing) that still defines a third, different T
    // (the parser recovers; note that `diagnostics` reports semantic diagnostics only)
    ("E", "TYPE T : STRUCT a : ; END_STRUCT END_TYPE\n"),
    // differs from A only in whitespace (every range after the first token shifts)
    ("W", "TYPE  T : STRUCT a : INT; END_STRUCT END_TYPE\n"),
];

const KINDS: [&str; 5] = ["diagnostics", "analyze", "file_symbols", "type_of", "expr_id_at_offset"];
const K_DIAG: usize = 0;
const K_ANALYZE: usize = 1;
const K_FSYM: usize = 2;
const K_TYPEOF: usize = 3;
const K_EXPR: usize = 4;
/// Same-length twin families (2 files: a library file whose variants differ ONLY inside one
/// non-name token — no declared name and no range of a declared name moves — and a user file that
/// observes the difference through another file). They target memoised cross-file results that
/// are kept because "nothing changed" was decided on too coarse an equality (salsa backdating).
struct TwinGroup {
    cat: &'static str,
    /// edit-shape suffix used in signatures when the culprit edit goes from one twin to another
    shape: &'static str,
    libs: &'static [&'static str],
    user: &'static str,
}

const TWINS: &[TwinGroup] = &[
    // (a) base name in an EXTENDS clause of the LAST declaration of the file
    TwinGroup {
        cat: "extends",
        shape: "set-change:clause-only",
        libs: &[
            "FUNCTION_BLOCK BaseA\nVAR_OUTPUT level : INT; END_VAR\nMETHOD PUBLIC Foo : INT\nFoo := 1;\nEND_METHOD\nEND_FUNCTION_BLOCK\nFUNCTION_BLOCK BaseB\nMETHOD PUBLIC Foo : BOOL\nFoo := TRUE;\nEND_METHOD\nEND_FUNCTION_BLOCK\nFUNCTION_BLOCK Derived EXTENDS BaseA\nEND_FUNCTION_BLOCK\n",
            "FUNCTION_BLOCK BaseA\nVAR_OUTPUT level : INT; END_VAR\nMETHOD PUBLIC Foo : INT\nFoo := 1;\nEND_METHOD\nEND_FUNCTION_BLOCK\nFUNCTION_BLOCK BaseB\nMETHOD PUBLIC Foo : BOOL\nFoo := TRUE;\nEND_METHOD\nEND_FUNCTION_BLOCK\nFUNCTION_BLOCK Derived EXTENDS BaseB\nEND_FUNCTION_BLOCK\n",
        ],
        user: "PROGRAM Main\nVAR d : Derived; x : INT; END_VAR\nx := d.Foo();\nd.level := 1;\nEND_PROGRAM\n",
    },
    // (a) interface name in an IMPLEMENTS clause
    TwinGroup {
        cat: "implements",
        shape: "set-change:clause-only",
        libs: &[
            "INTERFACE IA\nMETHOD Foo : INT\nEND_METHOD\nEND_INTERFACE\nINTERFACE IB\nMETHOD Bar : INT\nEND_METHOD\nEND_INTERFACE\nFUNCTION_BLOCK Impl IMPLEMENTS IA\nMETHOD PUBLIC Foo : INT\nFoo := 1;\nEND_METHOD\nEND_FUNCTION_BLOCK\n",
            "INTERFACE IA\nMETHOD Foo : INT\nEND_METHOD\nEND_INTERFACE\nINTERFACE IB\nMETHOD Bar : INT\nEND_METHOD\nEND_INTERFACE\nFUNCTION_BLOCK Impl IMPLEMENTS IB\nMETHOD PUBLIC Foo : INT\nFoo := 1;\nEND_METHOD\nEND_FUNCTION_BLOCK\n",
        ],
        user: "PROGRAM Main\nVAR i : IA; f : Impl; x : INT; END_VAR\ni := f;\nx := i.Foo();\nEND_PROGRAM\n",
    },
    // (b) a type name that is not itself a declared name: return type / parameter type
    TwinGroup {
        cat: "signature",
        shape: "set-change:type-name-only",
        libs: &[
            "FUNCTION F : DINT\nVAR_INPUT p : DINT; END_VAR\nEND_FUNCTION\n",
            "FUNCTION F : BOOL\nVAR_INPUT p : DINT; END_VAR\nEND_FUNCTION\n",
            "FUNCTION F : DINT\nVAR_INPUT p : BOOL; END_VAR\nEND_FUNCTION\n",
        ],
        user: "PROGRAM Main\nVAR x : DINT; END_VAR\nx := F(p := x);\nEND_PROGRAM\n",
    },
    // (b) array element type / field type / (c) array bound
    TwinGroup {
        cat: "typedef",
        shape: "set-change:type-name-only",
        libs: &[
            "TYPE TA : ARRAY[0..1] OF DINT; END_TYPE\nTYPE TS : STRUCT a : DINT; END_STRUCT END_TYPE\n",
            "TYPE TA : ARRAY[0..1] OF BOOL; END_TYPE\nTYPE TS : STRUCT a : DINT; END_STRUCT END_TYPE\n",
            "TYPE TA : ARRAY[0..1] OF DINT; END_TYPE\nTYPE TS : STRUCT a : BOOL; END_STRUCT END_TYPE\n",
            "TYPE TA : ARRAY[0..2] OF DINT; END_TYPE\nTYPE TS : STRUCT a : DINT; END_STRUCT END_TYPE\n",
        ],
        user: "PROGRAM Main\nVAR a : TA; s : TS; x : DINT; END_VAR\nx := a[0];\nx := s.a;\nx := a[2];\nEND_PROGRAM\n",
    },
    // (c) a constant's value / an enum value / an initial value
    TwinGroup {
        cat: "value",
        shape: "set-change:value-only",
        libs: &[
            "TYPE E : (R := 1, G := 2); END_TYPE\nCONFIGURATION C\nVAR_GLOBAL CONSTANT\nK : INT := 1;\nEND_VAR\nVAR_GLOBAL\nv : INT := 1;\nEND_VAR\nEND_CONFIGURATION\n",
            "TYPE E : (R := 1, G := 3); END_TYPE\nCONFIGURATION C\nVAR_GLOBAL CONSTANT\nK : INT := 1;\nEND_VAR\nVAR_GLOBAL\nv : INT := 1;\nEND_VAR\nEND_CONFIGURATION\n",
            "TYPE E : (R := 1, G := 2); END_TYPE\nCONFIGURATION C\nVAR_GLOBAL CONSTANT\nK : INT := 2;\nEND_VAR\nVAR_GLOBAL\nv : INT := 1;\nEND_VAR\nEND_CONFIGURATION\n",
            "TYPE E : (R := 1, G := 2); END_TYPE\nCONFIGURATION C\nVAR_GLOBAL CONSTANT\nK : INT := 1;\nEND_VAR\nVAR_GLOBAL\nv : INT := 2;\nEND_VAR\nEND_CONFIGURATION\n",
        ],
        user: "PROGRAM Main\nVAR_EXTERNAL CONSTANT K : INT; END_VAR\nVAR_EXTERNAL v : INT; END_VAR\nVAR a : ARRAY[0..K] OF INT; e : E; END_VAR\ne := G;\na[2] := v;\nEND_PROGRAM\n",
    },
    // (d) a qualifier: method visibility, CONSTANT/RETAIN, parameter direction (padded with blanks
    // so that no name moves)
    TwinGroup {
        cat: "qualifier",
        shape: "set-change:qualifier-only",
        libs: &[
            "FUNCTION_BLOCK Base\nVAR_OUTPUT o : INT; END_VAR\nMETHOD PUBLIC  Foo : INT\nFoo := 1;\nEND_METHOD\nEND_FUNCTION_BLOCK\nCONFIGURATION C\nVAR_GLOBAL CONSTANT\nK : INT := 1;\nEND_VAR\nEND_CONFIGURATION\n",
            "FUNCTION_BLOCK Base\nVAR_OUTPUT o : INT; END_VAR\nMETHOD PRIVATE Foo : INT\nFoo := 1;\nEND_METHOD\nEND_FUNCTION_BLOCK\nCONFIGURATION C\nVAR_GLOBAL CONSTANT\nK : INT := 1;\nEND_VAR\nEND_CONFIGURATION\n",
            "FUNCTION_BLOCK Base\nVAR_INPUT  o : INT; END_VAR\nMETHOD PUBLIC  Foo : INT\nFoo := 1;\nEND_METHOD\nEND_FUNCTION_BLOCK\nCONFIGURATION C\nVAR_GLOBAL CONSTANT\nK : INT := 1;\nEND_VAR\nEND_CONFIGURATION\n",
            "FUNCTION_BLOCK Base\nVAR_OUTPUT o : INT; END_VAR\nMETHOD PUBLIC  Foo : INT\nFoo := 1;\nEND_METHOD\nEND_FUNCTION_BLOCK\nCONFIGURATION C\nVAR_GLOBAL RETAIN  \nK : INT := 1;\nEND_VAR\nEND_CONFIGURATION\n",
        ],
        user: "PROGRAM Main\nVAR_EXTERNAL K : INT; END_VAR\nVAR d : Base; x : INT; END_VAR\nx := d.Foo();\nx := d.o;\nd(o := 1);\nK := 3;\nEND_PROGRAM\n",
    },
    // (e) a direct address
    TwinGroup {
        cat: "address",
        shape: "set-change:address-only",
        libs: &[
            "CONFIGURATION C\nVAR_GLOBAL\ng AT %QX0.0 : BOOL;\nEND_VAR\nEND_CONFIGURATION\n",
            "CONFIGURATION C\nVAR_GLOBAL\ng AT %QX0.1 : BOOL;\nEND_VAR\nEND_CONFIGURATION\n",
            "CONFIGURATION C\nVAR_GLOBAL\ng AT %IX0.0 : BOOL;\nEND_VAR\nEND_CONFIGURATION\n",
        ],
        user: "PROGRAM Main\nVAR_EXTERNAL g : BOOL; END_VAR\ng := TRUE;\nEND_PROGRAM\n",
    },
];

fn twin_label(cat: &str, i: usize) -> String {
    format!("tw.{cat}.{i}")
}

/// `Some(shape)` if both labels name library twins of the same group
fn twin_shape(old_label: &str, new_label: &str) -> Option<&'static str> {
    let cat_of = |l: &str| -> Option<(String, String)> {
        let mut it = l.splitn(3, '.');
        if it.next()? != "tw" {
            return None;
        }
        Some((it.next()?.to_string(), it.next()?.to_string()))
    };
    let (c1, k1) = cat_of(old_label)?;
    let (c2, k2) = cat_of(new_label)?;
    if c1 != c2 || k1 == "user" || k2 == "user" {
        return None;
    }
    TWINS.iter().find(|g| g.cat == c1).map(|g| g.shape)
}

/// order of one sweep inside a file (type_of before analyze so that the type_of answers are
/// obtained before the table used to NAME them is requested)
const SWEEP: [usize; 5] = [K_FSYM, K_EXPR, K_TYPEOF, K_DIAG, K_ANALYZE];

fn kind_class(k: usize) -> &'static str {
    // public distinction: answers that depend on the whole project vs. on the file's own text only
    if k == K_FSYM || k == K_EXPR {
        "file"
    } else {
        "project"
    }
}

fn fid(i: usize) -> FileId {
    FileId(i as u32)
}

#[derive(Clone, Debug, PartialEq, Eq, Hash)]
enum Op {
    Set { file: usize, label: String, text: Arc<str> },
    Remove { file: usize },
    Query { kind: usize, file: usize },
    All,
}

impl Op {
    fn is_edit(&self) -> bool {
        matches!(self, Op::Set { .. } | Op::Remove { .. })
    }
    fn to_json(&self) -> Value {
        match self {
            Op::Set { file, label, text } => json!({"op":"set","file":file,"label":label,"text":&**text}),
            Op::Remove { file } => json!({"op":"remove","file":file}),
            Op::Query { kind, file } => json!({"op":"query","q":KINDS[*kind],"file":file}),
            Op::All => json!({"op":"all"}),
        }
    }
    fn from_json(v: &Value) -> Option<Op> {
        let file = v["file"].as_u64().unwrap_or(0) as usize;
        match v["op"].as_str()? {
            "set" => Some(Op::Set {
                file,
                label: v["label"].as_str().unwrap_or("?").to_string(),
                text: Arc::from(v["text"].as_str()?),
            }),
            "remove" => Some(Op::Remove { file }),
            "query" => {
                let q = v["q"].as_str()?;
                Some(Op::Query { kind: KINDS.iter().position(|k| *k == q)?, file })
            }
            "all" => Some(Op::All),
            _ => None,
        }
    }
    fn short(&self) -> String {
        match self {
            Op::Set { file, label, .. } => format!("set(f{file},{label})"),
            Op::Remove { file } => format!("remove(f{file})"),
            Op::Query { kind, file } => format!("{}(f{file})", KINDS[*kind]),
            Op::All => "all-queries".to_string(),
        }
    }
}

/// One history: `ops`, then the final phase = [`first` single query,] sweep, sweep again.
#[derive(Clone, Debug)]
struct Case {
    nfiles: usize,
    ops: Vec<Op>,
    first: Option<(usize, usize)>,
}

impl Case {
    fn to_json(&self) -> Value {
        json!({
            "kind": "history",
            "nfiles": self.nfiles,
            "ops": self.ops.iter().map(Op::to_json).collect::<Vec<_>>(),
            "first": self.first.map(|(k, f)| json!({"q": KINDS[k], "file": f})),
        })
    }
    fn from_json(v: &Value) -> Option<Case> {
        let nfiles = v["nfiles"].as_u64()? as usize;
        let ops = v["ops"].as_array()?.iter().map(Op::from_json).collect::<Option<Vec<_>>>()?;
        let first = if v["first"].is_null() {
            None
        } else {
            let q = v["first"]["q"].as_str()?;
            Some((KINDS.iter().position(|k| *k == q)?, v["first"]["file"].as_u64()? as usize))
        };
        Some(Case { nfiles, ops, first })
    }
    fn short(&self) -> String {
        let mut s: Vec<String> = self.ops.iter().map(Op::short).collect();
        if let Some((k, f)) = self.first {
            s.push(format!("{}(f{f})", KINDS[k]));
        }
        s.push("sweep".into());
        s.join("; ")
    }
}

// ------------------------------------------------------------------------------------------------
// canonical rendering (never prints a TypeId / SymbolId number)
// ------------------------------------------------------------------------------------------------

fn r(range: text_size::TextRange) -> String {
    format!("{}..{}", u32::from(range.start()), u32::from(range.end()))
}

fn tname(t: &SymbolTable, id: TypeId) -> String {
    match t.type_name(id) {
        Some(n) => n.to_string(),
        None => "<unnamed>".to_string(),
    }
}

/// type name plus (for user types) its structure with nested types by name
fn tdesc(t: &SymbolTable, id: TypeId, depth: usize) -> String {
    let name = tname(t, id);
    if depth == 0 || id.0 < TypeId::USER_TYPES_START {
        return name;
    }
    let d = depth - 1;
    let body = match t.type_by_id(id) {
        None => "<no definition>".to_string(),
        Some(ty) => match ty {
            Type::Array { element, dimensions } => format!("Array({} {:?})", tdesc(t, *element, d), dimensions),
            Type::Struct { name, fields } => format!(
                "Struct {name} {{{}}}",
                fields
                    .iter()
                    .map(|f| format!("{}:{}@{:?}", f.name, tdesc(t, f.type_id, d), f.address))
                    .collect::<Vec<_>>()
                    .join(",")
            ),
            Type::Union { name, variants } => format!(
                "Union {name} {{{}}}",
                variants
                    .iter()
                    .map(|f| format!("{}:{}@{:?}", f.name, tdesc(t, f.type_id, d), f.address))
                    .collect::<Vec<_>>()
                    .join(",")
            ),
            Type::Enum { name, base, values } => format!("Enum {name} base={} {:?}", tdesc(t, *base, d), values),
            Type::Pointer { target } => format!("Pointer({})", tdesc(t, *target, d)),
            Type::Reference { target } => format!("Reference({})", tdesc(t, *target, d)),
            Type::Subrange { base, lower, upper } => format!("Subrange({} {lower}..{upper})", tdesc(t, *base, d)),
            Type::FunctionBlock { name } => format!("FunctionBlock {name}"),
            Type::Class { name } => format!("Class {name}"),
            Type::Interface { name } => format!("Interface {name}"),
            Type::Alias { name, target } => format!("Alias {name} -> {}", tdesc(t, *target, d)),
            Type::String { max_len } => format!("String[{max_len:?}]"),
            Type::WString { max_len } => format!("WString[{max_len:?}]"),
            // elementary / generic kinds carry no ids
            other => format!("{other:?}"),
        },
    };
    format!("{name}={body}")
}

fn sym_name(t: &SymbolTable, id: SymbolId) -> String {
    match t.get(id) {
        Some(s) => s.name.to_string(),
        None => "?".to_string(),
    }
}

fn parent_path(t: &SymbolTable, s: &Symbol) -> String {
    let mut parts = Vec::new();
    let mut cur = s.parent;
    let mut guard = 0;
    while let Some(p) = cur {
        guard += 1;
        if guard > 16 {
            parts.push("...".to_string());
            break;
        }
        match t.get(p) {
            Some(ps) => {
                parts.push(ps.name.to_string());
                cur = ps.parent;
            }
            None => {
                parts.push("?".to_string());
                break;
            }
        }
    }
    parts.reverse();
    parts.join(".")
}

fn kind_str(t: &SymbolTable, k: &SymbolKind) -> String {
    match k {
        SymbolKind::Function { return_type, parameters } => format!(
            "Function(ret={}; params=[{}])",
            tdesc(t, *return_type, 1),
            parameters.iter().map(|p| sym_name(t, *p)).collect::<Vec<_>>().join(",")
        ),
        SymbolKind::Method { return_type, parameters } => format!(
            "Method(ret={}; params=[{}])",
            return_type.map(|x| tdesc(t, x, 1)).unwrap_or_else(|| "-".into()),
            parameters.iter().map(|p| sym_name(t, *p)).collect::<Vec<_>>().join(",")
        ),
        SymbolKind::Property { prop_type, has_get, has_set } => {
            format!("Property({} get={has_get} set={has_set})", tdesc(t, *prop_type, 1))
        }
        // the remaining kinds carry no ids
        other => format!("{other:?}"),
    }
}

struct Builtins {
    table: SymbolTable,
    n: u32,
}

fn builtins() -> &'static Builtins {
    static B: std::sync::OnceLock<Builtins> = std::sync::OnceLock::new();
    B.get_or_init(|| {
        let table = SymbolTable::new();
        let n = table.len() as u32;
        Builtins { table, n }
    })
}

/// Sorted lines, one per non-builtin symbol. The built-in function blocks (identical in every
/// table: same slot, equal `Symbol`) are skipped; their number is rendered instead.
fn render_symbols(t: &SymbolTable) -> Vec<String> {
    let b = builtins();
    let mut lines = Vec::new();
    let mut skipped = 0usize;
    for s in t.iter() {
        if s.id.0 < b.n && b.table.get(s.id) == Some(s) {
            skipped += 1;
            continue;
        }
        let wins = t.lookup(s.name.as_str()) == Some(s.id);
        lines.push(format!(
            "sym {}|{}|{}|ty={}|at={:?}|{:?}|final={} abstract={} override={}|origin={}|parent={}|extends={:?}|implements={:?}|doc={:?}|global-lookup-hits={}",
            s.name,
            kind_str(t, &s.kind),
            r(s.range),
            tdesc(t, s.type_id, 2),
            s.direct_address,
            s.visibility,
            s.modifiers.is_final,
            s.modifiers.is_abstract,
            s.modifiers.is_override,
            s.origin.map(|o| format!("f{}", o.file_id.0)).unwrap_or_else(|| "-".into()),
            parent_path(t, s),
            t.extends_name(s.id),
            t.implements_names(s.id),
            s.doc,
            wins,
        ));
    }
    lines.sort();
    lines.push(format!("builtin symbols unchanged: {skipped}"));
    lines
}

fn render_diags(d: &[Diagnostic]) -> Vec<String> {
    let mut lines: Vec<String> = d
        .iter()
        .map(|x| {
            let mut rel: Vec<String> = x.related.iter().map(|ri| format!("{}:{}", r(ri.range), ri.message)).collect();
            rel.sort();
            format!("diag {}|{:?}|{}|{}|related=[{}]", x.code.code(), x.severity, r(x.range), x.message, rel.join(";"))
        })
        .collect();
    lines.sort();
    lines
}

fn diag_order_key(d: &[Diagnostic]) -> Vec<String> {
    d.iter().map(|x| format!("{}|{}|{}", x.code.code(), r(x.range), x.message)).collect()
}

/// raw answer of one (kind,file) query
#[derive(Clone)]
enum Raw {
    Diags(Arc<Vec<Diagnostic>>),
    Analysis(Arc<SymbolTable>, Arc<Vec<Diagnostic>>),
    Symbols(Arc<SymbolTable>),
    Types(Vec<TypeId>),
    Exprs(Vec<(u32, Option<u32>)>),
}

impl Raw {
    /// raw equality (used only as a shortcut for the repeat clause; a raw difference is re-checked
    /// on the canonical rendering)
    fn same(&self, o: &Raw) -> bool {
        match (self, o) {
            (Raw::Diags(a), Raw::Diags(b)) => a == b,
            (Raw::Analysis(a, c), Raw::Analysis(b, d)) => a == b && c == d,
            (Raw::Symbols(a), Raw::Symbols(b)) => a == b,
            (Raw::Types(a), Raw::Types(b)) => a == b,
            (Raw::Exprs(a), Raw::Exprs(b)) => a == b,
            _ => false,
        }
    }
    /// identity of the memoised value, if the answer is a shared allocation
    fn ptr(&self) -> Option<usize> {
        match self {
            Raw::Diags(a) => Some(Arc::as_ptr(a) as usize),
            Raw::Analysis(a, _) => Some(Arc::as_ptr(a) as *const u8 as usize),
            Raw::Symbols(a) => Some(Arc::as_ptr(a) as *const u8 as usize),
            _ => None,
        }
    }
}

/// Offsets probed by `expr_id_at_offset`: the first and last byte of every run of identifier
/// characters / of every run of other non-blank characters, plus the end of the text and one
/// past it (derived from the text alone).
fn probe_offsets(text: &str) -> Vec<u32> {
    let b = text.as_bytes();
    let class = |c: u8| {
        if c.is_ascii_alphanumeric() || c == b'_' {
            1
        } else if c.is_ascii_whitespace() {
            0
        } else {
            2
        }
    };
    let mut out = Vec::new();
    for i in 0..b.len() {
        let c = class(b[i]);
        let starts = i == 0 || class(b[i - 1]) != c;
        let ends = i + 1 == b.len() || class(b[i + 1]) != c;
        if (starts || ends) && (c != 0 || starts) {
            out.push(i as u32);
        }
    }
    out.push(b.len() as u32);
    out.push(b.len() as u32 + 1);
    out
}

/// number of expression ids asked for a text: every id reachable through an offset, plus two
/// beyond (out-of-range ids must answer, not panic). Computed on a private single-file database.
fn expr_budget(text: &str) -> u32 {
    let mut db = Database::new();
    db.set_source_text(FileId(0), text.to_string());
    let mut max: Option<u32> = None;
    for off in 0..=text.len() as u32 + 1 {
        // (every offset here, once per text: the id range must not depend on the probe subset)
        if let Some(id) = db.expr_id_at_offset(FileId(0), off) {
            max = Some(max.map_or(id, |m| m.max(id)));
        }
    }
    max.map_or(0, |m| m + 1) + 2
}

struct Budgets {
    map: HashMap<Arc<str>, u32>,
}

impl Budgets {
    fn of(&self, text: &str) -> u32 {
        self.map.get(text).copied().unwrap_or(2)
    }
    fn for_ops(ops: &[Op]) -> Result<Budgets, String> {
        let mut map = HashMap::new();
        for op in ops {
            if let Op::Set { text, .. } = op {
                if !map.contains_key(text) {
                    let t = text.clone();
                    let n = catch(|| expr_budget(&t)).map_err(|m| format!("expr_budget: {m}"))?;
                    map.insert(text.clone(), n);
                }
            }
        }
        Ok(Budgets { map })
    }
}

/// Asks one (kind,file) question. `text` = current content of the file (None = absent).
fn ask(db: &Database, kind: usize, file: usize, text: Option<&str>, budgets: &Budgets) -> Result<Raw, String> {
    let f = fid(file);
    catch(|| match kind {
        K_DIAG => Raw::Diags(db.diagnostics(f)),
        K_ANALYZE => {
            let a = db.analyze(f);
            Raw::Analysis(a.symbols.clone(), a.diagnostics.clone())
        }
        K_FSYM => Raw::Symbols(db.file_symbols(f)),
        K_TYPEOF => {
            let n = text.map_or(2, |t| budgets.of(t));
            Raw::Types((0..n).map(|id| db.type_of(f, id)).collect())
        }
        _ => {
            Raw::Exprs(probe_offsets(text.unwrap_or("")).into_iter().map(|off| (off, db.expr_id_at_offset(f, off))).collect())
        }
    })
}

/// Canonical lines of an answer. `names` = the project-augmented symbol table of the same file in
/// the same database (what every consumer of `type_of` uses to turn the TypeId into a name).
fn render(raw: &Raw, names: &SymbolTable) -> Vec<String> {
    match raw {
        Raw::Diags(d) => render_diags(d),
        Raw::Analysis(s, d) => {
            let mut l = render_symbols(s);
            l.extend(render_diags(d));
            l
        }
        Raw::Symbols(s) => render_symbols(s),
        Raw::Types(v) => v.iter().enumerate().map(|(i, t)| format!("expr#{i} : {}", tdesc(names, *t, 2))).collect(),
        Raw::Exprs(v) => {
            v.iter().map(|(off, id)| format!("offset {off} -> {id:?}")).collect()
        }
    }
}

fn hash_lines(l: &[String]) -> u64 {
    let mut h: u64 = 0xcbf29ce484222325;
    for s in l {
        for b in s.bytes() {
            h ^= b as u64;
            h = h.wrapping_mul(0x100000001b3);
        }
        h ^= 0xff;
        h = h.wrapping_mul(0x100000001b3);
    }
    h
}

/// All answers of one database for the given contents: lines[file][kind].
struct Obs {
    lines: Vec<Vec<Vec<String>>>,
    raws: Vec<Vec<Raw>>,
    diag_order: Vec<Vec<String>>,
}

#[derive(Debug, Clone)]
struct Fail {
    clause: &'static str,
    /// where: op description
    at: String,
    detail: String,
}

fn sweep(db: &Database, nfiles: usize, cur: &[Option<Arc<str>>], budgets: &Budgets) -> Result<Obs, Fail> {
    let mut raws: Vec<Vec<Option<Raw>>> = vec![vec![None; 5]; nfiles];
    for file in 0..nfiles {
        for &k in &SWEEP {
            let raw = ask(db, k, file, cur[file].as_deref(), budgets).map_err(|m| Fail {
                clause: "panic",
                at: format!("query:{}", KINDS[k]),
                detail: m,
            })?;
            raws[file][k] = Some(raw);
        }
    }
    let raws: Vec<Vec<Raw>> = raws.into_iter().map(|v| v.into_iter().map(Option::unwrap).collect()).collect();
    let mut lines = Vec::with_capacity(nfiles);
    let mut diag_order = Vec::with_capacity(nfiles);
    for file in 0..nfiles {
        let Raw::Analysis(names, _) = &raws[file][K_ANALYZE] else { unreachable!() };
        let names = names.clone();
        let l = catch(|| (0..5).map(|k| render(&raws[file][k], &names)).collect::<Vec<_>>()).map_err(|m| Fail {
            clause: "panic",
            at: "render".into(),
            detail: m,
        })?;
        lines.push(l);
        let Raw::Diags(d) = &raws[file][K_DIAG] else { unreachable!() };
        diag_order.push(diag_order_key(d));
    }
    Ok(Obs { lines, raws, diag_order })
}

fn fresh_db(nfiles: usize, cur: &[Option<Arc<str>>], descending: bool) -> Result<Database, Fail> {
    catch(|| {
        let mut db = Database::new();
        let order: Vec<usize> = if descending { (0..nfiles).rev().collect() } else { (0..nfiles).collect() };
        for f in order {
            if let Some(t) = &cur[f] {
                db.set_source_text(fid(f), t.to_string());
            }
        }
        db
    })
    .map_err(|m| Fail { clause: "panic", at: "fresh:set".into(), detail: m })
}

// ------------------------------------------------------------------------------------------------
// executing one history on an incremental database
// ------------------------------------------------------------------------------------------------

#[derive(Default, Clone)]
struct Counters {
    ops: u64,
    /// memoised allocation returned again by the second sweep
    reuse_repeat: u64,
    /// allocation obtained in an earlier gap returned again after at least one later edit
    reuse_across_edit: u64,
    /// same multiset of diagnostics as the fresh database but in another order (not demanded)
    diag_order_diffs: u64,
}

struct Run {
    obs: Obs,
    /// rendering of the `first` query (rendered with the names table of the sweep)
    first_lines: Option<Vec<String>>,
    /// (kind,file) whose second answer differed from the first
    repeat_diffs: Vec<(usize, usize, String)>,
    cur: Vec<Option<Arc<str>>>,
    cnt: Counters,
}

fn apply_edit(db: &mut Database, op: &Op, cur: &mut [Option<Arc<str>>]) -> Result<(), Fail> {
    match op {
        Op::Set { file, text, .. } => {
            let t = text.to_string();
            let f = fid(*file);
            catch(std::panic::AssertUnwindSafe(|| db.set_source_text(f, t)))
                .map_err(|m| Fail { clause: "panic", at: "set".into(), detail: m })?;
            cur[*file] = Some(text.clone());
        }
        Op::Remove { file } => {
            let f = fid(*file);
            catch(std::panic::AssertUnwindSafe(|| db.remove_source_text(f)))
                .map_err(|m| Fail { clause: "panic", at: "remove".into(), detail: m })?;
            cur[*file] = None;
        }
        _ => {}
    }
    Ok(())
}

fn run_case(case: &Case, budgets: &Budgets) -> Result<Run, Fail> {
    let n = case.nfiles;
    let mut db = catch(Database::new).map_err(|m| Fail { clause: "panic", at: "new".into(), detail: m })?;
    let mut cur: Vec<Option<Arc<str>>> = vec![None; n];
    let mut cnt = Counters::default();
    // allocations seen in earlier gaps: (kind,file) -> (ptr, number of edits applied when seen)
    let mut held: Vec<(usize, usize, Raw, u32)> = Vec::new();
    let mut edits = 0u32;
    for op in &case.ops {
        cnt.ops += 1;
        match op {
            Op::Set { .. } | Op::Remove { .. } => {
                apply_edit(&mut db, op, &mut cur)?;
                edits += 1;
            }
            Op::Query { kind, file } => {
                let raw = ask(&db, *kind, *file, cur[*file].as_deref(), budgets).map_err(|m| Fail {
                    clause: "panic",
                    at: format!("query:{}", KINDS[*kind]),
                    detail: m,
                })?;
                held.push((*kind, *file, raw, edits));
            }
            Op::All => {
                for file in 0..n {
                    for &k in &SWEEP {
                        cnt.ops += 1;
                        let raw = ask(&db, k, file, cur[file].as_deref(), budgets).map_err(|m| Fail {
                            clause: "panic",
                            at: format!("query:{}", KINDS[k]),
                            detail: m,
                        })?;
                        held.push((k, file, raw, edits));
                    }
                }
            }
        }
    }
    // final phase
    let first_raw = match case.first {
        Some((k, f)) => {
            cnt.ops += 1;
            Some(ask(&db, k, f, cur[f].as_deref(), budgets).map_err(|m| Fail {
                clause: "panic",
                at: format!("query:{}", KINDS[k]),
                detail: m,
            })?)
        }
        None => None,
    };
    let obs = sweep(&db, n, &cur, budgets)?;
    cnt.ops += (5 * n) as u64;
    let first_lines = match (&first_raw, case.first) {
        (Some(raw), Some((_, f))) => {
            let Raw::Analysis(names, _) = &obs.raws[f][K_ANALYZE] else { unreachable!() };
            Some(render(raw, names))
        }
        _ => None,
    };
    // repeat clause: the same sweep again, no edit in between
    let mut repeat_diffs = Vec::new();
    for file in 0..n {
        for &k in &SWEEP {
            cnt.ops += 1;
            let again = ask(&db, k, file, cur[file].as_deref(), budgets).map_err(|m| Fail {
                clause: "panic",
                at: format!("query:{}", KINDS[k]),
                detail: m,
            })?;
            let firstr = &obs.raws[file][k];
            if let (Some(a), Some(b)) = (firstr.ptr(), again.ptr()) {
                if a == b {
                    cnt.reuse_repeat += 1;
                }
            }
            if !firstr.same(&again) {
                let names2 = match ask(&db, K_ANALYZE, file, cur[file].as_deref(), budgets) {
                    Ok(Raw::Analysis(nm, _)) => nm,
                    _ => Arc::new(SymbolTable::new()),
                };
                let l2 = render(&again, &names2);
                if l2 != obs.lines[file][k] {
                    repeat_diffs.push((k, file, diff_lines(&obs.lines[file][k], &l2, "first answer", "second answer")));
                }
            }
        }
    }
    for (k, f, raw, at_edit) in &held {
        if *at_edit < edits {
            if let (Some(a), Some(b)) = (raw.ptr(), obs.raws[*f][*k].ptr()) {
                if a == b {
                    cnt.reuse_across_edit += 1;
                }
            }
        }
    }
    Ok(Run { obs, first_lines, repeat_diffs, cur, cnt })
}

fn clip(s: &str, n: usize) -> String {
    let mut out: String = s.chars().take(n).collect();
    if s.chars().count() > n {
        out.push('…');
    }
    out
}

fn diff_lines(a: &[String], b: &[String], an: &str, bn: &str) -> String {
    let sa: BTreeSet<&String> = a.iter().collect();
    let sb: BTreeSet<&String> = b.iter().collect();
    let only_a: Vec<String> = sa.difference(&sb).take(2).map(|s| clip(s, 260)).collect();
    let only_b: Vec<String> = sb.difference(&sa).take(2).map(|s| clip(s, 260)).collect();
    if only_a.is_empty() && only_b.is_empty() {
        return format!("same lines, different multiplicity/order ({} vs {} lines)", a.len(), b.len());
    }
    format!("only in {an}: {only_a:?}; only in {bn}: {only_b:?}")
}

fn norm_msg(m: &str) -> String {
    let s: String = m.chars().map(|c| if c.is_ascii_digit() { '#' } else { c }).collect();
    clip(&s, 80)
}

// ------------------------------------------------------------------------------------------------
// expected answers (fresh databases), tabulated per contents state for the explorer
// ------------------------------------------------------------------------------------------------

/// hashes[file][kind] of a fresh database loaded ascending / descending
#[derive(Clone)]
struct Expect {
    asc: Vec<[u64; 5]>,
    desc: Vec<[u64; 5]>,
    diag_order_asc: Vec<u64>,
}

fn state_code(cur: &[Option<usize>], nv: usize) -> usize {
    let mut c = 0;
    for v in cur {
        c = c * (nv + 1) + v.map_or(0, |x| x + 1);
    }
    c
}

fn state_decode(mut code: usize, nfiles: usize, nv: usize) -> Vec<Option<usize>> {
    let mut out = vec![None; nfiles];
    for i in (0..nfiles).rev() {
        let d = code % (nv + 1);
        code /= nv + 1;
        out[i] = if d == 0 { None } else { Some(d - 1) };
    }
    out
}

struct Menu {
    nfiles: usize,
    texts: Vec<(String, Arc<str>)>,
    budgets: Budgets,
}

impl Menu {
    fn new(nfiles: usize, nv: usize) -> Result<Menu, String> {
        let texts: Vec<(String, Arc<str>)> = TEXTS[..nv].iter().map(|(l, t)| (l.to_string(), Arc::from(*t))).collect();
        let ops: Vec<Op> = texts
            .iter()
            .map(|(l, t)| Op::Set { file: 0, label: l.clone(), text: t.clone() })
            .collect();
        let budgets = Budgets::for_ops(&ops)?;
        Ok(Menu { nfiles, texts, budgets })
    }
    fn from_texts(nfiles: usize, texts: Vec<(String, Arc<str>)>) -> Result<Menu, String> {
        let ops: Vec<Op> = texts
            .iter()
            .map(|(l, t)| Op::Set { file: 0, label: l.clone(), text: t.clone() })
            .collect();
        let budgets = Budgets::for_ops(&ops)?;
        Ok(Menu { nfiles, texts, budgets })
    }
    fn contents(&self, st: &[Option<usize>]) -> Vec<Option<Arc<str>>> {
        st.iter().map(|v| v.map(|i| self.texts[i].1.clone())).collect()
    }
    /// edit alphabet in enumeration order
    fn edits(&self) -> Vec<Op> {
        let mut v = Vec::new();
        for f in 0..self.nfiles {
            for (l, t) in &self.texts {
                v.push(Op::Set { file: f, label: l.clone(), text: t.clone() });
            }
            v.push(Op::Remove { file: f });
        }
        v
    }
    /// single-query alphabet in enumeration order
    fn singles(&self) -> Vec<(usize, usize)> {
        let mut v = Vec::new();
        for f in 0..self.nfiles {
            for k in 0..5 {
                v.push((k, f));
            }
        }
        v
    }
}

fn fresh_obs(nfiles: usize, cur: &[Option<Arc<str>>], budgets: &Budgets, descending: bool) -> Result<Obs, Fail> {
    let db = fresh_db(nfiles, cur, descending)?;
    sweep(&db, nfiles, cur, budgets)
}

fn hashes(o: &Obs) -> Vec<[u64; 5]> {
    o.lines
        .iter()
        .map(|per_kind| {
            let mut h = [0u64; 5];
            for k in 0..5 {
                h[k] = hash_lines(&per_kind[k]);
            }
            h
        })
        .collect()
}

// ------------------------------------------------------------------------------------------------
// violations (slow path: full strings, culprit analysis for the signature)
// ------------------------------------------------------------------------------------------------

/// Outcome of the detailed check of one case: list of (kind,file,diff) that are stale.
struct Detailed {
    stale: Vec<(usize, usize, String)>,
    repeat: Vec<(usize, usize, String)>,
    fresh_order: Vec<(usize, usize, String)>,
    fail: Option<Fail>,
    cur: Vec<Option<Arc<str>>>,
}

fn detailed(case: &Case, budgets: &Budgets) -> Detailed {
    let mut d = Detailed { stale: vec![], repeat: vec![], fresh_order: vec![], fail: None, cur: vec![] };
    let run = match run_case(case, budgets) {
        Ok(r) => r,
        Err(f) => {
            d.fail = Some(f);
            return d;
        }
    };
    d.cur = run.cur.clone();
    d.repeat = run.repeat_diffs.clone();
    if std::env::var_os("TV_C13_DUMP").is_some() {
        // debugging aid for replays: the canonical rendering of every final answer
        for (f, per_kind) in run.obs.lines.iter().enumerate() {
            for (k, lines) in per_kind.iter().enumerate() {
                eprintln!("--- incremental {}(f{f})", KINDS[k]);
                for l in lines {
                    eprintln!("    {l}");
                }
            }
        }
    }
    let asc = match fresh_obs(case.nfiles, &run.cur, budgets, false) {
        Ok(o) => o,
        Err(f) => {
            d.fail = Some(f);
            return d;
        }
    };
    let desc = match fresh_obs(case.nfiles, &run.cur, budgets, true) {
        Ok(o) => o,
        Err(f) => {
            d.fail = Some(f);
            return d;
        }
    };
    for file in 0..case.nfiles {
        for &k in &SWEEP {
            if asc.lines[file][k] != desc.lines[file][k] {
                d.fresh_order.push((k, file, diff_lines(&asc.lines[file][k], &desc.lines[file][k], "fresh(ascending load)", "fresh(descending load)")));
            }
            let inc = &run.obs.lines[file][k];
            if inc != &asc.lines[file][k] && inc != &desc.lines[file][k] {
                d.stale.push((k, file, diff_lines(inc, &asc.lines[file][k], "incremental", "fresh")));
            }
        }
    }
    if let (Some(fl), Some((k, f))) = (&run.first_lines, case.first) {
        if fl != &asc.lines[f][k] && fl != &desc.lines[f][k] && !d.stale.iter().any(|(kk, ff, _)| *kk == k && *ff == f) {
            d.stale.insert(0, (k, f, format!("(first query after the last edit) {}", diff_lines(fl, &asc.lines[f][k], "incremental", "fresh"))));
        }
        if fl != &run.obs.lines[f][k] {
            d.repeat.push((k, f, diff_lines(fl, &run.obs.lines[f][k], "first answer", "answer in the following sweep")));
        }
    }
    d
}

fn edit_shape(ops: &[Op], idx: usize) -> &'static str {
    // shape of edit ops[idx] relative to the contents before it
    let mut cur: HashMap<usize, (Arc<str>, String)> = HashMap::new();
    let mut ever: HashSet<usize> = HashSet::new();
    for op in &ops[..idx] {
        match op {
            Op::Set { file, text, label } => {
                cur.insert(*file, (text.clone(), label.clone()));
                ever.insert(*file);
            }
            Op::Remove { file } => {
                cur.remove(file);
            }
            _ => {}
        }
    }
    match &ops[idx] {
        Op::Set { file, text, label } => match cur.get(file) {
            Some((old, _)) if old == text => "set-same",
            // same-length twin that differs only inside one non-name token (see TWINS)
            Some((old, old_label)) if old.len() == text.len() && twin_shape(old_label, label).is_some() => {
                twin_shape(old_label, label).unwrap_or("set-change")
            }
            Some(_) => "set-change",
            None if ever.contains(file) => "set-readd",
            None => "set-add",
        },
        Op::Remove { file } => {
            if cur.contains_key(file) {
                "remove"
            } else {
                "remove-absent"
            }
        }
        _ => "query",
    }
}

fn edited_file(op: &Op) -> Option<usize> {
    match op {
        Op::Set { file, .. } | Op::Remove { file } => Some(*file),
        _ => None,
    }
}

fn set_join(mut v: Vec<&'static str>) -> String {
    v.sort();
    v.dedup();
    v.join("+")
}

/// Full check of one case; returns the violations with cause-oriented signatures.
fn violations_of(case: &Case) -> Vec<Violation> {
    let budgets = match Budgets::for_ops(&case.ops) {
        Ok(b) => b,
        Err(m) => {
            return vec![Violation {
                signature: format!("C13/panic/expr_id_at_offset/{}", norm_msg(&m)),
                what: format!("panic while probing a single-file database: {m}"),
                case: case.to_json(),
            }]
        }
    };
    let d = detailed(case, &budgets);
    let mut out = Vec::new();
    if let Some(f) = &d.fail {
        out.push(Violation {
            signature: format!("C13/{}/{}/{}", f.clause, f.at, norm_msg(&f.detail)),
            what: format!("{} during {} in history [{}]: {}", f.clause, f.at, case.short(), clip(&f.detail, 300)),
            case: case.to_json(),
        });
        return out;
    }
    for (k, f, diff) in &d.fresh_order {
        out.push(Violation {
            signature: format!("C13/fresh-order/{}", KINDS[*k]),
            what: format!(
                "two brand-new databases with the same contents {} disagree on {}(f{f}) depending on load order: {diff}",
                contents_short(&d.cur),
                KINDS[*k]
            ),
            case: json!({"kind":"fresh","nfiles":case.nfiles,"contents": d.cur.iter().map(|c| c.as_deref()).collect::<Vec<_>>()}),
        });
    }
    for (k, f, diff) in &d.repeat {
        out.push(Violation {
            signature: format!("C13/repeat/{}", KINDS[*k]),
            what: format!("{}(f{f}) repeated without an edit gave another answer after [{}]: {diff}", KINDS[*k], case.short()),
            case: case.to_json(),
        });
    }
    if !d.stale.is_empty() {
        // culprit analysis: shortest prefix (cut after an edit) whose immediate sweep already differs
        let edit_idx: Vec<usize> = case.ops.iter().enumerate().filter(|(_, o)| o.is_edit()).map(|(i, _)| i).collect();
        let mut culprit = edit_idx.last().copied();
        let mut at_culprit: Vec<(usize, usize)> = d.stale.iter().map(|(k, f, _)| (*k, *f)).collect();
        for &ei in &edit_idx {
            let prefix = Case { nfiles: case.nfiles, ops: case.ops[..=ei].to_vec(), first: None };
            let pd = detailed(&prefix, &budgets);
            if !pd.stale.is_empty() {
                culprit = Some(ei);
                at_culprit = pd.stale.iter().map(|(k, f, _)| (*k, *f)).collect();
                break;
            }
        }
        // query dependence: same edits, no query before the final sweep (fixed order). "cold" = the
        // edits alone suffice; "query-dependent" = it takes a query at a particular place (something
        // memoised before an edit, or a particular first query after it)
        let cold_case = Case {
            nfiles: case.nfiles,
            ops: case.ops.iter().filter(|o| o.is_edit()).cloned().collect(),
            first: None,
        };
        let cold = !detailed(&cold_case, &budgets).stale.is_empty();
        let (shape, efile) = match culprit {
            Some(ci) => (edit_shape(&case.ops, ci), edited_file(&case.ops[ci])),
            None => ("no-edit", None),
        };
        let classes = set_join(at_culprit.iter().map(|(k, _)| kind_class(*k)).collect());
        let targets = set_join(
            at_culprit
                .iter()
                .map(|(_, f)| if Some(*f) == efile { "edited-file" } else { "other-file" })
                .collect(),
        );
        let (k, f, diff) = &d.stale[0];
        out.push(Violation {
            signature: format!("C13/stale/{classes}/{shape}/{targets}/{}", if cold { "cold" } else { "query-dependent" }),
            what: format!(
                "after [{}] the incremental database answers {}(f{f}) differently from a brand-new database with the same contents {}: {diff}. First observable after edit #{} ({}); {} of {} (kind,file) answers differ at the end.",
                case.short(),
                KINDS[*k],
                contents_short(&d.cur),
                culprit.map_or(0, |c| case.ops[..=c].iter().filter(|o| o.is_edit()).count()),
                culprit.map_or("-".to_string(), |c| case.ops[c].short()),
                d.stale.len(),
                5 * case.nfiles,
            ),
            case: case.to_json(),
        });
    }
    out
}

fn contents_short(cur: &[Option<Arc<str>>]) -> String {
    let parts: Vec<String> = cur
        .iter()
        .enumerate()
        .map(|(i, c)| match c {
            None => format!("f{i}=<absent>"),
            Some(t) => {
                let label = TEXTS.iter().find(|(_, x)| *x == &**t).map(|(l, _)| l.to_string());
                format!("f{i}={}", label.unwrap_or_else(|| format!("{:?}", clip(t, 30))))
            }
        })
        .collect();
    format!("{{{}}}", parts.join(", "))
}

pub fn check_case(case: &Value) -> Vec<Violation> {
    match case["kind"].as_str() {
        Some("history") => match Case::from_json(case) {
            Some(c) => violations_of(&c),
            None => Vec::new(),
        },
        Some("fresh") => {
            let nfiles = case["nfiles"].as_u64().unwrap_or(0) as usize;
            let ops: Vec<Op> = case["contents"]
                .as_array()
                .cloned()
                .unwrap_or_default()
                .iter()
                .enumerate()
                .filter_map(|(i, t)| t.as_str().map(|t| Op::Set { file: i, label: "?".into(), text: Arc::from(t) }))
                .collect();
            // loading in ascending order IS a history; violations_of compares both fresh orders
            violations_of(&Case { nfiles, ops, first: None })
                .into_iter()
                .filter(|v| v.signature.starts_with("C13/fresh-order/") || v.signature.starts_with("C13/panic/"))
                .collect()
        }
        _ => Vec::new(),
    }
}

// ------------------------------------------------------------------------------------------------
// explorer
// ------------------------------------------------------------------------------------------------

#[derive(Default)]
struct Agg {
    histories: u64,
    cnt: Counters,
    suspicious: Vec<Case>,
    final_states: HashSet<usize>,
    outcome_hashes: HashSet<u64>,
}

/// Fast check of one history against the tabulated expectations. Returns true if the slow path
/// must look at it.
fn fast_check(menu: &Menu, table: &[Expect], case: &Case, st: &[Option<usize>], agg: &mut Agg) {
    agg.histories += 1;
    let code = state_code(st, menu.texts.len());
    agg.final_states.insert(code);
    let run = match run_case(case, &menu.budgets) {
        Ok(r) => r,
        Err(_) => {
            agg.suspicious.push(case.clone());
            return;
        }
    };
    agg.cnt.ops += run.cnt.ops;
    agg.cnt.reuse_repeat += run.cnt.reuse_repeat;
    agg.cnt.reuse_across_edit += run.cnt.reuse_across_edit;
    let exp = &table[code];
    let mut bad = !run.repeat_diffs.is_empty();
    let mut whole: u64 = 0;
    for file in 0..menu.nfiles {
        for k in 0..5 {
            let h = hash_lines(&run.obs.lines[file][k]);
            whole = whole.rotate_left(7) ^ h;
            if h != exp.asc[file][k] && h != exp.desc[file][k] {
                bad = true;
            }
        }
        if hash_lines(&run.obs.diag_order[file]) != exp.diag_order_asc[file] {
            agg.cnt.diag_order_diffs += 1;
        }
    }
    if let (Some(fl), Some((k, f))) = (&run.first_lines, case.first) {
        let h = hash_lines(fl);
        if (h != exp.asc[f][k] && h != exp.desc[f][k]) || fl != &run.obs.lines[f][k] {
            bad = true;
        }
    }
    agg.outcome_hashes.insert(whole);
    if bad && agg.suspicious.len() < 64 {
        agg.suspicious.push(case.clone());
    }
}

fn apply_model(st: &mut [Option<usize>], op: &Op, menu: &Menu) {
    match op {
        Op::Set { file, label, .. } => {
            st[*file] = menu.texts.iter().position(|(l, _)| l == label);
        }
        Op::Remove { file } => st[*file] = None,
        _ => {}
    }
}

/// memo option: 0 = none, 1 = all, 2+i = singles[i]
fn memo_ops(m: usize, singles: &[(usize, usize)]) -> Vec<Op> {
    match m {
        0 => vec![],
        1 => vec![Op::All],
        i => {
            let (k, f) = singles[i - 2];
            vec![Op::Query { kind: k, file: f }]
        }
    }
}

#[derive(Clone, Copy, PartialEq, Eq, Debug)]
enum Family {
    /// every memo choice in every gap x every final option (full product)
    Full,
    /// no query before the last edit; final: sweep only
    PlainSweep,
    /// no query before the last edit; final: every single query first, then the sweep
    PlainFirst,
    /// queries only in the gap before the LAST edit (all / every single); final: sweep only
    LastGap,
    /// all queries in the gap before the last edit, nothing else; final: sweep only
    LastGapAll,
    /// queries only in the gap before the FIRST edit (all / every single), i.e. the database has
    /// been queried, then several edits arrive with no query in between; final: sweep only
    FirstGap,
    /// the same memo choice (all / one single query) in EVERY gap, including before the first
    /// edit; final: sweep only, or the same single query first
    Uniform,
    /// like Uniform, final: every other single query first
    UniformX,
}

/// Enumerates the memo vectors of a family for `d` edits: (gap choices g[0..d] where g[i] precedes
/// edit i: 0 = none, 1 = all, 2+i = singles[i]; final option: 0 = sweep only, 1+i = singles[i]
/// first). The families of one depth are pairwise disjoint (Full is only used alone).
fn family_vectors(fam: Family, d: usize, ns: usize) -> Vec<(Vec<usize>, usize)> {
    let mut out = Vec::new();
    let opts = ns + 2;
    match fam {
        Family::Full => {
            for code in 0..opts.pow(d as u32) {
                let mut g = Vec::with_capacity(d);
                let mut c = code;
                for _ in 0..d {
                    g.push(c % opts);
                    c /= opts;
                }
                g.reverse();
                for fin in 0..=ns {
                    out.push((g.clone(), fin));
                }
            }
        }
        Family::PlainSweep => out.push((vec![0; d], 0)),
        Family::PlainFirst => {
            for fin in 1..=ns {
                out.push((vec![0; d], fin));
            }
        }
        Family::LastGap => {
            for m in 1..opts {
                let mut g = vec![0; d];
                g[d - 1] = m;
                out.push((g, 0));
            }
        }
        Family::LastGapAll => {
            let mut g = vec![0; d];
            g[d - 1] = 1;
            out.push((g, 0));
        }
        Family::FirstGap => {
            // d == 1 would coincide with LastGap
            if d >= 2 {
                for m in 1..opts {
                    let mut g = vec![0; d];
                    g[0] = m;
                    out.push((g, 0));
                }
            }
        }
        Family::Uniform => {
            for m in 1..opts {
                out.push((vec![m; d], 0));
                if m >= 2 {
                    out.push((vec![m; d], m - 1));
                }
            }
        }
        Family::UniformX => {
            for m in 1..opts {
                for fin in 1..=ns {
                    if m >= 2 && fin == m - 1 {
                        continue; // in Uniform
                    }
                    out.push((vec![m; d], fin));
                }
            }
        }
    }
    out
}

/// Result of the twin stage.
struct TwinOut {
    agg: Agg,
    /// load cases whose two fresh databases disagree or panic
    fresh_cases: Vec<Case>,
    pairs: u64,
    /// ordered twin pairs whose difference is visible in the answers for the OTHER (user) file
    pairs_visible_in_user_file: u64,
    complete: bool,
}

/// Twin stage: for every group of TWINS, both file assignments, both load orders, every ordered
/// pair (v1, v2) of library twins: [set(lib,v1), set(user,U) (either order); gap; set(lib,v2);
/// final] with gap in {none, all, every single query} and final in {sweep, every single query
/// first} (thorough: full product; quick: see the filter below).
fn twin_stage(threads: usize, stack: usize, deadline: Instant, full_product: bool) -> Result<TwinOut, Machinery> {
    struct G {
        menu: Menu,
        table: Vec<Expect>,
        nl: usize,
    }
    let nfiles = 2usize;
    let mut groups: Vec<G> = Vec::new();
    let mut out = TwinOut { agg: Agg::default(), fresh_cases: vec![], pairs: 0, pairs_visible_in_user_file: 0, complete: true };
    for g in TWINS {
        if g.libs.iter().any(|l| l.len() != g.libs[0].len()) {
            return machinery(format!("twin group {}: library twins differ in length", g.cat));
        }
        let mut texts: Vec<(String, Arc<str>)> =
            g.libs.iter().enumerate().map(|(i, t)| (twin_label(g.cat, i), Arc::from(*t))).collect();
        texts.push((format!("tw.{}.user", g.cat), Arc::from(g.user)));
        let menu = Menu::from_texts(nfiles, texts).map_err(Machinery)?;
        let nt = menu.texts.len();
        let nstates = (nt + 1).pow(nfiles as u32);
        let codes: Vec<usize> = (0..nstates).collect();
        let res = par_map(&codes, threads, stack, None, |_, &code| {
            let st = state_decode(code, nfiles, nt);
            let cur = menu.contents(&st);
            (fresh_obs(nfiles, &cur, &menu.budgets, false), fresh_obs(nfiles, &cur, &menu.budgets, true))
        });
        let mut table = Vec::with_capacity(nstates);
        let mut user_view: HashMap<usize, Vec<u64>> = HashMap::new();
        for (code, r) in res.into_iter().enumerate() {
            let Some((asc, desc)) = r else { return machinery("twin expected-answer table incomplete") };
            let st = state_decode(code, nfiles, nt);
            let load_case = Case {
                nfiles,
                ops: st
                    .iter()
                    .enumerate()
                    .filter_map(|(f, v)| v.map(|i| Op::Set { file: f, label: menu.texts[i].0.clone(), text: menu.texts[i].1.clone() }))
                    .collect(),
                first: None,
            };
            match (asc, desc) {
                (Ok(a), Ok(d)) => {
                    let ha = hashes(&a);
                    let hd = hashes(&d);
                    if ha != hd {
                        out.fresh_cases.push(load_case);
                    }
                    // what the user file (if it holds the user text) reports
                    for f in 0..nfiles {
                        if st[f] == Some(nt - 1) {
                            user_view.insert(code, vec![ha[f][K_DIAG], ha[f][K_ANALYZE], ha[f][K_TYPEOF]]);
                        }
                    }
                    table.push(Expect { asc: ha, desc: hd, diag_order_asc: a.diag_order.iter().map(|l| hash_lines(l)).collect() });
                }
                _ => {
                    out.fresh_cases.push(load_case);
                    table.push(Expect { asc: vec![[0; 5]; nfiles], desc: vec![[1; 5]; nfiles], diag_order_asc: vec![0; nfiles] });
                }
            }
        }
        let nl = g.libs.len();
        for v1 in 0..nl {
            for v2 in 0..nl {
                if v1 != v2 {
                    out.pairs += 1;
                    let c1 = state_code(&[Some(v1), Some(nt - 1)], nt);
                    let c2 = state_code(&[Some(v2), Some(nt - 1)], nt);
                    if user_view.get(&c1) != user_view.get(&c2) {
                        out.pairs_visible_in_user_file += 1;
                    }
                }
            }
        }
        groups.push(G { menu, table, nl });
    }
    // histories
    let mut items: Vec<(usize, Case, Vec<Option<usize>>)> = Vec::new();
    for (gi, g) in groups.iter().enumerate() {
        let singles = g.menu.singles();
        let ns = singles.len();
        let nt = g.menu.texts.len();
        let set = |f: usize, t: usize| Op::Set { file: f, label: g.menu.texts[t].0.clone(), text: g.menu.texts[t].1.clone() };
        for (fl, fu) in [(0usize, 1usize), (1, 0)] {
            for v1 in 0..g.nl {
                for v2 in 0..g.nl {
                    if v1 == v2 {
                        continue;
                    }
                    for lib_first in [true, false] {
                        for gap in 0..ns + 2 {
                            for fin in 0..=ns {
                                // quick: every gap choice with a plain sweep; "all" with every
                                // first query; a single query with the same query first
                                if !full_product && !(fin == 0 || gap == 1 || (gap >= 2 && fin == gap - 1)) {
                                    continue;
                                }
                                let mut ops = if lib_first { vec![set(fl, v1), set(fu, nt - 1)] } else { vec![set(fu, nt - 1), set(fl, v1)] };
                                ops.extend(memo_ops(gap, &singles));
                                ops.push(set(fl, v2));
                                let mut st = vec![None; nfiles];
                                st[fl] = Some(v2);
                                st[fu] = Some(nt - 1);
                                items.push((gi, Case { nfiles, ops, first: if fin == 0 { None } else { Some(singles[fin - 1]) } }, st));
                            }
                        }
                    }
                }
            }
        }
    }
    let chunk = 32usize;
    let nchunks = items.len().div_ceil(chunk);
    let idx: Vec<usize> = (0..nchunks).collect();
    let res = par_map(&idx, threads, stack, Some(deadline), |_, &c| {
        let mut agg = Agg::default();
        for (gi, case, st) in items.iter().skip(c * chunk).take(chunk) {
            let g = &groups[*gi];
            fast_check(&g.menu, &g.table, case, st, &mut agg);
        }
        agg
    });
    for r in res {
        match r {
            Some(a) => {
                out.agg.histories += a.histories;
                out.agg.cnt.ops += a.cnt.ops;
                out.agg.cnt.reuse_repeat += a.cnt.reuse_repeat;
                out.agg.cnt.reuse_across_edit += a.cnt.reuse_across_edit;
                out.agg.cnt.diag_order_diffs += a.cnt.diag_order_diffs;
                out.agg.outcome_hashes.extend(a.outcome_hashes);
                out.agg.suspicious.extend(a.suspicious);
            }
            None => out.complete = false,
        }
    }
    Ok(out)
}

pub fn run(ctx: &Ctx) -> EngineResult {
    quiet_panics();
    let mut rep = Report::new("model_checking");
    let t0 = Instant::now();
    let deadline = t0 + Duration::from_secs(ctx.tier.pick(36, 840));
    let nfiles = ctx.tier.pick(3usize, 4usize);
    let nv = ctx.tier.pick(TEXTS.len(), TEXTS.len());
    let max_depth = ctx.tier.pick(3usize, 4usize);
    let stack = 16 << 20;
    let menu = Menu::new(nfiles, nv).map_err(Machinery)?;
    let all_edits = menu.edits();
    let singles = menu.singles();
    let ns = singles.len();

    // ---- expected answers for every contents state, both load orders ----
    let nstates = (nv + 1).pow(nfiles as u32);
    let codes: Vec<usize> = (0..nstates).collect();
    let res = par_map(&codes, ctx.threads, stack, None, |_, &code| {
        let st = state_decode(code, nfiles, nv);
        let cur = menu.contents(&st);
        let asc = fresh_obs(nfiles, &cur, &menu.budgets, false);
        let desc = fresh_obs(nfiles, &cur, &menu.budgets, true);
        // the same texts alone (cross-file effect counter)
        let mut cross = false;
        if let Ok(a) = &asc {
            for f in 0..nfiles {
                if cur[f].is_some() {
                    let mut solo = vec![None; nfiles];
                    solo[f] = cur[f].clone();
                    if let Ok(s) = fresh_obs(nfiles, &solo, &menu.budgets, false) {
                        if s.lines[f][K_ANALYZE] != a.lines[f][K_ANALYZE] || s.lines[f][K_TYPEOF] != a.lines[f][K_TYPEOF] {
                            cross = true;
                        }
                    }
                }
            }
        }
        (asc, desc, cross)
    });
    let mut table: Vec<Expect> = Vec::with_capacity(nstates);
    let mut cross_states = 0u64;
    let mut fresh_viol_cases: Vec<Case> = Vec::new();
    let mut distinct_expected: HashSet<u64> = HashSet::new();
    for (code, r) in res.into_iter().enumerate() {
        let Some((asc, desc, cross)) = r else { return machinery("expected-answer table incomplete") };
        let st = state_decode(code, nfiles, nv);
        let load_case = || Case {
            nfiles,
            ops: st
                .iter()
                .enumerate()
                .filter_map(|(f, v)| v.map(|i| Op::Set { file: f, label: menu.texts[i].0.clone(), text: menu.texts[i].1.clone() }))
                .collect(),
            first: None,
        };
        match (asc, desc) {
            (Ok(a), Ok(d)) => {
                let ha = hashes(&a);
                let hd = hashes(&d);
                if ha != hd {
                    fresh_viol_cases.push(load_case());
                }
                for f in 0..nfiles {
                    distinct_expected.insert(ha[f][K_ANALYZE]);
                }
                if cross {
                    cross_states += 1;
                }
                table.push(Expect {
                    asc: ha,
                    desc: hd,
                    diag_order_asc: a.diag_order.iter().map(|l| hash_lines(l)).collect(),
                });
            }
            _ => {
                // a panic while loading/querying a fresh database: the slow path reports it
                fresh_viol_cases.push(load_case());
                table.push(Expect { asc: vec![[0; 5]; nfiles], desc: vec![[1; 5]; nfiles], diag_order_asc: vec![0; nfiles] });
            }
        }
    }
    for c in fresh_viol_cases.iter().take(50) {
        rep.violations_from(violations_of(c));
    }
    if cross_states == 0 || distinct_expected.len() < 8 {
        if !rep.violations.is_empty() {
            // the brand-new databases themselves fail (panic / load-order dependence): that is the
            // finding; the history exploration would only repeat it
            rep.cap("history exploration skipped: brand-new databases already violate the property (see violations)");
            rep.set("exhaustive", false);
            rep.set("states", nstates as u64);
            rep.set("transitions", 0u64);
            rep.set("traces_validated_against_impl", 0u64);
            return Ok(rep);
        }
        return machinery(format!(
            "alphabet vacuous: {cross_states} contents states in which one file's analysis depends on another file, {} distinct analyses",
            distinct_expected.len()
        ));
    }
    rep.set("contents_states", nstates as u64);
    rep.set("contents_states_with_cross_file_effect", cross_states);
    rep.set("distinct_fresh_analyses", distinct_expected.len() as u64);
    eprintln!("[C13] expected table: {nstates} states, {cross_states} with cross-file effect, {:.1}s", ctx.elapsed());

    // ---- stages, simplest first (edit-only histories by depth, then the families with queries
    // between edits by depth): (edits, family, number of text variants used) ----
    let small = 5usize; // A P C B 0
    let stages: Vec<(usize, Family, usize)> = match ctx.tier {
        Tier::Quick => vec![
            (1, Family::Full, nv),
            (2, Family::PlainSweep, nv),
            (3, Family::PlainSweep, small),
            // 4 edits confined to files f0,f1 (marker: 100 + number of files): the shortest
            // "remove(f); edit of a present g; query g" history has 4 edits
            (104 + 100 * 2, Family::PlainSweep, small),
            (2, Family::PlainFirst, nv),
            (2, Family::LastGap, nv),
            (2, Family::Uniform, nv),
            (2, Family::FirstGap, nv),
            (3, Family::PlainFirst, small),
            (3, Family::LastGap, small),
        ],
        Tier::Thorough => vec![
            (1, Family::Full, nv),
            (2, Family::PlainSweep, nv),
            (3, Family::PlainSweep, nv),
            (4, Family::PlainSweep, small),
            (2, Family::PlainFirst, nv),
            (2, Family::LastGap, nv),
            (2, Family::Uniform, nv),
            (2, Family::FirstGap, nv),
            (3, Family::LastGap, nv),
            (3, Family::FirstGap, nv),
            (4, Family::LastGapAll, small),
            (2, Family::UniformX, nv),
            (3, Family::Uniform, nv),
            (3, Family::PlainFirst, nv),
            (4, Family::PlainSweep, nv),
        ],
    };

    let mut total = Agg::default();
    let mut exhaustive = true;
    let mut completed: Vec<String> = Vec::new();
    let mut depth_completed: usize = 0;
    let mut slow_checked = 0u64;
    let mut flagged = 0u64;
    let mut unconfirmed = 0u64;
    let mut seen_stage: HashSet<(usize, String)> = HashSet::new();
    // ---- twin stage (2 files, same-length twins; see TWINS) ----
    {
        let tw = twin_stage(ctx.threads, stack, deadline, ctx.tier == Tier::Thorough)?;
        for c in tw.fresh_cases.iter().take(20) {
            rep.violations_from(violations_of(c));
        }
        if tw.pairs_visible_in_user_file < 8 {
            return machinery(format!(
                "twin stage vacuous: only {} of {} twin pairs are visible in the answers for the other file",
                tw.pairs_visible_in_user_file, tw.pairs
            ));
        }
        total.histories += tw.agg.histories;
        total.cnt.ops += tw.agg.cnt.ops;
        total.cnt.reuse_repeat += tw.agg.cnt.reuse_repeat;
        total.cnt.reuse_across_edit += tw.agg.cnt.reuse_across_edit;
        total.cnt.diag_order_diffs += tw.agg.cnt.diag_order_diffs;
        flagged += tw.agg.suspicious.len() as u64;
        for c in tw.agg.suspicious.iter() {
            if slow_checked < 200 {
                slow_checked += 1;
                let v = violations_of(c);
                if v.is_empty() {
                    unconfirmed += 1;
                }
                rep.violations_from(v);
            }
        }
        rep.set("twin_groups", TWINS.len() as u64);
        rep.set("twin_ordered_pairs", tw.pairs);
        rep.set("twin_pairs_visible_in_other_file", tw.pairs_visible_in_user_file);
        rep.set("twin_histories", tw.agg.histories);
        rep.set("twin_distinct_final_observations", tw.agg.outcome_hashes.len() as u64);
        eprintln!(
            "[C13] twin stage: {} groups, {} ordered pairs ({} visible in the other file), {} histories, {:.1}s",
            TWINS.len(), tw.pairs, tw.pairs_visible_in_user_file, tw.agg.histories, ctx.elapsed()
        );
        if tw.complete {
            completed.push("twins:2files".to_string());
        } else {
            exhaustive = false;
            rep.cap("wall cap reached in the twin stage");
        }
    }
    for (d, fam, snv) in stages {
        if !exhaustive {
            break;
        }
        // d >= 100 encodes a stage confined to the first k files: d = 100 + 100*k + edits
        let (d, files_used) = if d >= 100 { ((d - 100) % 100, (d - 100) / 100) } else { (d, nfiles) };
        let vectors = family_vectors(fam, d, ns);
        // edit alphabet of this stage (sets restricted to the first `snv` texts)
        let edits: Vec<Op> = all_edits
            .iter()
            .filter(|e| match e {
                Op::Set { label, file, .. } => *file < files_used && menu.texts.iter().position(|(l, _)| l == label).is_some_and(|i| i < snv),
                Op::Remove { file } => *file < files_used,
                _ => true,
            })
            .cloned()
            .collect();
        let ne = edits.len();
        // a later stage with more texts repeats the histories of the same family over fewer texts;
        // those are skipped (a sequence is skipped iff all its sets use the small menu)
        let skip_small: Option<usize> = if seen_stage.contains(&(d, format!("{fam:?}"))) { Some(small) } else { None };
        seen_stage.insert((d, format!("{fam:?}")));
        // work items: (edit sequence, chunk of memo vectors), in simplest-first order
        let nseq = ne.pow(d as u32);
        let chunk = 16usize;
        let nchunks = vectors.len().div_ceil(chunk);
        let nitems = nseq * nchunks;
        let items: Vec<usize> = (0..nitems).collect();
        let stage_t = Instant::now();
        let res = par_map(&items, ctx.threads, stack, Some(deadline), |_, &item| {
            let mut agg = Agg::default();
            let scode = item / nchunks;
            let ch = item % nchunks;
            let mut seq: Vec<usize> = Vec::with_capacity(d);
            let mut c = scode;
            for _ in 0..d {
                seq.push(c % ne);
                c /= ne;
            }
            seq.reverse();
            let mut st: Vec<Option<usize>> = vec![None; nfiles];
            for &e in &seq {
                apply_model(&mut st, &edits[e], &menu);
            }
            if let Some(sm) = skip_small {
                let all_small = seq.iter().all(|&e| match &edits[e] {
                    Op::Set { label, .. } => menu.texts.iter().position(|(l, _)| l == label).is_some_and(|i| i < sm),
                    _ => true,
                });
                if all_small {
                    return agg;
                }
            }
            for (g, fin) in vectors.iter().skip(ch * chunk).take(chunk) {
                let mut ops = Vec::with_capacity(2 * d);
                for (i, &e) in seq.iter().enumerate() {
                    ops.extend(memo_ops(g[i], &singles));
                    ops.push(edits[e].clone());
                }
                let case = Case { nfiles, ops, first: if *fin == 0 { None } else { Some(singles[*fin - 1]) } };
                fast_check(&menu, &table, &case, &st, &mut agg);
            }
            agg
        });
        let mut done = 0usize;
        for r in res {
            match r {
                Some(a) => {
                    done += 1;
                    total.histories += a.histories;
                    total.cnt.ops += a.cnt.ops;
                    total.cnt.reuse_repeat += a.cnt.reuse_repeat;
                    total.cnt.reuse_across_edit += a.cnt.reuse_across_edit;
                    total.cnt.diag_order_diffs += a.cnt.diag_order_diffs;
                    total.final_states.extend(a.final_states);
                    total.outcome_hashes.extend(a.outcome_hashes);
                    flagged += a.suspicious.len() as u64;
                    for c in a.suspicious {
                        if slow_checked < 400 {
                            slow_checked += 1;
                            let v = violations_of(&c);
                            if v.is_empty() {
                                unconfirmed += 1;
                            }
                            rep.violations_from(v);
                        }
                    }
                }
                None => exhaustive = false,
            }
        }
        let label = if files_used == nfiles { format!("depth{d}:{fam:?}:{snv}texts") } else { format!("depth{d}:{fam:?}:{snv}texts:{files_used}files") };
        eprintln!(
            "[C13] stage {label}: {done}/{nitems} items ({nseq} edit sequences x {} memo vectors), total histories {}, {:.1}s (stage {:.1}s)",
            vectors.len(),
            total.histories,
            ctx.elapsed(),
            stage_t.elapsed().as_secs_f64()
        );
        if exhaustive {
            completed.push(label);
            if matches!(fam, Family::PlainSweep | Family::Full) && snv == nv && files_used == nfiles {
                depth_completed = depth_completed.max(d);
            }
        } else {
            rep.cap(format!("wall cap reached in stage {label} after {done} of {nitems} work items ({nseq} edit sequences x {} memo vectors)", vectors.len()));
        }
    }
    if unconfirmed > 0 {
        return machinery(format!("{unconfirmed} histories flagged by the hashed comparison were not confirmed by the detailed comparison"));
    }
    if total.histories == 0 || total.outcome_hashes.len() < 8 {
        return machinery("exploration vacuous: fewer than 8 distinct final observations");
    }
    if total.cnt.reuse_across_edit == 0 {
        return machinery("no memoised value was ever returned again after an edit: the memo dimension is vacuous");
    }

    rep.set("states", total.histories);
    rep.set("transitions", total.cnt.ops);
    rep.set("traces_validated_against_impl", total.histories);
    rep.set("files", nfiles as u64);
    rep.set("text_variants", nv as u64);
    rep.set("edit_alphabet", all_edits.len() as u64);
    rep.set("single_query_alphabet", ns as u64);
    rep.set("max_depth_edits", max_depth as u64);
    rep.set("stages_completed", json!(completed));
    rep.set("depth_completed_all_texts_sweep_only", depth_completed as u64);
    rep.set("distinct_final_contents_states", total.final_states.len() as u64);
    rep.set("distinct_final_observations", total.outcome_hashes.len() as u64);
    rep.set("memo_reused_by_repeated_query", total.cnt.reuse_repeat);
    rep.set("memo_reused_across_an_edit", total.cnt.reuse_across_edit);
    rep.set("diagnostic_order_differences_not_demanded", total.cnt.diag_order_diffs);
    rep.set("histories_flagged_by_hash_comparison", flagged);
    rep.set("histories_sent_to_detailed_check", slow_checked);
    rep.set("exhaustive", exhaustive);
    // samples
    let edits = &all_edits;
    let ne = edits.len();
    let sample_seq = [0usize, ne / 2, ne - 1];
    let mut ops = Vec::new();
    for (i, e) in sample_seq.iter().enumerate() {
        ops.extend(memo_ops(if i == 0 { 0 } else { 2 + i }, &singles));
        ops.push(edits[*e % ne].clone());
    }
    let sample = Case { nfiles, ops, first: Some(singles[0]) };
    rep.sample(json!({"history": sample.short(), "case": sample.to_json()}));
    rep.sample(json!({"texts": TEXTS[..nv].iter().map(|(l, t)| json!({"label": l, "text": t})).collect::<Vec<_>>()}));
    rep.assume("state = history (no merging): the memo tables under test are not observable");
    rep.assume("memo dimension per gap restricted to {none, one single (kind,file) query, all queries}; the stage list (stages_completed) names the enumerated combinations: Full = full product; PlainSweep/PlainFirst = no query before the last edit; LastGap = queries only before the last edit; Uniform/UniformX = the same choice in every gap");
    rep.assume("diagnostics compared as a multiset; load order of the fresh database: ascending FileId, and descending must agree");
    Ok(rep)
}

pub fn workers() -> Vec<(&'static str, WorkerFn)> {
    Vec::new()
}
