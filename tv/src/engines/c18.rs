//! C18 — control endpoint executes a request only with a sufficient role.
//!
//! Core X1 (bounded-exhaustive enumeration request type x params x credential x endpoint
//! configuration, every request sent to a REAL `ControlServer` on a unix socket that serves a
//! freshly built `ControlState`) plus a small X2 search over the pairing sub-protocol, plus a
//! credential-string family (every configured secret x {exact, "", proper prefixes/suffixes,
//! extensions, one-byte changes, case changes}, non-string `auth` members, a rotated-out admin
//! token — Part C2), plus a role-gate-vs-handler family (every role-deciding string of a request
//! type whose required role depends on its content — today the admin-only keys of `config.set` —
//! re-spelled in ~45 ways x viewer/operator/engineer/admin credential, judged on which setting
//! actually changed — Part C3), plus a malformed-line family on one long-lived connection.
//!
//! X2 clock: the pairing store runs on an injected clock (`PairingStore::with_clock`); every
//! event advances it by `dt` seconds. `dt` = 0 keeps two claims in the same second (they then
//! share one listing id `pair-<seconds>`), boundary ticks move the clock to one second before /
//! after the expiry the endpoint itself reported. Oracles added for that: after a confirmed
//! `pair.revoke` of an id NO token listed under that id authorises anything; a token that
//! `pair.list` reports as revoked or does not report must not authorise; a store re-loaded from
//! pairing.json must not resurrect a revoked/expired token; AT the expiry instant both outcomes
//! are accepted (the statement does not say whether the instant is inclusive).
//!
//! Seam: `handle_request_line` / `handle_request_value` are `pub(crate)`, so the only public way
//! to reach the endpoint logic is the socket transport (`ControlServer::start`). Every accept
//! thread of the subject lives forever, therefore all cases run in `iso` worker processes that
//! are recycled after a bounded number of servers.
//!
//! Request types, the permission table, the debug-class set and the config keys are extracted
//! from the CURRENT source of /repo at check time by a small hand-written scanner (part A); the
//! oracle never copies them.
//!
//! Probes (an "effect" is a difference between the probe taken before and after ONE request on a
//! fresh state):
//!   DebugControl mode / target thread / breakpoints / breakpoint generation / queued io writes,
//!   settings (Debug rendering), control mode, debug_enabled, auth token, pending restart,
//!   ResourceControl (Debug rendering: stop flag, state, last error), commands received by the stub
//!   resource, HMI descriptor (revision, error, customization), acknowledged HMI alarms, files under
//!   the project root, pairing store listing and pending code, and — after one more real runtime
//!   cycle of the program the DebugControl is attached to — every variable of the runtime and three
//!   output bits (this is how queued variable writes, forces and releases become visible).
//! Deliberately IGNORED (they change by themselves or are caches filled by read requests):
//!   metrics/uptime, HMI trend samples and alarm raise/clear bookkeeping (`hmi_live` except the
//!   acknowledged flag), the DebugVariableHandles reference table rebuilt by `debug.scopes`, the
//!   debug stop queue drained by `debug.stops` (empty here), `Snapshot`/`MeshSnapshot` query
//!   commands sent to the resource by read handlers, the bytes of pairing.json (mirror of the
//!   listing), pruning of expired pairing entries, the audit channel.

use crate::fw::*;
use crate::iso;
use serde_json::{json, Map, Value};
use std::collections::{BTreeMap, BTreeSet};
use std::io::{BufRead, BufReader, Write};
use std::os::unix::net::UnixStream;
use std::path::{Path, PathBuf};
use std::sync::atomic::{AtomicBool, AtomicU64, AtomicUsize, Ordering};
use std::sync::{Arc, Mutex};
use std::time::{Duration, Instant};

use trust_runtime::config::ControlMode;
use trust_runtime::control::{
    ControlEndpoint, ControlServer, ControlState, HmiRuntimeDescriptor, SourceFile, SourceRegistry,
};
use trust_runtime::debug::{DebugControl, DebugSnapshot, DebugVariableHandles, RuntimeEvent};
use trust_runtime::harness::TestHarness;
use trust_runtime::io::IoAddress;
use trust_runtime::metrics::RuntimeMetrics;
use trust_runtime::scheduler::{ResourceCommand, ResourceControl, StdClock};
use trust_runtime::security::AccessRole;
use trust_runtime::settings::{
    BaseSettings, DiscoverySettings, MeshSettings, RuntimeSettings, SimulationSettings, WebSettings,
};
use trust_runtime::watchdog::{FaultPolicy, RetainMode, WatchdogPolicy};
use trust_runtime::web::pairing::PairingStore;

// =================================================================================================
// Roles
// =================================================================================================

const ROLE_NAMES: [&str; 4] = ["viewer", "operator", "engineer", "admin"];

fn role_index(name: &str) -> Option<u8> {
    ROLE_NAMES
        .iter()
        .position(|r| r.eq_ignore_ascii_case(name))
        .map(|i| i as u8)
}

fn role_name(r: u8) -> &'static str {
    ROLE_NAMES.get(r as usize).copied().unwrap_or("?")
}

// =================================================================================================
// Part A — scanner: request names / permission table / debug class from the current source
// =================================================================================================

#[derive(Clone, Debug, PartialEq)]
enum Tok {
    Str(String),
    Ident(String),
    Punct(char),
}

/// Minimal Rust tokenizer: string literals (with escapes, raw strings), identifiers, punctuation;
/// comments, char literals, lifetimes and numbers are skipped.
fn tokenize(src: &str) -> Vec<Tok> {
    let b: Vec<char> = src.chars().collect();
    let mut out = Vec::new();
    let mut i = 0;
    while i < b.len() {
        let c = b[i];
        if c == '/' && i + 1 < b.len() && b[i + 1] == '/' {
            while i < b.len() && b[i] != '\n' {
                i += 1;
            }
            continue;
        }
        if c == '/' && i + 1 < b.len() && b[i + 1] == '*' {
            let mut depth = 1;
            i += 2;
            while i < b.len() && depth > 0 {
                if b[i] == '/' && i + 1 < b.len() && b[i + 1] == '*' {
                    depth += 1;
                    i += 2;
                } else if b[i] == '*' && i + 1 < b.len() && b[i + 1] == '/' {
                    depth -= 1;
                    i += 2;
                } else {
                    i += 1;
                }
            }
            continue;
        }
        // raw strings r"…", r#"…"#, br"…"
        if (c == 'r' || (c == 'b' && i + 1 < b.len() && b[i + 1] == 'r'))
            && !(i > 0 && (b[i - 1].is_alphanumeric() || b[i - 1] == '_'))
        {
            let mut j = if c == 'b' { i + 2 } else { i + 1 };
            let mut hashes = 0;
            while j < b.len() && b[j] == '#' {
                hashes += 1;
                j += 1;
            }
            if j < b.len() && b[j] == '"' {
                j += 1;
                let start = j;
                let mut end = None;
                while j < b.len() {
                    if b[j] == '"' {
                        let mut k = 0;
                        while k < hashes && j + 1 + k < b.len() && b[j + 1 + k] == '#' {
                            k += 1;
                        }
                        if k == hashes {
                            end = Some(j);
                            break;
                        }
                    }
                    j += 1;
                }
                let e = end.unwrap_or(b.len());
                out.push(Tok::Str(b[start..e].iter().collect()));
                i = (e + 1 + hashes).min(b.len());
                continue;
            }
        }
        if c == '"' {
            let mut s = String::new();
            i += 1;
            while i < b.len() && b[i] != '"' {
                if b[i] == '\\' && i + 1 < b.len() {
                    match b[i + 1] {
                        'n' => s.push('\n'),
                        't' => s.push('\t'),
                        'r' => s.push('\r'),
                        '0' => s.push('\0'),
                        other => s.push(other),
                    }
                    i += 2;
                } else {
                    s.push(b[i]);
                    i += 1;
                }
            }
            i += 1;
            out.push(Tok::Str(s));
            continue;
        }
        if c == '\'' {
            // char literal or lifetime
            if i + 2 < b.len() && b[i + 1] == '\\' {
                let mut j = i + 2;
                while j < b.len() && b[j] != '\'' {
                    j += 1;
                }
                i = j + 1;
                continue;
            }
            if i + 2 < b.len() && b[i + 2] == '\'' {
                i += 3;
                continue;
            }
            i += 1; // lifetime tick
            continue;
        }
        if c.is_alphabetic() || c == '_' {
            let start = i;
            while i < b.len() && (b[i].is_alphanumeric() || b[i] == '_') {
                i += 1;
            }
            out.push(Tok::Ident(b[start..i].iter().collect()));
            continue;
        }
        if c.is_ascii_digit() {
            while i < b.len() && (b[i].is_alphanumeric() || b[i] == '_' || b[i] == '.') {
                // stop at `..` ranges
                if b[i] == '.' && i + 1 < b.len() && b[i + 1] == '.' {
                    break;
                }
                i += 1;
            }
            continue;
        }
        if !c.is_whitespace() {
            out.push(Tok::Punct(c));
        }
        i += 1;
    }
    out
}

/// Token range of the body (between the outer braces) of `fn name`.
fn fn_body<'a>(toks: &'a [Tok], name: &str) -> Option<&'a [Tok]> {
    let mut i = 0;
    while i + 1 < toks.len() {
        if toks[i] == Tok::Ident("fn".into()) && toks[i + 1] == Tok::Ident(name.into()) {
            let mut j = i + 2;
            while j < toks.len() && toks[j] != Tok::Punct('{') {
                if toks[j] == Tok::Punct(';') {
                    return None;
                }
                j += 1;
            }
            let start = j + 1;
            let mut depth = 0i32;
            while j < toks.len() {
                match toks[j] {
                    Tok::Punct('{') => depth += 1,
                    Tok::Punct('}') => {
                        depth -= 1;
                        if depth == 0 {
                            return Some(&toks[start..j]);
                        }
                    }
                    _ => {}
                }
                j += 1;
            }
            return None;
        }
        i += 1;
    }
    None
}

/// One match arm with string-literal (or `_`) patterns: (patterns, rhs tokens).
fn string_arms(toks: &[Tok]) -> Vec<(Vec<String>, Vec<Tok>)> {
    let mut out = Vec::new();
    let mut i = 0;
    while i < toks.len() {
        let mut pats = Vec::new();
        let mut j = i;
        let is_default = toks[j] == Tok::Ident("_".into());
        if is_default {
            pats.push("_".to_string());
            j += 1;
        } else {
            while let Some(Tok::Str(s)) = toks.get(j) {
                pats.push(s.clone());
                j += 1;
                if toks.get(j) == Some(&Tok::Punct('|')) {
                    j += 1;
                } else {
                    break;
                }
            }
        }
        if !pats.is_empty()
            && toks.get(j) == Some(&Tok::Punct('='))
            && toks.get(j + 1) == Some(&Tok::Punct('>'))
            && (!is_default || i == 0 || matches!(toks[i - 1], Tok::Punct(',') | Tok::Punct('}') | Tok::Punct('{')))
        {
            let mut k = j + 2;
            let mut rhs = Vec::new();
            let mut depth = 0i32;
            while k < toks.len() {
                match &toks[k] {
                    Tok::Punct('{') | Tok::Punct('(') | Tok::Punct('[') => depth += 1,
                    Tok::Punct('}') | Tok::Punct(')') | Tok::Punct(']') => {
                        depth -= 1;
                        if depth < 0 {
                            break;
                        }
                        if depth == 0 && toks[k] == Tok::Punct('}') && rhs.first() == Some(&Tok::Punct('{')) {
                            rhs.push(toks[k].clone());
                            break;
                        }
                    }
                    Tok::Punct(',') if depth == 0 => break,
                    _ => {}
                }
                rhs.push(toks[k].clone());
                k += 1;
            }
            out.push((pats, rhs));
            i = j + 2; // continue inside the rhs too (nested matches)
            continue;
        }
        i += 1;
    }
    out
}

fn roles_in(toks: &[Tok]) -> Vec<u8> {
    let mut out = Vec::new();
    for w in toks.windows(4) {
        if w[0] == Tok::Ident("AccessRole".into()) && w[1] == Tok::Punct(':') && w[2] == Tok::Punct(':') {
            if let Tok::Ident(n) = &w[3] {
                if let Some(r) = role_index(n) {
                    out.push(r);
                }
            }
        }
    }
    out
}

#[derive(Clone, Debug)]
pub enum RoleSpec {
    /// the arm is literally `AccessRole::X`
    Lit(u8),
    /// the arm calls a function of the params; `min` = lowest role literal in that function
    Dyn(u8),
}

/// A permission-table arm whose role is computed from the request's CONTENT by a helper function.
#[derive(Clone, Debug, Default)]
pub struct DynInfo {
    /// string literals compared in the helper (= the role-deciding strings)
    pub strings: Vec<String>,
    /// lowest / highest role literal in the helper
    pub lo: u8,
    pub hi: u8,
}

#[derive(Clone, Debug, Default)]
pub struct Table {
    /// request name -> content-dependent role helper
    pub dynamic: BTreeMap<String, DynInfo>,
    /// request name -> handler file stem that dispatches it
    pub dispatch: BTreeMap<String, String>,
    /// explicit arms of the permission table
    pub roles: BTreeMap<String, RoleSpec>,
    pub default_role: u8,
    /// literals of `is_debug_request` (information only)
    pub debug_gate: BTreeSet<String>,
    /// keys matched in `handle_config_set`
    pub config_keys: Vec<String>,
}

impl Table {
    pub fn required(&self, ty: &str) -> (RoleSpec, bool) {
        match self.roles.get(ty) {
            Some(r) => (r.clone(), true),
            None => (RoleSpec::Lit(self.default_role), false),
        }
    }
    /// debug class = dispatched by handlers/debug.rs or handlers/variables.rs
    pub fn debug_class(&self, ty: &str) -> bool {
        matches!(self.dispatch.get(ty).map(String::as_str), Some("debug") | Some("variables"))
    }
    pub fn all_names(&self) -> Vec<String> {
        let mut s: BTreeSet<String> = self.dispatch.keys().cloned().collect();
        s.extend(self.roles.keys().cloned());
        s.extend(self.debug_gate.iter().cloned());
        s.into_iter().collect()
    }
}

pub fn scan_sources(repo: &Path) -> Result<Table, String> {
    let base = repo.join("crates/trust-runtime/src");
    let control_path = base.join("control.rs");
    let control = std::fs::read_to_string(&control_path).map_err(|e| format!("read {control_path:?}: {e}"))?;
    let ctoks = tokenize(&control);
    let mut t = Table::default();

    let hdir = base.join("control/handlers");
    let mut files: Vec<PathBuf> = std::fs::read_dir(&hdir)
        .map_err(|e| format!("read_dir {hdir:?}: {e}"))?
        .filter_map(|e| e.ok().map(|e| e.path()))
        .filter(|p| p.extension().and_then(|e| e.to_str()) == Some("rs"))
        .collect();
    files.sort();
    for f in &files {
        let stem = f.file_stem().and_then(|s| s.to_str()).unwrap_or("").to_string();
        let text = std::fs::read_to_string(f).map_err(|e| format!("read {f:?}: {e}"))?;
        let toks = tokenize(&text);
        for (pats, _) in string_arms(&toks) {
            for p in pats {
                if p != "_" {
                    t.dispatch.entry(p).or_insert_with(|| stem.clone());
                }
            }
        }
    }
    if t.dispatch.len() < 10 {
        return Err(format!("scanner found only {} dispatched request names", t.dispatch.len()));
    }

    let body = fn_body(&ctoks, "required_role_for_control_request")
        .ok_or("fn required_role_for_control_request not found in control.rs")?;
    let mut default_seen = false;
    for (pats, rhs) in string_arms(body) {
        let inner: Vec<Tok> = if rhs.first() == Some(&Tok::Punct('{')) && rhs.last() == Some(&Tok::Punct('}')) {
            rhs[1..rhs.len() - 1].to_vec()
        } else {
            rhs.clone()
        };
        let lits = roles_in(&inner);
        let spec = if inner.len() == 4 && lits.len() == 1 {
            RoleSpec::Lit(lits[0])
        } else {
            // a call: find callee and scan it
            let mut callee = None;
            for w in inner.windows(2) {
                if let (Tok::Ident(n), Tok::Punct('(')) = (&w[0], &w[1]) {
                    callee = Some(n.clone());
                    break;
                }
            }
            let mut all = lits.clone();
            let mut strings: Vec<String> = Vec::new();
            if let Some(c) = callee {
                if let Some(cb) = fn_body(&ctoks, &c) {
                    all.extend(roles_in(cb));
                    for tk in cb {
                        if let Tok::Str(s) = tk {
                            if !strings.contains(s) {
                                strings.push(s.clone());
                            }
                        }
                    }
                }
            }
            match (all.iter().min(), all.iter().max()) {
                (Some(m), Some(mx)) => {
                    for p in &pats {
                        if p != "_" {
                            t.dynamic.insert(p.clone(), DynInfo { strings: strings.clone(), lo: *m, hi: *mx });
                        }
                    }
                    RoleSpec::Dyn(*m)
                }
                _ => return Err(format!("cannot derive a role for table arm {pats:?}")),
            }
        };
        for p in pats {
            if p == "_" {
                match spec {
                    RoleSpec::Lit(r) => t.default_role = r,
                    RoleSpec::Dyn(r) => t.default_role = r,
                }
                default_seen = true;
            } else {
                t.roles.insert(p, spec.clone());
            }
        }
    }
    if t.roles.len() < 10 {
        return Err(format!("scanner found only {} permission-table entries", t.roles.len()));
    }
    if !default_seen {
        // no default arm: unknown names cannot be dispatched at all; treat as admin-only
        t.default_role = 3;
    }
    if let Some(b) = fn_body(&ctoks, "is_debug_request") {
        for tk in b {
            if let Tok::Str(s) = tk {
                t.debug_gate.insert(s.clone());
            }
        }
    }
    if let Some(b) = fn_body(&ctoks, "handle_config_set") {
        let mut keys = BTreeSet::new();
        for (pats, _) in string_arms(b) {
            for p in pats {
                if p.contains('.') && !p.contains(' ') {
                    keys.insert(p);
                }
            }
        }
        t.config_keys = keys.into_iter().collect();
    }
    Ok(t)
}

// =================================================================================================
// Part B — a fresh endpoint: real runtime + DebugControl + stub resource + ControlServer on a socket
// =================================================================================================

const PROGRAM: &str = "PROGRAM Main\nVAR_EXTERNAL\n    g_forced : DINT;\n    g_out : BOOL;\nEND_VAR\nVAR\n    run : BOOL := TRUE;\n    // @hmi(min=0, max=100)\n    speed : REAL := 120.0;\nEND_VAR\ng_forced := 1;\ng_out := FALSE;\nEND_PROGRAM\n\nCONFIGURATION Conf\nVAR_GLOBAL\n    g_set : DINT := 5;\n    g_force : DINT := 5;\n    g_forced : DINT := 5;\n    g_out AT %QX0.1 : BOOL;\nEND_VAR\nRESOURCE Res ON CPU\nPROGRAM Main : Main;\nEND_RESOURCE\nEND_CONFIGURATION\n";
const SOURCE_PATH: &str = "main.st";
const FILE_ID: u32 = 0;
const ADMIN_TOKEN: &str = "adm-S3cret-token";
const WRONG_TOKEN: &str = "not-the-token";
const FILE_ADMIN_TOKEN: &str = "tok-admin-role-loaded-from-file";
const T0: u64 = 1_700_000_000;
const QUIT_KEY: &str = "__tv_c18_quit__";

static DIR_COUNTER: AtomicU64 = AtomicU64::new(0);
static SERVERS_STARTED: AtomicUsize = AtomicUsize::new(0);
static LAST_PANIC: Mutex<Option<String>> = Mutex::new(None);

fn install_panic_recorder() {
    std::panic::set_hook(Box::new(|info| {
        let msg = if let Some(s) = info.payload().downcast_ref::<&str>() {
            s.to_string()
        } else if let Some(s) = info.payload().downcast_ref::<String>() {
            s.clone()
        } else {
            "panic".to_string()
        };
        let loc = info.location().map(|l| l.file().rsplit('/').next().unwrap_or("").to_string()).unwrap_or_default();
        if let Ok(mut g) = LAST_PANIC.lock() {
            *g = Some(format!("{loc}: {msg}"));
        }
    }));
}

fn take_panic() -> Option<String> {
    LAST_PANIC.lock().ok().and_then(|mut g| g.take())
}

#[derive(Clone, Copy, Debug, PartialEq, Eq)]
pub struct Cfg {
    pub token: bool,
    pub debug: bool,
    pub pairing: bool,
    pub production: bool,
}

impl Cfg {
    fn to_json(self) -> Value {
        json!({"token": self.token, "debug": self.debug, "pairing": self.pairing, "production": self.production})
    }
    fn from_json(v: &Value) -> Cfg {
        Cfg {
            token: v["token"].as_bool().unwrap_or(true),
            debug: v["debug"].as_bool().unwrap_or(true),
            pairing: v["pairing"].as_bool().unwrap_or(true),
            production: v["production"].as_bool().unwrap_or(false),
        }
    }
    fn label(self) -> String {
        format!(
            "token={} debug={} pairing={} mode={}",
            if self.token { "set" } else { "unset" },
            if self.debug { "on" } else { "off" },
            if self.pairing { "present" } else { "absent" },
            if self.production { "production" } else { "debug" }
        )
    }
}

fn runtime_settings() -> RuntimeSettings {
    RuntimeSettings::new(
        BaseSettings {
            log_level: "info".into(),
            watchdog: WatchdogPolicy::default(),
            fault_policy: FaultPolicy::SafeHalt,
            retain_mode: RetainMode::None,
            retain_save_interval: None,
        },
        WebSettings { enabled: false, listen: "127.0.0.1:0".into(), auth: "local".into(), tls: false },
        DiscoverySettings { enabled: false, service_name: "truST".into(), advertise: false, interfaces: Vec::new() },
        MeshSettings {
            enabled: false,
            listen: "127.0.0.1:0".into(),
            tls: false,
            auth_token: None,
            publish: Vec::new(),
            subscribe: indexmap::IndexMap::new(),
        },
        SimulationSettings { enabled: false, time_scale: 1, mode_label: "production".into(), warning: "".into() },
    )
}

pub struct Env {
    dir: PathBuf,
    root: PathBuf,
    harness: TestHarness,
    debug: DebugControl,
    state: Arc<ControlState>,
    sock: PathBuf,
    cmd_log: Arc<Mutex<Vec<String>>>,
    clock: Arc<AtomicU64>,
    store: Option<Arc<PairingStore>>,
    /// credential name -> token string
    creds: BTreeMap<String, String>,
    pairing_baseline: String,
    seed_code: Option<String>,
    victim_id: Option<String>,
    alarm_id: Option<String>,
    token_ttl: u64,
    _server: ControlServer,
}

impl Drop for Env {
    fn drop(&mut self) {
        let mut updates = indexmap::IndexMap::new();
        updates.insert(smol_str::SmolStr::new(QUIT_KEY), trust_runtime::value::Value::Bool(true));
        let _ = self.state.resource.send_command(ResourceCommand::MeshApply { updates });
        let _ = std::fs::remove_dir_all(&self.dir);
    }
}

fn fresh_dir(base: &Path) -> PathBuf {
    let n = DIR_COUNTER.fetch_add(1, Ordering::Relaxed);
    let d = base.join(format!("{}-{}", std::process::id(), n));
    let _ = std::fs::remove_dir_all(&d);
    std::fs::create_dir_all(&d).expect("create case dir");
    d
}

fn claim_at(store: &PairingStore, clock: &AtomicU64, t: u64, role: AccessRole) -> Result<(String, String), String> {
    clock.store(t, Ordering::SeqCst);
    let code = store.start_pairing();
    let token = store.claim(&code.code, Some(role)).ok_or("setup claim failed")?;
    let tail: String = token.chars().rev().take(4).collect::<String>().chars().rev().collect();
    let id = store
        .list()
        .into_iter()
        .find(|e| e.created_at == t && e.tail.ends_with(&tail))
        .map(|e| e.id)
        .ok_or("setup: claimed token not listed")?;
    Ok((token, id))
}

fn canon_list(store: &PairingStore, now: u64) -> String {
    let mut out = Vec::new();
    for e in store.list() {
        if e.expires_at < now {
            continue; // pruning of expired entries is not an effect
        }
        out.push(format!("{}|{}|{}|{}|{}|{}", e.id, e.enabled, e.role.as_str(), e.created_at, e.expires_at, e.tail));
    }
    out.join(";")
}

/// `empty_store`: pairing store without any pre-made token (used by the X2 search).
pub fn build_env(cfg: Cfg, base: &Path, empty_store: bool) -> Result<Env, String> {
    let dir = fresh_dir(base);
    let root = dir.join("root");
    std::fs::create_dir_all(&root).map_err(|e| format!("mkdir root: {e}"))?;
    std::fs::write(root.join("hmi.toml"), "[write]\nenabled = true\nallow = [\"Main.run\"]\n")
        .map_err(|e| format!("write hmi.toml: {e}"))?;

    let mut harness = TestHarness::from_source(PROGRAM).map_err(|e| format!("harness program does not compile: {e:?}"))?;
    let debug = harness.runtime_mut().enable_debug();
    // seeds that make releases / clears observable
    debug.force_global("g_forced", trust_runtime::value::Value::DInt(99));
    if let Ok(a) = IoAddress::parse("%QX0.1") {
        debug.force_io(a, trust_runtime::value::Value::Bool(true));
    }
    debug.set_breakpoints_for_file(FILE_ID, Vec::new());
    let r = harness.cycle();
    if !r.errors.is_empty() {
        return Err(format!("baseline cycle failed: {:?}", r.errors));
    }
    let snapshot = DebugSnapshot { storage: harness.runtime().storage().clone(), now: harness.runtime().current_time() };

    let (resource, cmd_rx) = ResourceControl::stub(StdClock::new());
    let cmd_log: Arc<Mutex<Vec<String>>> = Arc::new(Mutex::new(Vec::new()));
    {
        let log = cmd_log.clone();
        let snap = snapshot.clone();
        std::thread::Builder::new()
            .stack_size(256 << 10)
            .spawn(move || {
                while let Ok(cmd) = cmd_rx.recv() {
                    match cmd {
                        ResourceCommand::Snapshot { respond_to } => {
                            let _ = respond_to.send(snap.clone()); // query, not logged
                        }
                        ResourceCommand::MeshSnapshot { respond_to, .. } => {
                            let _ = respond_to.send(indexmap::IndexMap::new()); // query, not logged
                        }
                        ResourceCommand::ReloadBytecode { bytes, respond_to } => {
                            log.lock().unwrap().push(format!("ReloadBytecode({} bytes)", bytes.len()));
                            let _ = respond_to.send(Err(trust_runtime::error::RuntimeError::ControlError("stub resource".into())));
                        }
                        ResourceCommand::MeshApply { updates } => {
                            if updates.contains_key(QUIT_KEY) {
                                break;
                            }
                            log.lock().unwrap().push(format!("MeshApply({} updates)", updates.len()));
                        }
                        other => log.lock().unwrap().push(format!("{other:?}")),
                    }
                }
            })
            .map_err(|e| format!("spawn watcher: {e}"))?;
    }

    let sources = SourceRegistry::new(vec![SourceFile { id: FILE_ID, path: PathBuf::from(SOURCE_PATH), text: PROGRAM.to_string() }]);
    let hmi_descriptor = Arc::new(Mutex::new(HmiRuntimeDescriptor::from_sources(Some(&root), &sources)));

    // pairing store with an injected clock
    let clock = Arc::new(AtomicU64::new(T0));
    let mut creds: BTreeMap<String, String> = BTreeMap::new();
    creds.insert("wrong".into(), WRONG_TOKEN.into());
    creds.insert("admin".into(), ADMIN_TOKEN.into());
    let mut store = None;
    let mut pairing_baseline = String::new();
    let mut seed_code = None;
    let mut victim_id = None;
    let mut token_ttl = 0u64;
    if cfg.pairing {
        let path = dir.join("pairing.json");
        if !empty_store {
            // the only way to obtain an admin-role pairing token is a stored file (claim caps at engineer)
            let file = json!({"tokens":[{"id":"pair-file-admin","token":FILE_ADMIN_TOKEN,"created_at":T0,"enabled":true,"role":"admin","expires_at":T0 + 10 * 365 * 86400}]});
            std::fs::write(&path, file.to_string()).map_err(|e| format!("write pairing file: {e}"))?;
        }
        let c = clock.clone();
        let s = Arc::new(PairingStore::with_clock(path, Arc::new(move || c.load(Ordering::SeqCst))));
        if !empty_store {
            if s.validate_with_role(FILE_ADMIN_TOKEN) == Some(AccessRole::Admin) {
                creds.insert("pair:admin".into(), FILE_ADMIN_TOKEN.into());
            }
            let (tok_e, id_e) = claim_at(&s, &clock, T0 + 1, AccessRole::Engineer)?;
            let e = s.list().into_iter().find(|e| e.id == id_e).ok_or("setup: expired-token entry missing")?;
            token_ttl = e.expires_at.saturating_sub(e.created_at);
            if token_ttl < 1000 {
                return Err(format!("pairing token TTL {token_ttl}s too small for the setup timeline"));
            }
            let t1 = T0 + 1 + token_ttl - 100;
            let (tv, _) = claim_at(&s, &clock, t1, AccessRole::Viewer)?;
            let (to, _) = claim_at(&s, &clock, t1 + 1, AccessRole::Operator)?;
            let (te, _) = claim_at(&s, &clock, t1 + 2, AccessRole::Engineer)?;
            let (tr, id_r) = claim_at(&s, &clock, t1 + 3, AccessRole::Engineer)?;
            if !s.revoke(&id_r) {
                return Err("setup: revoke failed".into());
            }
            let (_victim, id_v) = claim_at(&s, &clock, t1 + 4, AccessRole::Operator)?;
            victim_id = Some(id_v);
            clock.store(t1 + 10, Ordering::SeqCst);
            seed_code = Some(s.start_pairing().code);
            let t2 = T0 + 1 + token_ttl + 5;
            pairing_baseline = canon_list(&s, t2);
            clock.store(t2, Ordering::SeqCst); // the first token is now expired but still stored
            creds.insert("pair:viewer".into(), tv);
            creds.insert("pair:operator".into(), to);
            creds.insert("pair:engineer".into(), te);
            creds.insert("revoked".into(), tr);
            creds.insert("expired".into(), tok_e);
        }
        store = Some(s);
    } else {
        // no store: these strings are just unknown tokens
        creds.insert("pair:engineer".into(), "tok-engineer-but-no-store".into());
    }

    let mut events = std::collections::VecDeque::new();
    events.push_back(RuntimeEvent::CycleStart { cycle: 1, time: trust_runtime::value::Duration::from_millis(0) });
    events.push_back(RuntimeEvent::Fault { error: "seeded fault".into(), time: trust_runtime::value::Duration::from_millis(1) });

    let state = ControlState {
        debug: debug.clone(),
        resource,
        metadata: Arc::new(Mutex::new(harness.runtime().metadata_snapshot())),
        sources,
        io_snapshot: Arc::new(Mutex::new(None)),
        pending_restart: Arc::new(Mutex::new(None)),
        auth_token: Arc::new(Mutex::new(if cfg.token { Some(ADMIN_TOKEN.into()) } else { None })),
        control_requires_auth: false,
        control_mode: Arc::new(Mutex::new(if cfg.production { ControlMode::Production } else { ControlMode::Debug })),
        audit_tx: None,
        metrics: Arc::new(Mutex::new(RuntimeMetrics::default())),
        events: Arc::new(Mutex::new(events)),
        settings: Arc::new(Mutex::new(runtime_settings())),
        project_root: Some(root.clone()),
        resource_name: "RESOURCE".into(),
        io_health: Arc::new(Mutex::new(Vec::new())),
        debug_enabled: Arc::new(AtomicBool::new(cfg.debug)),
        debug_variables: Arc::new(Mutex::new(DebugVariableHandles::new())),
        hmi_live: Arc::new(Mutex::new(trust_runtime::hmi::HmiLiveState::default())),
        hmi_descriptor,
        historian: None,
        pairing: store.clone(),
    };
    // raise the HMI alarm the same way a read request would (so that `hmi.alarm.ack` has a target)
    let mut alarm_id = None;
    {
        let md = state.metadata.lock().unwrap();
        let desc = state.hmi_descriptor.lock().unwrap().clone();
        let schema = trust_runtime::hmi::build_schema("RESOURCE", &md, Some(&snapshot), true, Some(&desc.customization));
        let values = trust_runtime::hmi::build_values("RESOURCE", &md, Some(&snapshot), true, None);
        let mut live = state.hmi_live.lock().unwrap();
        trust_runtime::hmi::update_live_state(&mut live, &schema, &values);
        let view = trust_runtime::hmi::build_alarm_view(&live, 100);
        if let Some(a) = view.active.first() {
            alarm_id = Some(a.id.clone());
        }
    }
    let state = Arc::new(state);
    let sock = dir.join("s");
    let server = ControlServer::start(ControlEndpoint::Unix(sock.clone()), state.clone())
        .map_err(|e| format!("ControlServer::start: {e:?}"))?;
    SERVERS_STARTED.fetch_add(1, Ordering::Relaxed);
    Ok(Env {
        dir,
        root,
        harness,
        debug,
        state,
        sock,
        cmd_log,
        clock,
        store,
        creds,
        pairing_baseline,
        seed_code,
        victim_id,
        alarm_id,
        token_ttl,
        _server: server,
    })
}

fn fnv(bytes: &[u8]) -> u64 {
    let mut h: u64 = 0xcbf29ce484222325;
    for b in bytes {
        h ^= *b as u64;
        h = h.wrapping_mul(0x100000001b3);
    }
    h
}

/// Splits a pretty `{:#?}` rendering into one entry per leaf line, keyed by the path of field
/// names (unnamed elements are numbered). Only used to tell WHICH part of a structure changed.
fn debug_leaves(prefix: &str, pretty: &str, out: &mut BTreeMap<String, String>) {
    let mut stack: Vec<(String, usize)> = Vec::new();
    let mut root_counter = 0usize;
    for line in pretty.lines() {
        let t = line.trim();
        if t.is_empty() {
            continue;
        }
        let closes = t.trim_end_matches(',');
        if closes == "}" || closes == ")" || closes == "]" {
            stack.pop();
            continue;
        }
        let (name, rest) = match t.split_once(": ") {
            Some((n, r)) if !n.is_empty() && n.chars().all(|c| c.is_alphanumeric() || c == '_') => (Some(n.to_string()), r),
            _ => (None, t),
        };
        let name = match name {
            Some(n) => n,
            None => {
                let c = match stack.last_mut() {
                    Some(s) => &mut s.1,
                    None => &mut root_counter,
                };
                *c += 1;
                format!("#{}", *c)
            }
        };
        if rest.ends_with('{') || rest.ends_with('(') || rest.ends_with('[') {
            stack.push((name, 0));
        } else {
            let mut path: Vec<&str> = stack.iter().map(|s| s.0.as_str()).collect();
            path.push(name.as_str());
            out.insert(format!("{prefix}.{}", path.join(".")), rest.trim_end_matches(',').to_string());
        }
    }
}

fn walk_files(dir: &Path, rel: &str, out: &mut BTreeMap<String, String>) {
    let Ok(rd) = std::fs::read_dir(dir) else { return };
    for e in rd.flatten() {
        let p = e.path();
        let name = format!("{rel}/{}", e.file_name().to_string_lossy());
        if p.is_dir() {
            out.insert(format!("file:{name}/"), "dir".into());
            walk_files(&p, &name, out);
        } else {
            let data = std::fs::read(&p).unwrap_or_default();
            out.insert(format!("file:{name}"), format!("{}b/{:016x}", data.len(), fnv(&data)));
        }
    }
}

impl Env {
    /// Probe of everything a request could change. `after` = destructive variant (claims the seed
    /// code, lists the store); the baseline variant uses values recorded at setup instead.
    pub fn probe(&mut self, after: bool) -> BTreeMap<String, String> {
        let mut m = BTreeMap::new();
        let st = self.state.clone();
        m.insert("debug.mode".into(), format!("{:?}", self.debug.mode()));
        m.insert("debug.target_thread".into(), format!("{:?}", self.debug.target_thread()));
        let bps: Vec<String> = self
            .debug
            .breakpoints()
            .iter()
            .map(|b| format!("{}:{}-{}", b.location.file_id, b.location.start, b.location.end))
            .collect();
        m.insert("debug.breakpoints".into(), bps.join(","));
        m.insert("debug.bp_generation".into(), format!("{:?}", self.debug.breakpoint_generation(FILE_ID)));
        m.insert("debug.io_writes".into(), format!("{:?}", self.debug.drain_io_writes()));
        m.insert("settings".into(), format!("{:?}", *st.settings.lock().unwrap()));
        // the same, one entry per leaf (so that "WHICH setting changed" is observable)
        debug_leaves("settings", &format!("{:#?}", *st.settings.lock().unwrap()), &mut m);
        m.insert("control_mode".into(), format!("{:?}", *st.control_mode.lock().unwrap()));
        m.insert("debug_enabled".into(), st.debug_enabled.load(Ordering::Relaxed).to_string());
        m.insert("auth_token".into(), format!("{:?}", *st.auth_token.lock().unwrap()));
        m.insert("pending_restart".into(), format!("{:?}", *st.pending_restart.lock().unwrap()));
        m.insert("resource".into(), format!("{:?}", st.resource));
        {
            // the watcher thread logs asynchronously: a query that it answers in order is the barrier
            let (tx, rx) = std::sync::mpsc::channel();
            let _ = st.resource.send_command(ResourceCommand::MeshSnapshot { names: Vec::new(), respond_to: tx });
            if rx.recv_timeout(Duration::from_secs(30)).is_err() {
                m.insert("resource.watcher".into(), "no answer from the command watcher".into());
            }
        }
        m.insert("resource.commands".into(), self.cmd_log.lock().unwrap().join(";"));
        m.insert("events.len".into(), st.events.lock().unwrap().len().to_string());
        {
            let d = st.hmi_descriptor.lock().unwrap();
            m.insert("hmi.schema_revision".into(), d.schema_revision.to_string());
            m.insert("hmi.last_error".into(), format!("{:?}", d.last_error));
            m.insert("hmi.customization".into(), format!("{:016x}", fnv(format!("{:?}", d.customization).as_bytes())));
        }
        {
            let live = st.hmi_live.lock().unwrap();
            let view = trust_runtime::hmi::build_alarm_view(&live, 100);
            let acked: Vec<String> = view.active.iter().map(|a| format!("{}={}", a.id, a.acknowledged)).collect();
            let ack_events = view.history.iter().filter(|h| h.event.contains("ack")).count();
            m.insert("hmi.alarms".into(), format!("{};ack_events={}", acked.join(","), ack_events));
        }
        walk_files(&self.root.clone(), "", &mut m);
        // one more real cycle: queued writes / forces / releases become variable values
        if after {
            // a request may have paused the debugger or set a breakpoint: never let the cycle block
            self.debug.clear_breakpoints();
            self.debug.continue_run();
        }
        let r = self.harness.cycle();
        m.insert("runtime.cycle_errors".into(), format!("{:?}", r.errors));
        for (k, v) in crate::dump::dump_runtime(self.harness.runtime()) {
            m.insert(format!("var:{k}"), v);
        }
        for a in ["%QX0.0", "%QX0.1", "%QX0.2"] {
            m.insert(format!("io:{a}"), format!("{:?}", self.harness.get_direct_output(a)));
        }
        if let Some(store) = self.store.clone() {
            if after {
                let now = self.clock.load(Ordering::SeqCst);
                m.insert("pairing.list".into(), canon_list(&store, now));
                if let Some(code) = &self.seed_code {
                    m.insert("pairing.pending".into(), store.claim(code, None).is_some().to_string());
                }
            } else {
                m.insert("pairing.list".into(), self.pairing_baseline.clone());
                if self.seed_code.is_some() {
                    m.insert("pairing.pending".into(), "true".into());
                }
            }
        }
        m
    }

    fn subst(&self, v: &Value) -> Value {
        match v {
            Value::String(s) => match s.as_str() {
                "$ALARM_ID" => json!(self.alarm_id.clone().unwrap_or_else(|| "no-alarm".into())),
                "$PAIR_CODE" => json!(self.seed_code.clone().unwrap_or_else(|| "000000".into())),
                "$VICTIM_ID" => json!(self.victim_id.clone().unwrap_or_else(|| "pair-0".into())),
                _ => v.clone(),
            },
            Value::Array(a) => Value::Array(a.iter().map(|x| self.subst(x)).collect()),
            Value::Object(o) => Value::Object(o.iter().map(|(k, x)| (k.clone(), self.subst(x))).collect()),
            _ => v.clone(),
        }
    }
}

#[derive(Clone, Debug, Default)]
pub struct Reply {
    /// raw reply line (None = connection closed / timeout without a reply)
    pub raw: Option<String>,
    pub ok: Option<bool>,
    pub has_result: bool,
    pub error: Option<String>,
    pub io_error: Option<String>,
}

fn parse_reply(line: &str) -> Reply {
    let mut r = Reply { raw: Some(line.to_string()), ..Default::default() };
    if let Ok(Value::Object(o)) = serde_json::from_str::<Value>(line) {
        r.ok = o.get("ok").and_then(Value::as_bool);
        r.has_result = o.get("result").map(|v| !v.is_null()).unwrap_or(false);
        r.error = o.get("error").and_then(Value::as_str).map(str::to_string);
    }
    r
}

fn read_reply(reader: &mut BufReader<UnixStream>) -> Reply {
    let mut line = String::new();
    match reader.read_line(&mut line) {
        Ok(0) => Reply { io_error: Some("connection closed by the server without a reply".into()), ..Default::default() },
        Ok(_) => parse_reply(line.trim_end_matches(['\n', '\r'])),
        Err(e) => Reply { io_error: Some(format!("no reply: {e}")), ..Default::default() },
    }
}

fn connect(sock: &Path) -> Result<(UnixStream, BufReader<UnixStream>), String> {
    let s = UnixStream::connect(sock).map_err(|e| format!("connect: {e}"))?;
    let _ = s.set_read_timeout(Some(Duration::from_secs(20)));
    let _ = s.set_write_timeout(Some(Duration::from_secs(20)));
    let r = BufReader::new(s.try_clone().map_err(|e| format!("clone: {e}"))?);
    Ok((s, r))
}

/// One request on a new connection.
fn send_once(sock: &Path, line: &[u8]) -> Reply {
    let (mut s, mut r) = match connect(sock) {
        Ok(x) => x,
        Err(e) => return Reply { io_error: Some(e), ..Default::default() },
    };
    if let Err(e) = s.write_all(line).and_then(|_| s.write_all(b"\n")).and_then(|_| s.flush()) {
        return Reply { io_error: Some(format!("write: {e}")), ..Default::default() };
    }
    read_reply(&mut r)
}

fn request_line(ty: &str, params: Option<&Value>, auth: Option<&str>) -> String {
    let mut o = Map::new();
    o.insert("id".into(), json!(7));
    o.insert("type".into(), json!(ty));
    if let Some(p) = params {
        o.insert("params".into(), p.clone());
    }
    if let Some(a) = auth {
        o.insert("auth".into(), json!(a));
    }
    Value::Object(o).to_string()
}

fn diff_keys(a: &BTreeMap<String, String>, b: &BTreeMap<String, String>) -> Vec<String> {
    let mut out = BTreeSet::new();
    for (k, v) in a {
        if b.get(k) != Some(v) {
            out.insert(k.clone());
        }
    }
    for k in b.keys() {
        if !a.contains_key(k) {
            out.insert(k.clone());
        }
    }
    out.into_iter().collect()
}

// =================================================================================================
// Part C — X1: request type x params x credential x configuration
// =================================================================================================

/// Minimal valid params (the request has an effect / returns data with them on the fresh state).
/// `$…` placeholders are replaced by values of the fresh endpoint.
fn minimal_params(ty: &str) -> Vec<(&'static str, Value)> {
    let d = |v: Value| vec![("min", v)];
    match ty {
        "restart" => vec![("min", json!({"mode":"warm"})), ("cold", json!({"mode":"COLD"}))],
        "io.write" => d(json!({"address":"%QX0.0","value":"TRUE"})),
        "io.force" => d(json!({"address":"%QX0.2","value":"TRUE"})),
        "io.unforce" => d(json!({"address":"%QX0.1"})),
        "set" => vec![("min", json!({"target":"global:g_set","value":"7"})), ("retain", json!({"target":"retain:r_new","value":"1"}))],
        "var.force" => d(json!({"target":"global:g_force","value":"9"})),
        "var.unforce" => d(json!({"target":"global:g_forced"})),
        "eval" => d(json!({"expr":"g_set"})),
        "debug.evaluate" => d(json!({"expression":"g_set + 1"})),
        "debug.scopes" => d(json!({"frame_id":0})),
        "debug.variables" => d(json!({"variables_reference":1})),
        "debug.breakpoint_locations" => d(json!({"source":SOURCE_PATH,"line":1,"end_line":50})),
        "breakpoints.set" => d(json!({"source":SOURCE_PATH,"lines":[11]})),
        "breakpoints.clear" => d(json!({"source":SOURCE_PATH,"lines":[]})),
        "breakpoints.clear_id" => d(json!({"file_id":FILE_ID})),
        "hmi.write" => d(json!({"id":"Main.run","value":false})),
        "hmi.alarm.ack" => d(json!({"id":"$ALARM_ID"})),
        "hmi.values.get" => d(json!({"ids":["resource/RESOURCE/program/Main/field/speed"]})),
        "hmi.trends.get" => d(json!({"duration_ms":60000,"buckets":24})),
        "hmi.alarms.get" => d(json!({"limit":10})),
        "hmi.scaffold.reset" => d(json!({"mode":"reset","style":"industrial"})),
        "hmi.descriptor.update" => d(json!({"descriptor":{
            "config":{"theme":{"style":"industrial","accent":"#22d3ee"},"layout":{},"write":{},"alarm":[]},
            "pages":[{"id":"overview","title":"Overview","icon":"activity","order":0,"kind":"dashboard","duration_ms":null,"svg":null,"signals":[],
                "sections":[{"title":"Drive","span":12,"widgets":[{"widget_type":"gauge","bind":"Main.speed","label":"Speed Updated","unit":"rpm","min":0,"max":100,"span":6,"on_color":null,"off_color":null,"zones":[]}]}],
                "bindings":[]}]}})),
        "events" | "events.tail" | "faults" => d(json!({"limit":5})),
        "historian.query" | "historian.alerts" => d(json!({"limit":5})),
        "bytecode.reload" => d(json!({"bytes":"AAAA"})),
        "pair.claim" => vec![("min", json!({"code":"$PAIR_CODE","role":"engineer"})), ("norole", json!({"code":"$PAIR_CODE"}))],
        "pair.revoke" => vec![("min", json!({"id":"$VICTIM_ID"})), ("all", json!({"id":"all"}))],
        "config.set" => vec![
            ("min", json!({"log.level":"debug"})),
            ("auth_token", json!({"control.auth_token":"new-admin-token"})),
            ("auth_null", json!({"control.auth_token":null})),
            ("debug_on", json!({"control.debug_enabled":true})),
            ("debug_off", json!({"control.debug_enabled":false})),
            ("mode", json!({"control.mode":"debug"})),
            ("mesh_token", json!({"mesh.auth_token":"mesh-secret"})),
            ("web_auth", json!({"web.auth":"local"})),
            ("watchdog", json!({"watchdog.enabled":true,"watchdog.timeout_ms":50})),
            ("mixed", json!({"log.level":"trace","control.auth_token":"sneaky"})),
        ],
        _ => Vec::new(),
    }
}

/// Request types for which the fresh endpoint MUST show an effect when an admin sends the
/// minimal params (non-vacuity of the probes). (type, needs pairing store, needs production mode)
const EXPECT_EFFECT: &[(&str, bool, bool)] = &[
    ("pause", false, false), ("resume", false, true), ("step_in", false, false), ("step_over", false, false),
    ("step_out", false, false), ("breakpoints.set", false, false), ("breakpoints.clear", false, false),
    ("breakpoints.clear_all", false, false), ("breakpoints.clear_id", false, false), ("set", false, false),
    ("var.force", false, false), ("var.unforce", false, false), ("io.write", false, false), ("io.force", false, false),
    ("io.unforce", false, false), ("hmi.write", false, false), ("hmi.alarm.ack", false, false),
    ("hmi.descriptor.update", false, false), ("hmi.scaffold.reset", false, false), ("config.set", false, false),
    ("restart", false, false), ("shutdown", false, false), ("bytecode.reload", false, false),
    ("pair.start", true, false), ("pair.claim", true, false), ("pair.revoke", true, false),
];

fn wrong_type_of(v: &Value) -> Value {
    match v {
        Value::String(_) => json!(5),
        Value::Number(_) => json!("5"),
        Value::Bool(_) => json!("yes"),
        Value::Array(_) => json!({"0": 1}),
        Value::Object(_) => json!([1]),
        Value::Null => json!(0),
    }
}

/// (variant name, params) — `None` = no `params` member at all.
fn params_menu(ty_base: &str, thorough: bool, table: &Table) -> Vec<(String, Option<Value>)> {
    let mut out: Vec<(String, Option<Value>)> = vec![("absent".into(), None), ("empty".into(), Some(json!({})))];
    let mins = minimal_params(ty_base);
    for (n, v) in &mins {
        out.push((n.to_string(), Some(v.clone())));
    }
    // wrong JSON types
    if let Some((_, Value::Object(o))) = mins.first() {
        let all_wrong: Map<String, Value> = o.iter().map(|(k, v)| (k.clone(), wrong_type_of(v))).collect();
        out.push(("wrongtypes".into(), Some(Value::Object(all_wrong))));
        if thorough {
            for k in o.keys() {
                let mut del = o.clone();
                del.remove(k);
                out.push((format!("del:{k}"), Some(Value::Object(del))));
                let mut flip = o.clone();
                flip.insert(k.clone(), wrong_type_of(&o[k]));
                out.push((format!("flip:{k}"), Some(Value::Object(flip))));
                let mut nul = o.clone();
                nul.insert(k.clone(), Value::Null);
                out.push((format!("null:{k}"), Some(Value::Object(nul))));
            }
        }
    }
    out.push(("array".into(), Some(json!([1, "x"]))));
    out.push(("string".into(), Some(json!("params"))));
    if thorough {
        out.push(("number".into(), Some(json!(7))));
        out.push(("null".into(), Some(Value::Null)));
        out.push(("bool".into(), Some(json!(true))));
        if ty_base == "config.set" {
            for k in &table.config_keys {
                for (vn, v) in [("t", json!(true)), ("n", json!(5)), ("s", json!("x")), ("a", json!(["x"])), ("o", json!({"a":"b"})), ("z", Value::Null)] {
                    let mut o = Map::new();
                    o.insert(k.clone(), v);
                    out.push((format!("key:{k}:{vn}"), Some(Value::Object(o))));
                }
            }
        }
    }
    out
}

/// Unknown / garbled names derived from a known one.
fn garbled(name: &str) -> Vec<String> {
    let mut v = vec![
        name.to_ascii_uppercase(),
        {
            let mut c = name.chars();
            match c.next() {
                Some(f) => f.to_ascii_uppercase().to_string() + c.as_str(),
                None => String::new(),
            }
        },
        name[..name.len().saturating_sub(1)].to_string(),
        format!("{name}x"),
        format!("{name} "),
        format!(" {name}"),
        format!("{name}\u{0}"),
        format!("{name}\t"),
        name.replace('.', "_"),
        name.replace('.', ".."),
    ];
    v.sort();
    v.dedup();
    v.retain(|g| g != name);
    v
}

/// More re-spellings of a known request name (the permission table and the dispatcher match the
/// `type` string independently): invisible characters, Unicode blanks, case-fold look-alikes.
/// Sent in fewer configurations than `garbled` (the name handling does not depend on them).
fn garbled_extended(name: &str) -> Vec<String> {
    let mut v = vec![
        format!("\u{feff}{name}"),
        format!("{name}\u{200b}"),
        format!("{name}\u{a0}"),
        format!("\u{3000}{name}"),
        name.replacen('.', "\u{ff0e}", 1),
    ];
    for (from, to) in [('k', "\u{212a}"), ('i', "\u{131}"), ('i', "\u{130}"), ('s', "\u{17f}")] {
        if let Some(x) = replace_first(name, from, to) {
            v.push(x);
        }
    }
    if let Some(f) = name.chars().next().filter(|c| c.is_ascii_lowercase()) {
        let fw = char::from_u32(0xff41 + (f as u32 - 'a' as u32)).unwrap_or(f);
        v.push(format!("{fw}{}", &name[1..]));
    }
    v.sort();
    v.dedup();
    v.retain(|g| g != name);
    v
}

const CRED_ORDER: [&str; 9] = ["none", "wrong", "admin", "pair:viewer", "pair:operator", "pair:engineer", "pair:admin", "revoked", "expired"];

/// Role a credential maps to: Some(Some(r)) = role r; Some(None) = no valid credential (must be
/// refused); None = the statement does not constrain it (no auth token configured: local trust).
fn cred_role(cred: &str, cfg: Cfg) -> Option<Option<u8>> {
    let pair = cred.strip_prefix("pair:").and_then(role_index);
    if let Some(r) = pair {
        if cfg.pairing {
            return Some(Some(r));
        }
        return if cfg.token { Some(None) } else { None };
    }
    if cfg.token {
        if cred == "admin" {
            Some(Some(3))
        } else {
            Some(None)
        }
    } else {
        None
    }
}

#[derive(Clone, Debug)]
pub struct Obs {
    pub cred: String,
    pub reply: Reply,
    pub effects: Vec<String>,
    pub panic: Option<String>,
}

impl Obs {
    fn performed(&self) -> bool {
        self.reply.ok == Some(true) || !self.effects.is_empty()
    }
    fn to_json(&self) -> Value {
        json!({"cred": self.cred, "ok": self.reply.ok, "error": self.reply.error.clone().or(self.reply.io_error.clone()),
               "has_result": self.reply.has_result, "effects": self.effects})
    }
}

fn clip(s: &str, n: usize) -> String {
    let mut o: String = s.chars().take(n).collect();
    if s.chars().count() > n {
        o.push('…');
    }
    o
}

fn type_label(ty: &str) -> String {
    // printable, stable rendering of a (possibly garbled) request name for signatures
    ty.chars()
        .map(|c| match c {
            ' ' => "␠".to_string(),
            '\t' => "\\t".to_string(),
            '\0' => "\\0".to_string(),
            c if c.is_control() => format!("\\x{:02x}", c as u32),
            c if !c.is_ascii() => format!("\\u{{{:04x}}}", c as u32), // invisible / look-alike characters stay readable
            c => c.to_string(),
        })
        .collect()
}

/// Executes one request with one credential on a fresh endpoint.
fn exec_one(cfg: Cfg, base: &Path, ty: &str, params: Option<&Value>, cred: &str) -> Result<Option<Obs>, String> {
    let mut env = build_env(cfg, base, false)?;
    let auth: Option<String> = if cred == "none" {
        None
    } else {
        match env.creds.get(cred) {
            Some(t) => Some(t.clone()),
            None => return Ok(None), // credential not constructible in this configuration
        }
    };
    let before = env.probe(false);
    let p = params.map(|p| env.subst(p));
    let line = request_line(ty, p.as_ref(), auth.as_deref());
    let _ = take_panic();
    let reply = send_once(&env.sock, line.as_bytes());
    let panic = take_panic();
    let after = env.probe(true);
    Ok(Some(Obs { cred: cred.to_string(), reply, effects: diff_keys(&before, &after), panic }))
}

fn required_from_case(case: &Value) -> (u8, bool) {
    // (role, dynamic)
    let r = &case["required"];
    if let Some(x) = r["lit"].as_u64() {
        (x as u8, false)
    } else {
        (r["dyn"].as_u64().unwrap_or(0) as u8, true)
    }
}

/// All oracle clauses on one group (same configuration, type, params; every credential).
fn judge_group(case: &Value, cfg: Cfg, obs: &[Obs]) -> Vec<(String, String)> {
    let ty = case["type"].as_str().unwrap_or("");
    let tl = type_label(ty);
    let debug_class = case["debug_class"].as_bool().unwrap_or(false);
    let (mut required, dynamic) = required_from_case(case);
    if dynamic {
        // the table entry is a function of the params: take the role the endpoint itself announces
        for o in obs {
            if let Some(e) = &o.reply.error {
                if let Some(r) = e.strip_prefix("forbidden: requires role ").and_then(|r| role_index(r.trim())) {
                    required = required.max(r);
                }
            }
        }
    }
    let ctx = format!("[{}; params {}]", cfg.label(), clip(&case["params"].to_string(), 120));
    let mut v: Vec<(String, String)> = Vec::new();
    for o in obs {
        let shown = format!("reply {}", clip(o.reply.raw.as_deref().unwrap_or("<none>"), 160));
        // every line gets a reply, no panic
        if o.reply.ok.is_none() {
            let why = o.panic.clone().or(o.reply.io_error.clone()).unwrap_or_else(|| "reply is not a JSON object with a boolean `ok`".into());
            v.push((format!("C18/no-reply/{tl}"), format!("request `{tl}` with credential {} got no well-formed reply ({why}) {ctx}", o.cred)));
        } else if o.reply.ok == Some(false) && o.reply.error.is_none() {
            v.push((format!("C18/no-error-text/{tl}"), format!("request `{tl}`: negative reply without `error` text; {shown} {ctx}")));
        }
        if let Some(p) = &o.panic {
            v.push((format!("C18/panic/{tl}"), format!("request `{tl}` with credential {} made an endpoint thread panic: {} {ctx}", o.cred, clip(p, 160))));
        }
        let role = cred_role(&o.cred, cfg);
        match role {
            Some(None) => {
                if !o.effects.is_empty() {
                    v.push((format!("C18/unauth-effect/{}/{tl}", o.cred), format!("auth token configured, credential `{}` is not valid, yet request `{tl}` changed {:?}; {shown} {ctx}", o.cred, o.effects)));
                }
                if o.reply.ok == Some(true) || o.reply.has_result {
                    v.push((format!("C18/unauth-data/{}/{tl}", o.cred), format!("auth token configured, credential `{}` is not valid, yet request `{tl}` was answered with data; {shown} {ctx}", o.cred)));
                }
            }
            Some(Some(r)) => {
                if o.performed() && r < required {
                    v.push((format!("C18/role-table/{}/{tl}", role_name(r)), format!("request `{tl}` requires role {} by the permission table but was performed for a {} credential ({}): effects {:?}; {shown} {ctx}", role_name(required), role_name(r), o.cred, o.effects)));
                }
                if r == 0 && !o.effects.is_empty() {
                    v.push((format!("C18/viewer-effect/{tl}"), format!("a viewer credential changed {:?} with request `{tl}`; {shown} {ctx}", o.effects)));
                }
            }
            None => {}
        }
        if !cfg.debug && debug_class && o.performed() {
            v.push((format!("C18/debug-gate/{tl}"), format!("debug is disabled but debug-class request `{tl}` was performed for credential {}: effects {:?}; {shown} {ctx}", o.cred, o.effects)));
        }
        if !o.effects.is_empty() && required == 0 {
            v.push((format!("C18/mutating-at-viewer-level/{tl}"), format!("request `{tl}` changes {:?} (credential {}) but the permission table requires only viewer for it; {shown} {ctx}", o.effects, o.cred)));
        }
    }
    // monotone in the role order
    let ranked: Vec<(u8, &Obs)> = obs.iter().filter_map(|o| cred_role(&o.cred, cfg).flatten().map(|r| (r, o))).collect();
    for (r1, o1) in &ranked {
        for (r2, o2) in &ranked {
            if r1 < r2 && o1.performed() && !o2.performed() {
                v.push((format!("C18/monotone/{tl}"), format!("request `{tl}` is performed for {} ({}) but refused for the higher role {} ({}): {:?} vs {:?} {ctx}", role_name(*r1), o1.cred, role_name(*r2), o2.cred, o1.reply.error, o2.reply.error)));
            }
        }
    }
    v
}

fn scratch_base(case: &Value) -> PathBuf {
    match case["dir"].as_str() {
        Some(d) if Path::new(d).is_dir() => PathBuf::from(d),
        _ => {
            let shm = Path::new("/dev/shm");
            let base = if shm.is_dir() { shm.to_path_buf() } else { std::env::temp_dir() };
            let d = base.join(format!("tv-c18-replay-{}", std::process::id()));
            let _ = std::fs::create_dir_all(&d);
            d
        }
    }
}

/// X1 group: returns (violations, observations) or a machinery error.
fn run_group(case: &Value) -> Result<(Vec<(String, String)>, Vec<Obs>), String> {
    let cfg = Cfg::from_json(&case["cfg"]);
    let base = scratch_base(case);
    let ty = case["type"].as_str().ok_or("case without type")?;
    let params = case.get("params").filter(|p| !(p.is_object() && p.get("$absent").is_some()));
    let creds: Vec<String> = case["creds"]
        .as_array()
        .map(|a| a.iter().filter_map(|c| c.as_str().map(str::to_string)).collect())
        .unwrap_or_else(|| CRED_ORDER.iter().map(|s| s.to_string()).collect());
    let mut obs = Vec::new();
    for c in &creds {
        if let Some(o) = exec_one(cfg, &base, ty, params, c)? {
            obs.push(o);
        }
    }
    Ok((judge_group(case, cfg, &obs), obs))
}

// =================================================================================================
// Part C2 — credential strings: every configured secret x string mutation x four role levels
// =================================================================================================
//
// X1 uses ONE wrong credential ("not-the-token") that differs from every secret in its first
// byte. This family enumerates the strings that COLLIDE with a configured secret: the secret
// itself, "", proper prefixes / suffixes, proper extensions, same-length strings that differ in
// one byte, case-changed copies — for the admin auth token, every pairing token (viewer,
// operator, engineer, admin-from-file), the revoked and the expired pairing token and an admin
// token that was rotated out by `config.set control.auth_token` — plus `auth` members that are
// not JSON strings. Oracle (statement: "requests without a valid token or pairing token change
// nothing and reveal no runtime data"): with an auth token configured only the EXACT string of a
// currently valid secret maps to a role; every other string gets no ok reply, no result, no effect.
// Left out on purpose (expected result not derivable from the statement): secrets padded with
// white space (a trimming endpoint is not obviously wrong), a JSON array/object that CONTAINS the
// valid secret, duplicate `auth` members, the secret in a differently named member, and every
// configuration without an auth token (local trust, unconstrained).

const ROTATED_TOKEN: &str = "rot-N3w-Adm1n-token";

const CRED_SECRETS: [&str; 7] = ["admin", "pair:viewer", "pair:operator", "pair:engineer", "pair:admin", "revoked", "expired"];

/// Requests sent with a credential that must be refused (one per role level + the take-over).
fn cred_probe_requests() -> Vec<(&'static str, Option<Value>)> {
    vec![
        ("status", None),
        ("restart", Some(json!({"mode":"warm"}))),
        ("io.write", Some(json!({"address":"%QX0.0","value":"TRUE"}))),
        ("pair.list", None),
        ("config.set", Some(json!({"control.auth_token":"taken-over-token"}))),
    ]
}

fn mutation_names(thorough: bool) -> Vec<String> {
    let mut v: Vec<String> = [
        "exact", "empty", "prefix:first", "prefix:half", "prefix:all-but-last", "suffix:all-but-first", "suffix:last4",
        "ext:+x", "ext:+nul", "ext:x+", "ext:doubled", "flip:first", "flip:half", "flip:last", "case:upper", "case:lower", "case:swap",
    ]
    .iter()
    .map(|s| s.to_string())
    .collect();
    if thorough {
        // every proper prefix length and every single-byte change (lengths beyond the secret are skipped)
        for k in 2..48 {
            v.push(format!("prefix:{k}"));
        }
        for k in 1..48 {
            v.push(format!("flip:{k}"));
        }
    }
    v
}

fn mutation_class(name: &str) -> &'static str {
    match name.split(':').next().unwrap_or("") {
        "exact" => "exact",
        "empty" => "empty",
        "prefix" => "proper-prefix",
        "suffix" => "proper-suffix",
        "ext" => "proper-extension",
        "flip" => "same-length-different",
        "case" => "case-changed",
        "json" => "non-string",
        _ => "other",
    }
}

/// The mutated string, or None when the mutation is not applicable to this secret (too short,
/// not ASCII, or the result equals the secret).
fn apply_mutation(secret: &str, name: &str) -> Option<String> {
    if name == "exact" {
        return Some(secret.to_string());
    }
    if !secret.is_ascii() || secret.len() < 6 {
        return None;
    }
    let n = secret.len();
    let b = secret.as_bytes();
    let pos = |arg: &str| -> Option<usize> {
        match arg {
            "first" => Some(0),
            "half" => Some(n / 2),
            "last" => Some(n - 1),
            k => k.parse::<usize>().ok().filter(|k| *k > 0 && *k < n - 1 && *k != n / 2),
        }
    };
    let (kind, arg) = name.split_once(':').unwrap_or((name, ""));
    let out: String = match (kind, arg) {
        ("empty", _) => String::new(),
        ("prefix", "first") => secret[..1].to_string(),
        ("prefix", "half") => secret[..n / 2].to_string(),
        ("prefix", "all-but-last") => secret[..n - 1].to_string(),
        ("prefix", k) => {
            let k = k.parse::<usize>().ok().filter(|k| *k > 1 && *k < n - 1 && *k != n / 2)?;
            secret[..k].to_string()
        }
        ("suffix", "all-but-first") => secret[1..].to_string(),
        ("suffix", "last4") => secret[n - 4..].to_string(),
        ("ext", "+x") => format!("{secret}x"),
        ("ext", "+nul") => format!("{secret}\u{0}"),
        ("ext", "x+") => format!("x{secret}"),
        ("ext", "doubled") => format!("{secret}{secret}"),
        ("flip", p) => {
            let p = pos(p)?;
            let mut v = b.to_vec();
            v[p] = if v[p] == b'Z' { b'Y' } else { b'Z' };
            String::from_utf8(v).ok()?
        }
        ("case", "upper") => secret.to_ascii_uppercase(),
        ("case", "lower") => secret.to_ascii_lowercase(),
        ("case", "swap") => secret.chars().map(|c| if c.is_ascii_uppercase() { c.to_ascii_lowercase() } else { c.to_ascii_uppercase() }).collect(),
        _ => return None,
    };
    if out == secret {
        return None;
    }
    Some(out)
}

fn secret_class(name: &str) -> &'static str {
    match name {
        "admin" => "admin-token",
        "admin-old" => "rotated-out-admin-token",
        "revoked" => "revoked-pairing-token",
        "expired" => "expired-pairing-token",
        n if n.starts_with("pair:") => "pairing-token",
        _ => "secret",
    }
}

/// One (configuration, pre-step, secret, mutation) case on ONE fresh endpoint.
fn run_cred(case: &Value) -> Result<Value, String> {
    let cfg = Cfg::from_json(&case["cfg"]);
    if !cfg.token {
        return Err("credential-string family needs a configured auth token".into());
    }
    let base = scratch_base(case);
    let mut env = build_env(cfg, &base, false)?;
    let mutation = case["mutation"].as_str().unwrap_or("exact").to_string();
    let mclass = mutation_class(&mutation);
    // secrets of this endpoint: name -> (string, role it maps to while valid)
    let mut secrets: BTreeMap<String, (String, Option<u8>)> = BTreeMap::new();
    for (name, tok) in &env.creds {
        let role = match name.as_str() {
            "admin" => Some(3),
            "wrong" => continue,
            n if n.starts_with("pair:") => {
                if !cfg.pairing {
                    continue; // no store: the string is not a secret at all
                }
                n.strip_prefix("pair:").and_then(role_index)
            }
            _ => None, // revoked, expired
        };
        secrets.insert(name.clone(), (tok.clone(), role));
    }
    if case["pre"].as_str() == Some("rotate") {
        // the admin replaces the auth token; from now on only the new string is the admin token
        let line = request_line("config.set", Some(&json!({"control.auth_token": ROTATED_TOKEN})), Some(ADMIN_TOKEN));
        let rep = send_once(&env.sock, line.as_bytes());
        if rep.ok != Some(true) {
            return Err(format!("pre-step: the admin could not rotate the auth token: {:?}", rep.raw));
        }
        secrets.insert("admin-old".into(), (ADMIN_TOKEN.into(), None));
        secrets.insert("admin".into(), (ROTATED_TOKEN.into(), Some(3)));
    }
    let valid_strings: BTreeSet<String> = secrets.values().filter(|(_, r)| r.is_some()).map(|(s, _)| s.clone()).collect();

    // the `auth` member that is sent
    let (auth_value, expected, sclass, descr): (Value, Option<u8>, &'static str, String) = if let Some(j) = case.get("auth_json") {
        if j.is_string() {
            return Err("auth_json must not be a string".into());
        }
        (j.clone(), None, "non-string-auth", format!("the JSON value {j}"))
    } else {
        let sname = case["secret"].as_str().unwrap_or("");
        let Some((secret, role)) = secrets.get(sname).cloned() else {
            return Ok(json!({"skipped": "secret not constructible in this configuration"}));
        };
        let Some(m) = apply_mutation(&secret, &mutation) else {
            return Ok(json!({"skipped": "mutation not applicable"}));
        };
        if mutation != "exact" && valid_strings.contains(&m) {
            return Ok(json!({"skipped": "mutated string equals a valid secret"}));
        }
        let expected = if mutation == "exact" { role } else { None };
        let descr = if mutation == "exact" {
            format!("the {} ({sname})", secret_class(sname))
        } else {
            if mutation == "empty" {
                "the empty string \"\"".to_string()
            } else {
                format!("{:?} = `{mutation}` of the {} ({sname}, {} bytes)", clip(&m, 24), secret_class(sname), secret.len())
            }
        };
        // "" is the same string for every secret
        (json!(m), expected, if mutation == "empty" { "any-secret" } else { secret_class(sname) }, descr)
    };
    let line_for = |ty: &str, params: Option<&Value>| -> String {
        let mut o = Map::new();
        o.insert("id".into(), json!(7));
        o.insert("type".into(), json!(ty));
        if let Some(p) = params {
            o.insert("params".into(), p.clone());
        }
        o.insert("auth".into(), auth_value.clone());
        Value::Object(o).to_string()
    };
    let mut viol: Vec<(String, String)> = Vec::new();
    let mut accepted_n = 0u64;
    let mut refused_n = 0u64;
    let mut status_ok = false;
    match expected {
        None => {
            let before = env.probe(false);
            let mut accepted: Vec<String> = Vec::new();
            for (ty, params) in cred_probe_requests() {
                let _ = take_panic();
                let rep = send_once(&env.sock, line_for(ty, params.as_ref()).as_bytes());
                if let Some(p) = take_panic() {
                    viol.push((format!("C18/cred/panic/{sclass}/{mclass}"), format!("`{ty}` with auth = {descr} made an endpoint thread panic: {}", clip(&p, 160))));
                }
                if rep.ok.is_none() {
                    viol.push((format!("C18/cred/no-reply/{sclass}/{mclass}"), format!("`{ty}` with auth = {descr} got no well-formed reply ({:?})", rep.io_error)));
                } else if rep.ok == Some(true) || rep.has_result {
                    accepted.push(format!("`{ty}` -> {}", clip(rep.raw.as_deref().unwrap_or(""), 100)));
                    accepted_n += 1;
                } else {
                    refused_n += 1;
                }
            }
            let after = env.probe(true);
            let effects = diff_keys(&before, &after);
            if !accepted.is_empty() || !effects.is_empty() {
                viol.push((
                    format!("C18/cred/accepted/{sclass}/{mclass}"),
                    format!(
                        "auth token configured [{}{}]; auth = {descr} is not a valid credential, yet {} of {} requests were answered ok/with data ({}) and the state changed in {:?}",
                        cfg.label(),
                        if case["pre"].as_str() == Some("rotate") { "; after the admin rotated the auth token" } else { "" },
                        accepted.len(),
                        cred_probe_requests().len(),
                        clip(&accepted.join("; "), 400),
                        effects
                    ),
                ));
            }
        }
        Some(r) => {
            for ty in LEVEL_PROBES {
                let params = match ty {
                    "restart" => Some(json!({"mode":"warm"})),
                    "io.write" => Some(json!({"address":"%QX0.0","value":"TRUE"})),
                    _ => None,
                };
                let rep = send_once(&env.sock, line_for(ty, params.as_ref()).as_bytes());
                let effect = match ty {
                    "restart" => env.state.pending_restart.lock().map(|mut g| g.take().is_some()).unwrap_or(false),
                    "io.write" => !env.debug.drain_io_writes().is_empty(),
                    _ => false,
                };
                let acc = rep.ok == Some(true) || rep.has_result || effect;
                if acc {
                    accepted_n += 1;
                    if ty == "status" {
                        status_ok = true;
                    }
                } else {
                    refused_n += 1;
                }
                if rep.ok.is_none() {
                    viol.push((format!("C18/cred/no-reply/{sclass}/{mclass}"), format!("`{ty}` with auth = {descr} got no well-formed reply ({:?})", rep.io_error)));
                } else if acc && r < req_of(case, ty) {
                    viol.push((
                        format!("C18/cred/role-exceeded/{sclass}/{}/{ty}", role_name(r)),
                        format!("auth = {descr} maps to role {} but `{ty}` (requires {}) was performed; reply {}", role_name(r), role_name(req_of(case, ty)), clip(rep.raw.as_deref().unwrap_or(""), 120)),
                    ));
                }
            }
        }
    }
    Ok(json!({
        "violations": viol.iter().map(|(s, w)| json!([s, w])).collect::<Vec<_>>(),
        "expected_role": expected, "class": format!("{sclass}/{mclass}"),
        "accepted": accepted_n, "refused": refused_n, "status_ok": status_ok,
    }))
}

// =================================================================================================
// Part C3 — role gate vs handler: re-spelled role-deciding strings (content-dependent roles)
// =================================================================================================
//
// For a request type whose required role depends on the request's CONTENT, the role gate and the
// handler read the same params independently; every input the two read differently is a
// privilege hole. The content-dependent arms of the permission table and the strings their helper
// compares (the role-deciding strings) are taken from the CURRENT source by the scanner
// (`Table::dynamic`; today: `config.set`, whose helper compares the params KEYS with the
// admin-only keys). Every role-deciding key is sent canonically and in re-spelled forms (other
// letter case, blanks/tabs/newlines incl. Unicode blanks, NUL / BOM / zero-width characters,
// Unicode case-fold look-alikes (Kelvin sign, dotless i, long s, full-width forms), other
// separators, nested objects instead of dotted keys, wrapper members, array-shaped params,
// duplicate members) by a viewer, operator, engineer and admin credential, each on a fresh
// endpoint with full state probes.
//
// Oracle — judged on the EFFECT, never on the spelling: calibration (the admin token sends the
// canonical key) measures which probe fields the admin-only setting K changes; if a request
// changes one of those fields, the credential must have the role the permission table demands
// for K, however the key was spelled. An error reply, or an ok reply that does not touch such a
// field, is fine. Any effect at all needs at least the lowest role of the helper.
// Not enumerated (role does not depend on them in the current table): io.write/io.force
// addresses, set/var.force targets, pair.revoke ids, bytecode.reload parameters; the hmi.write
// allow list is not a role decision.

/// Values that change the fresh endpoint, per admin-only key (first one that shows an effect in
/// the calibration is used; unknown keys get the generic candidates).
fn gate_values(key: &str) -> Vec<Value> {
    match key {
        "control.mode" => vec![json!("production")],
        "web.auth" => vec![json!("token")],
        "mesh.auth_token" => vec![json!("mesh-secret-chosen-by-sender")],
        "control.auth_token" => vec![json!("new-admin-token")],
        _ => vec![json!("x"), json!(true), json!(5), json!(["x"])],
    }
}

fn jstr(s: &str) -> String {
    serde_json::to_string(s).unwrap_or_else(|_| "\"\"".into())
}

fn replace_first(s: &str, from: char, to: &str) -> Option<String> {
    let i = s.find(from)?;
    let mut o = String::with_capacity(s.len() + to.len());
    o.push_str(&s[..i]);
    o.push_str(to);
    o.push_str(&s[i + from.len_utf8()..]);
    Some(o)
}

/// Re-spelled keys: (spelling name, class, key).
fn respelled_keys(key: &str, thorough: bool) -> Vec<(String, &'static str, String)> {
    let mut v: Vec<(String, &'static str, String)> = Vec::new();
    let mut add = |n: &str, c: &'static str, k: String| v.push((n.to_string(), c, k));
    let cap: String = key
        .split('.')
        .map(|seg| {
            let mut c = seg.chars();
            match c.next() {
                Some(f) => f.to_ascii_uppercase().to_string() + c.as_str(),
                None => String::new(),
            }
        })
        .collect::<Vec<_>>()
        .join(".");
    let mut last_up: Vec<char> = key.chars().collect();
    if let Some(l) = last_up.last_mut() {
        *l = l.to_ascii_uppercase();
    }
    add("case:upper", "case", key.to_ascii_uppercase());
    add("case:capitalised", "case", cap.clone());
    add("case:last-letter", "case", last_up.into_iter().collect());
    add("blank:space+", "blank", format!(" {key}"));
    add("blank:+space", "blank", format!("{key} "));
    add("blank:tab+", "blank", format!("\t{key}"));
    add("blank:+tab", "blank", format!("{key}\t"));
    add("blank:+newline", "blank", format!("{key}\n"));
    add("blank:+crlf", "blank", format!("{key}\r\n"));
    add("blank:+nbsp", "blank", format!("{key}\u{a0}"));
    add("blank:ideographic-space+", "blank", format!("\u{3000}{key}"));
    add("invisible:+nul", "invisible", format!("{key}\u{0}"));
    add("invisible:nul+", "invisible", format!("\u{0}{key}"));
    add("invisible:bom+", "invisible", format!("\u{feff}{key}"));
    add("invisible:+zero-width-space", "invisible", format!("{key}\u{200b}"));
    add("invisible:zero-width-joiner-inside", "invisible", key.replacen('.', "\u{200d}.", 1));
    add("invisible:soft-hyphen-inside", "invisible", {
        let mut c: Vec<char> = key.chars().collect();
        c.insert(1.min(c.len()), '\u{ad}');
        c.into_iter().collect()
    });
    // Unicode characters that simple/full case mapping or compatibility folding turns into ASCII
    if let Some(k) = replace_first(key, 'k', "\u{212a}") {
        add("fold:kelvin-sign", "unicode-fold", k);
    }
    if let Some(k) = replace_first(key, 'i', "\u{131}") {
        add("fold:dotless-i", "unicode-fold", k);
    }
    if let Some(k) = replace_first(key, 'i', "\u{130}") {
        add("fold:capital-i-with-dot", "unicode-fold", k);
    }
    if let Some(k) = replace_first(key, 's', "\u{17f}") {
        add("fold:long-s", "unicode-fold", k);
    }
    if let Some(f) = key.chars().next().filter(|c| c.is_ascii_lowercase()) {
        let fw = char::from_u32(0xff41 + (f as u32 - 'a' as u32)).unwrap_or(f);
        add("fold:fullwidth-first-letter", "unicode-fold", format!("{fw}{}", &key[1..]));
    }
    add("fold:fullwidth-dot", "unicode-fold", key.replacen('.', "\u{ff0e}", 1));
    for (n, sep) in [("underscore", "_"), ("slash", "/"), ("colon", ":"), ("double-dot", ".."), ("dash", "-"), ("space", " ")] {
        add(&format!("separator:{n}"), "separator", key.replacen('.', sep, 1));
    }
    add("separator:leading-dot", "separator", format!(".{key}"));
    add("separator:trailing-dot", "separator", format!("{key}."));
    if thorough {
        add("mixed:space+upper", "mixed", format!(" {}", key.to_ascii_uppercase()));
        add("mixed:capitalised+space", "mixed", format!("{cap} "));
        add("mixed:tab+upper+bom", "mixed", format!("\t{}\u{feff}", key.to_ascii_uppercase()));
        add("case:first-letter", "case", {
            let mut c = key.chars();
            match c.next() {
                Some(f) => f.to_ascii_uppercase().to_string() + c.as_str(),
                None => String::new(),
            }
        });
        add("blank:spaces-both", "blank", format!("  {key}  "));
        add("blank:em-space+", "blank", format!("\u{2003}{key}"));
        add("blank:+vertical-tab", "blank", format!("{key}\u{b}"));
        add("blank:+form-feed", "blank", format!("{key}\u{c}"));
    }
    v.retain(|(_, _, k)| k != key);
    v
}

/// Request forms for one role-deciding key: (spelling name, class, raw JSON text of the members
/// after `id`, `type`, `auth` — raw text because of the duplicate-member forms).
fn gate_forms(key: &str, value: &Value, thorough: bool) -> Vec<(String, &'static str, String)> {
    let obj1 = |k: &str, v: &Value| format!("{{{}:{}}}", jstr(k), v);
    let pm = |raw: String| format!("\"params\":{raw}");
    let mut out: Vec<(String, &'static str, String)> = Vec::new();
    out.push(("canonical".into(), "canonical", pm(obj1(key, value))));
    out.push(("canonical+benign-key".into(), "canonical", pm(format!("{{\"log.level\":\"debug\",{}:{}}}", jstr(key), value))));
    let respelled = respelled_keys(key, thorough);
    for (n, c, k) in &respelled {
        out.push((n.clone(), c, pm(obj1(k, value))));
    }
    // nested object instead of the dotted key
    if let Some((head, tail)) = key.split_once('.') {
        out.push(("nested:object".into(), "nested", pm(format!("{{{}:{}}}", jstr(head), obj1(tail, value)))));
        out.push(("nested:object+benign-key".into(), "nested", pm(format!("{{\"log.level\":\"debug\",{}:{}}}", jstr(head), obj1(tail, value)))));
    }
    // the object wrapped into a member / sent as key-value pair
    for w in ["params", "settings", "config", "set", "values"] {
        out.push((format!("wrapper:{w}"), "wrapper", pm(format!("{{{}:{}}}", jstr(w), obj1(key, value)))));
    }
    out.push(("wrapper:key-value".into(), "wrapper", pm(format!("{{\"key\":{},\"value\":{}}}", jstr(key), value))));
    out.push(("wrapper:name-value".into(), "wrapper", pm(format!("{{\"name\":{},\"value\":{}}}", jstr(key), value))));
    // arrays where an object / a string is expected
    out.push(("array:of-objects".into(), "array-params", pm(format!("[{}]", obj1(key, value)))));
    out.push(("array:of-pairs".into(), "array-params", pm(format!("[[{},{}]]", jstr(key), value))));
    out.push(("array:flat-pair".into(), "array-params", pm(format!("[{},{}]", jstr(key), value))));
    out.push(("array:string-params".into(), "array-params", pm(jstr(&obj1(key, value)))));
    // duplicate members (one JSON text, two readings: first wins / last wins)
    let benign = "{\"log.level\":\"debug\"}".to_string();
    out.push(("duplicate:params-benign-then-key".into(), "duplicate", format!("{},{}", pm(benign.clone()), pm(obj1(key, value)))));
    out.push(("duplicate:params-key-then-benign".into(), "duplicate", format!("{},{}", pm(obj1(key, value)), pm(benign))));
    out.push(("duplicate:key-twice".into(), "duplicate", pm(format!("{{{}:{},{}:{}}}", jstr(key), value, jstr(key), value))));
    if let (Some(a), Some(b)) = (respelled.iter().find(|r| r.0 == "case:capitalised"), respelled.iter().find(|r| r.0 == "blank:+space")) {
        if thorough {
            // two different re-spellings of the same key in one object (a combination, hence class `mixed`)
            out.push(("mixed:two-spellings".into(), "mixed", pm(format!("{{{}:{},{}:{}}}", jstr(&a.2), value, jstr(&b.2), value))));
        }
        out.push(("case:capitalised+benign-key".into(), "case", pm(format!("{{\"log.level\":\"debug\",{}:{}}}", jstr(&a.2), value))));
    }
    out
}

const GATE_CREDS: [&str; 4] = ["pair:viewer", "pair:operator", "pair:engineer", "admin"];

/// One raw request by one credential on a fresh endpoint; judged against the calibrated fields.
fn run_gate(case: &Value) -> Result<Value, String> {
    let cfg = Cfg::from_json(&case["cfg"]);
    let base = scratch_base(case);
    let mut env = build_env(cfg, &base, false)?;
    let ty = case["type"].as_str().ok_or("gate case without type")?;
    let cred = case["cred"].as_str().unwrap_or("admin");
    let members = case["members_raw"].as_str().ok_or("gate case without members_raw")?;
    let Some(token) = env.creds.get(cred).cloned() else {
        return Ok(json!({"skipped": "credential not constructible"}));
    };
    let role: u8 = match cred {
        "admin" => 3,
        c => c.strip_prefix("pair:").and_then(role_index).ok_or("gate case: credential without a role")?,
    };
    let before = env.probe(false);
    let line = format!("{{\"id\":7,\"type\":{},\"auth\":{},{members}}}", jstr(ty), jstr(&token));
    let _ = take_panic();
    let reply = send_once(&env.sock, line.as_bytes());
    let panic = take_panic();
    let after = env.probe(true);
    let effects = diff_keys(&before, &after);
    let class = case["class"].as_str().unwrap_or("?");
    let spelling = case["spelling"].as_str().unwrap_or("?");
    let lo = case["lo"].as_u64().unwrap_or(0) as u8;
    let shown = format!("`{ty}` {} (spelling `{spelling}` of `{}`) sent with the credential `{cred}` (role {})", clip(members, 160), case["key"].as_str().unwrap_or("?"), role_name(role));
    let mut viol: Vec<(String, String)> = Vec::new();
    if reply.ok.is_none() {
        let why = panic.clone().or(reply.io_error.clone()).unwrap_or_else(|| "reply is not a JSON object with a boolean `ok`".into());
        viol.push((format!("C18/role-gate/no-reply/{ty}/{class}"), format!("{shown} got no well-formed reply ({why})")));
    }
    if let Some(p) = &panic {
        viol.push((format!("C18/role-gate/panic/{ty}/{class}"), format!("{shown} made an endpoint thread panic: {}", clip(p, 160))));
    }
    // which admin-only settings changed (canonical meaning of the effect)
    let mut touched: Vec<String> = Vec::new();
    if let Some(fields) = case["fields"].as_object() {
        for (k, spec) in fields {
            let need = spec["role"].as_u64().unwrap_or(3) as u8;
            let hit: Vec<String> = spec["fields"].as_array().map(|a| a.iter().filter_map(Value::as_str).filter(|f| effects.iter().any(|e| e == f)).map(str::to_string).collect()).unwrap_or_default();
            if hit.is_empty() {
                continue;
            }
            touched.push(k.clone());
            if role < need {
                viol.push((
                    format!("C18/role-gate-bypass/{ty}:{k}/{class}/{}", role_name(role)),
                    format!(
                        "{shown} changed {hit:?}, i.e. the setting `{k}`, for which the permission table requires {}: the role gate and the handler read the request differently; reply {}",
                        role_name(need),
                        clip(reply.raw.as_deref().unwrap_or("<none>"), 160)
                    ),
                ));
            }
        }
    }
    if role < lo && !effects.is_empty() {
        viol.push((
            format!("C18/role-gate-bypass/{ty}:*/{class}/{}", role_name(role)),
            format!("{shown} changed {effects:?} although every `{ty}` requires at least {}; reply {}", role_name(lo), clip(reply.raw.as_deref().unwrap_or("<none>"), 160)),
        ));
    }
    Ok(json!({
        "violations": viol.iter().map(|(s, w)| json!([s, w])).collect::<Vec<_>>(),
        "effects": effects, "touched": touched, "ok": reply.ok, "error": reply.error, "role": role,
    }))
}

// =================================================================================================
// Part D — X2: explicit-state search over the pairing sub-protocol (state = replayed history)
// =================================================================================================

struct MTok {
    token: String,
    id: String,
    tail: String,
    role: u8,
    enabled: bool,
    expires_at: u64,
    /// model second in which the token was claimed
    claimed_at: u64,
    /// label of the way it was disabled (signature class)
    how_revoked: &'static str,
}

/// What the statement allows for a credential.
#[derive(Clone, Copy, Debug, PartialEq)]
enum Expect {
    /// not a valid credential: every request must be refused
    Refuse,
    /// valid with this role
    Role(u8),
    /// exactly AT the reported expiry instant: the statement does not say whether the instant
    /// itself is still valid — being refused and being served with this role are both accepted
    Either(u8),
}

impl Expect {
    /// performing a request that requires `required` is allowed
    fn may(self, required: u8) -> bool {
        match self {
            Expect::Refuse => false,
            Expect::Role(r) | Expect::Either(r) => r >= required,
        }
    }
    /// refusing a request that requires `required` is unexpected
    fn must(self, required: u8) -> bool {
        match self {
            Expect::Role(r) => r >= required,
            _ => false,
        }
    }
}

#[derive(Default)]
struct PairModel {
    toks: Vec<MTok>,
    /// (code, expires_at)
    pending: Option<(String, u64)>,
}

impl PairModel {
    /// (token string sent, what the statement allows for it, class label)
    fn cred(&self, name: &str, now: u64) -> (String, Expect, String) {
        if name == "admin" {
            return (ADMIN_TOKEN.to_string(), Expect::Role(3), "admin-token".into());
        }
        if name == "bogus" {
            return ("no-such-token".into(), Expect::Refuse, "never-issued".into());
        }
        if name == "code" {
            return (self.pending.as_ref().map(|p| p.0.clone()).unwrap_or_else(|| "000000".into()), Expect::Refuse, "pending-code".into());
        }
        if let Some(k) = name.strip_prefix("id").and_then(|k| k.parse::<usize>().ok()) {
            // the listing id of a token (shown by pair.list, guessable) is not a credential
            return match self.toks.get(k) {
                Some(t) => (t.id.clone(), Expect::Refuse, "token-id".into()),
                None => ("no-such-token".into(), Expect::Refuse, "never-issued".into()),
            };
        }
        let k: usize = name.trim_start_matches("tok").parse().unwrap_or(usize::MAX);
        match self.toks.get(k) {
            None => ("no-such-token".into(), Expect::Refuse, "never-issued".into()),
            Some(t) => {
                if !t.enabled {
                    (t.token.clone(), Expect::Refuse, t.how_revoked.to_string())
                } else if t.expires_at < now {
                    (t.token.clone(), Expect::Refuse, "expired".into())
                } else if t.expires_at == now {
                    (t.token.clone(), Expect::Either(t.role), format!("valid-{}", role_name(t.role)))
                } else {
                    (t.token.clone(), Expect::Role(t.role), format!("valid-{}", role_name(t.role)))
                }
            }
        }
    }
}

const LEVEL_PROBES: [&str; 4] = ["status", "restart", "io.write", "pair.list"];

fn req_of(case: &Value, ty: &str) -> u8 {
    case["req"][ty].as_u64().unwrap_or(3) as u8
}

/// `pair` = the admin starts pairing and claims the code in the same second (two requests).
fn expand_history(hist: &[Value]) -> Vec<Value> {
    let mut out = Vec::new();
    for ev in hist {
        if ev["e"].as_str() == Some("pair") {
            out.push(json!({"e":"start","cred":"admin","dt":ev["dt"].as_u64().unwrap_or(1)}));
            out.push(json!({"e":"claim","code":"good","role":ev["role"],"cred":"admin","dt":0}));
        } else {
            out.push(ev.clone());
        }
    }
    out
}

/// Replays one history on a fresh endpoint, checks every step against the reference model and
/// then the acceptance of every credential at four role levels.
///
/// Clock: every event first advances the injected pairing clock by `dt` seconds (default 1;
/// `dt` = 0 keeps the event in the SAME second as the previous one — this is how two tokens get
/// the same listing id). The boundary ticks move the clock next to the expiry that the endpoint
/// itself reported (`expires_at` of pair.start / of the listing).
fn run_history(case: &Value) -> Result<Value, String> {
    let cfg = Cfg { token: true, debug: true, pairing: true, production: false };
    let base = scratch_base(case);
    let env = build_env(cfg, &base, true)?;
    let store = env.store.clone().ok_or("no store")?;
    let mut model = PairModel::default();
    let mut viol: Vec<(String, String)> = Vec::new();
    let mut now = T0;
    let hist = case["history"].as_array().cloned().unwrap_or_default();
    let hist_s = clip(&Value::Array(hist.clone()).to_string(), 300);
    let mut requests = 0u64;
    let mut steps_refused = 0u64;
    let mut unexpected_refusals = 0u64;
    let mut shared_id_claims = 0u64;
    for ev in &expand_history(&hist) {
        now += ev["dt"].as_u64().unwrap_or(1);
        env.clock.store(now, Ordering::SeqCst);
        let kind = ev["e"].as_str().unwrap_or("");
        if kind == "tick" {
            // earliest expiry among the tokens that are still valid
            let tok_exp = model.toks.iter().filter(|t| t.enabled && t.expires_at >= now).map(|t| t.expires_at).min();
            let target = match ev["what"].as_str() {
                Some("token") => Some(now + 32 * 86400),
                Some("code") => Some(now + 400),
                // the next event / the final probes run one second later:
                Some("token-last-valid") => tok_exp.map(|e| e.saturating_sub(2)), // ... at expires_at - 1
                Some("token-past") => tok_exp,                                    // ... at expires_at + 1
                Some("code-past") => model.pending.as_ref().map(|p| p.1),         // ... at expires_at + 1
                other => return Err(format!("unknown tick {other:?}")),
            };
            if let Some(t) = target {
                if t > now {
                    now = t;
                }
            }
            env.clock.store(now, Ordering::SeqCst);
            continue;
        }
        let cname = ev["cred"].as_str().unwrap_or("admin");
        let (tok, role, class) = model.cred(cname, now);
        match kind {
            "start" => {
                let rq = req_of(case, "pair.start");
                let rep = send_once(&env.sock, request_line("pair.start", None, Some(&tok)).as_bytes());
                requests += 1;
                let v: Value = rep.raw.as_deref().and_then(|r| serde_json::from_str(r).ok()).unwrap_or(Value::Null);
                let code = v["result"]["code"].as_str().map(str::to_string);
                if rep.ok == Some(true) && !role.may(rq) {
                    viol.push((format!("C18/pairing/start-performed/{class}"), format!("pair.start was performed for a {class} credential (needs {}); history {hist_s}", role_name(rq))));
                }
                if let (Some(true), Some(code)) = (rep.ok, code) {
                    let exp = v["result"]["expires_at"].as_u64().unwrap_or(now);
                    model.pending = Some((code, exp));
                } else {
                    steps_refused += 1;
                    if role.must(rq) {
                        unexpected_refusals += 1;
                    }
                }
            }
            "claim" => {
                let rq = req_of(case, "pair.claim");
                let good = ev["code"].as_str() != Some("bad");
                let code = match (&model.pending, good) {
                    (Some((c, _)), true) => c.clone(),
                    (Some((c, _)), false) => {
                        let mut x: Vec<char> = c.chars().collect();
                        if let Some(l) = x.last_mut() {
                            *l = if *l == '9' { '0' } else { '9' };
                        }
                        x.into_iter().collect()
                    }
                    (None, _) => "123456".to_string(),
                };
                let requested = ev["role"].as_str().and_then(role_index);
                let mut p = Map::new();
                p.insert("code".into(), json!(code));
                if let Some(r) = ev["role"].as_str() {
                    p.insert("role".into(), json!(r));
                }
                let why_not = if !role.may(rq) {
                    Some(format!("insufficient-role:{class}"))
                } else if model.pending.is_none() {
                    Some("no-pending-code".to_string())
                } else if model.pending.as_ref().map(|p| p.1 < now).unwrap_or(false) {
                    Some("expired-code".to_string())
                } else if !good {
                    Some("wrong-code".to_string())
                } else {
                    None
                };
                // exactly at the reported expiry instant of the code (or of the claiming token)
                // both outcomes are accepted
                let at_instant = model.pending.as_ref().map(|p| p.1 == now).unwrap_or(false) || !role.must(rq);
                let rep = send_once(&env.sock, request_line("pair.claim", Some(&Value::Object(p)), Some(&tok)).as_bytes());
                requests += 1;
                let v: Value = rep.raw.as_deref().and_then(|r| serde_json::from_str(r).ok()).unwrap_or(Value::Null);
                let issued = v["result"]["token"].as_str().map(str::to_string);
                match (rep.ok, issued) {
                    (Some(true), Some(t)) => {
                        if let Some(w) = &why_not {
                            viol.push((format!("C18/pairing/token-issued/{w}"), format!("pair.claim issued a token although the model says it must not ({w}); history {hist_s}")));
                        }
                        let tail: String = t.chars().rev().take(4).collect::<String>().chars().rev().collect();
                        // claim appends: the newest listed entry with this tail (ids may be shared)
                        let entry = store.list().into_iter().rev().find(|e| e.tail.ends_with(&tail));
                        let (id, granted, exp) = match entry {
                            Some(e) => (e.id, role_index(e.role.as_str()).unwrap_or(3), e.expires_at),
                            None => {
                                viol.push(("C18/pairing/issued-token-not-listed".into(), format!("pair.claim returned a token that the store does not list; history {hist_s}")));
                                (format!("unlisted-{}", model.toks.len()), requested.unwrap_or(1), u64::MAX)
                            }
                        };
                        if let Some(rq) = requested {
                            if granted > rq {
                                viol.push((format!("C18/pairing/role-escalation/requested-{}/granted-{}", role_name(rq), role_name(granted)), format!("pair.claim for role {} stored a token with role {}; history {hist_s}", role_name(rq), role_name(granted))));
                            }
                        }
                        if model.toks.iter().any(|m| m.id == id) {
                            shared_id_claims += 1;
                        }
                        model.toks.push(MTok { token: t, id, tail, role: granted, enabled: true, expires_at: exp, claimed_at: now, how_revoked: "revoked" });
                        model.pending = None;
                    }
                    _ => {
                        steps_refused += 1;
                        if why_not.is_none() && !at_instant {
                            unexpected_refusals += 1;
                        }
                    }
                }
            }
            "revoke" => {
                let rq = req_of(case, "pair.revoke");
                let target = ev["target"].as_str().unwrap_or("all");
                let id = if target == "all" {
                    "all".to_string()
                } else {
                    let k: usize = target.trim_start_matches("tok").parse().unwrap_or(usize::MAX);
                    model.toks.get(k).map(|t| t.id.clone()).unwrap_or_else(|| "pair-0".into())
                };
                let rep = send_once(&env.sock, request_line("pair.revoke", Some(&json!({"id": id})), Some(&tok)).as_bytes());
                requests += 1;
                if rep.ok == Some(true) {
                    if !role.may(rq) {
                        viol.push((format!("C18/pairing/revoke-performed/{class}"), format!("pair.revoke was performed for a {class} credential; history {hist_s}")));
                    }
                    // the endpoint confirmed the revocation of this id: from now on NO token listed
                    // under the id is a valid credential
                    let sharers = model.toks.iter().filter(|t| t.id == id).count();
                    for t in model.toks.iter_mut() {
                        if id == "all" || t.id == id {
                            if t.enabled {
                                t.how_revoked = if sharers > 1 { "revoked-shared-id" } else { "revoked" };
                            }
                            t.enabled = false;
                        }
                    }
                } else {
                    steps_refused += 1;
                }
            }
            other => return Err(format!("unknown event {other}")),
        }
    }
    // acceptance of every credential at the four levels
    let last_event_at = now;
    now += 1;
    env.clock.store(now, Ordering::SeqCst);
    let mut names: Vec<String> = vec!["admin".into(), "bogus".into()];
    if model.pending.is_some() {
        names.push("code".into());
    }
    for k in 0..model.toks.len() {
        names.push(format!("tok{k}"));
    }
    if !model.toks.is_empty() {
        names.push("id0".into());
    }
    let mut matrix = String::new();
    let mut accepted_n = 0u64;
    let mut refused_n = 0u64;
    // (token index, request type) served by the endpoint
    let mut served: Vec<(usize, &'static str)> = Vec::new();
    for n in &names {
        let (tok, role, class) = model.cred(n, now);
        for ty in LEVEL_PROBES {
            let params = match ty {
                "restart" => Some(json!({"mode":"warm"})),
                "io.write" => Some(json!({"address":"%QX0.0","value":"TRUE"})),
                _ => None,
            };
            let rep = send_once(&env.sock, request_line(ty, params.as_ref(), Some(&tok)).as_bytes());
            requests += 1;
            let effect = match ty {
                "restart" => env.state.pending_restart.lock().map(|mut g| g.take().is_some()).unwrap_or(false),
                "io.write" => !env.debug.drain_io_writes().is_empty(),
                _ => false,
            };
            let accepted = rep.ok == Some(true) || rep.has_result || effect;
            let rq = req_of(case, ty);
            matrix.push(if accepted { '1' } else { '0' });
            if accepted {
                accepted_n += 1;
                if let Some(k) = n.strip_prefix("tok").and_then(|k| k.parse::<usize>().ok()) {
                    served.push((k, ty));
                }
            } else {
                refused_n += 1;
            }
            if rep.ok.is_none() {
                viol.push((format!("C18/pairing/no-reply/{ty}"), format!("no well-formed reply to `{ty}` ({:?}); history {hist_s}", rep.io_error)));
            } else if accepted && !role.may(rq) {
                let detail = match n.strip_prefix("tok").and_then(|k| k.parse::<usize>().ok()).and_then(|k| model.toks.get(k)) {
                    Some(t) if !t.enabled => format!(
                        " ({n}: {} token listed under id {}, which {} token(s) of this history share; the endpoint confirmed the revocation of that id)",
                        role_name(t.role),
                        t.id,
                        model.toks.iter().filter(|o| o.id == t.id).count()
                    ),
                    Some(t) => format!(" ({n}: {} token, id {}, reported expires_at {}, pairing clock now {now})", role_name(t.role), t.id, t.expires_at),
                    None => String::new(),
                };
                viol.push((format!("C18/pairing/accepted/{class}/{ty}"), format!("after history {hist_s} a credential of class `{class}`{detail} was accepted for `{ty}` (requires {}); reply {}", role_name(rq), clip(rep.raw.as_deref().unwrap_or(""), 120))));
            } else if !accepted && role.must(rq) {
                viol.push((format!("C18/pairing/refused/{class}/{ty}"), format!("after history {hist_s} a credential of class `{class}` was refused for `{ty}` (requires {}): {:?}", role_name(rq), rep.error)));
            }
        }
        matrix.push('|');
    }
    // the endpoint's own listing against its own behaviour: a token that pair.list reports as
    // revoked (enabled = false) or does not report at all must not authorise anything
    // (the probes above do not change pairing data, so the listing taken now is the one in force)
    let listing = store.list();
    for (k, ty) in &served {
        let Some(t) = model.toks.get(*k) else { continue };
        let entries: Vec<&trust_runtime::web::pairing::PairingSummary> = listing.iter().filter(|e| e.id == t.id && e.tail.ends_with(&t.tail)).collect();
        if entries.is_empty() {
            viol.push((format!("C18/pairing/accepted-but-not-listed/{ty}"), format!("after history {hist_s} token #{k} (id {}) is not in the pairing listing, yet it was accepted for `{ty}`", t.id)));
        } else if entries.iter().all(|e| !e.enabled) {
            viol.push((format!("C18/pairing/accepted-but-listed-revoked/{ty}"), format!("after history {hist_s} the pairing listing reports token #{k} (id {}) as revoked, yet it was accepted for `{ty}`", t.id)));
        }
    }
    // a restart of the runtime re-loads the store from its file (`resolve_request_role` asks exactly
    // this function): a credential that is revoked / expired must not come back, and no token may
    // come back with a higher role
    let mut reload_valid = 0u64;
    let mut reload_invalid = 0u64;
    {
        let c = env.clock.clone();
        let reloaded = PairingStore::with_clock(env.dir.join("pairing.json"), Arc::new(move || c.load(Ordering::SeqCst)));
        for k in 0..model.toks.len() {
            let (tok, role, class) = model.cred(&format!("tok{k}"), now);
            let got = reloaded.validate_with_role(&tok).and_then(|r| role_index(r.as_str()));
            match got {
                Some(_) => reload_valid += 1,
                None => reload_invalid += 1,
            }
            if let Some(r) = got {
                let too_much = match role {
                    Expect::Refuse => true,
                    Expect::Role(m) | Expect::Either(m) => r > m,
                };
                if too_much {
                    viol.push((
                        format!("C18/pairing/valid-after-reload/{class}"),
                        format!("after history {hist_s} a pairing store re-loaded from pairing.json (= runtime restart) maps the {class} credential tok{k} to role {}", role_name(r)),
                    ));
                }
            }
        }
    }
    // abstract state: per token role, enabled/revoked, distance to its expiry (v = more than a
    // second away, n = expires next second, i = at the instant, x = past), the first token with the
    // same listing id (id sharing), c = claimed in the second of the last event (a `dt` = 0 claim
    // would share its id)
    let toks_abs: Vec<String> = model
        .toks
        .iter()
        .map(|t| {
            let tclass = if t.expires_at < now {
                'x'
            } else if t.expires_at == now {
                'i'
            } else if t.expires_at == now + 1 {
                'n'
            } else {
                'v'
            };
            let first_same = model.toks.iter().position(|o| o.id == t.id).unwrap_or(0);
            format!("{}{}{}@{}{}", t.role, if t.enabled { 'e' } else { 'r' }, tclass, first_same, if t.claimed_at == last_event_at { "c" } else { "" })
        })
        .collect();
    let pend_abs = match &model.pending {
        None => "-",
        Some((_, e)) if *e < now => "x",
        Some((_, e)) if *e == now => "i",
        Some(_) => "p",
    };
    let impl_list: Vec<String> = listing.iter().map(|e| format!("{}{}", e.role.as_str(), if e.enabled { 'e' } else { 'r' })).collect();
    let key = format!("{}/{}/{}/{}", toks_abs.join(","), pend_abs, impl_list.join(","), matrix);
    let ids: BTreeSet<&str> = model.toks.iter().map(|t| t.id.as_str()).collect();
    Ok(json!({
        "key": key, "n_tokens": model.toks.len(), "pending": model.pending.is_some(),
        "violations": viol.iter().map(|(s, w)| json!([s, w])).collect::<Vec<_>>(),
        "requests": requests, "accepted": accepted_n, "refused": refused_n,
        "steps_refused": steps_refused, "unexpected_refusals": unexpected_refusals,
        "shared_id_claims": shared_id_claims, "shared_ids": model.toks.len() - ids.len(),
        "revoked_shared": model.toks.iter().filter(|t| !t.enabled && t.how_revoked == "revoked-shared-id").count(),
        "reload_valid": reload_valid, "reload_invalid": reload_invalid,
        "at_instant": model.toks.iter().filter(|t| t.enabled && t.expires_at == now).count(),
        "past_by_one": model.toks.iter().filter(|t| t.enabled && t.expires_at + 1 == now).count(),
    }))
}

/// Events enabled after a history that issued `n_tokens` tokens (`pending`: a code is pending).
/// `legacy`: the menu as it was before the same-second / boundary events were added.
fn pairing_events(n_tokens: usize, pending: bool, thorough: bool, legacy: bool) -> Vec<Value> {
    let mut creds = vec!["admin".to_string()];
    for k in 0..n_tokens.min(if thorough { 2 } else { 1 }) {
        creds.push(format!("tok{k}"));
    }
    let mut ev = Vec::new();
    // admin pairs a new token, in the next second or in the SAME second as the previous event
    let pair_roles: &[&str] = if thorough { &["viewer", "operator", "engineer"] } else { &["viewer", "engineer"] };
    for dt in [1u64, 0] {
        for r in pair_roles {
            if !legacy {
                ev.push(json!({"e":"pair","role":r,"dt":dt}));
            }
        }
    }
    for c in &creds {
        ev.push(json!({"e":"start","cred":c}));
    }
    for r in [None, Some("viewer"), Some("operator"), Some("engineer"), Some("admin")] {
        ev.push(json!({"e":"claim","code":"good","role":r,"cred":"admin"}));
    }
    ev.push(json!({"e":"claim","code":"bad","role":null,"cred":"admin"}));
    for c in creds.iter().skip(1) {
        ev.push(json!({"e":"claim","code":"good","role":"engineer","cred":c}));
    }
    if n_tokens > 0 {
        ev.push(json!({"e":"revoke","target":"tok0","cred":"admin"}));
        ev.push(json!({"e":"revoke","target":"tok0","cred":"tok0"}));
        if n_tokens > 1 {
            ev.push(json!({"e":"revoke","target":"tok1","cred":"admin"}));
            ev.push(json!({"e":"revoke","target":"tok1","cred":"tok0"}));
        }
        if n_tokens > 2 && !legacy {
            ev.push(json!({"e":"revoke","target":"tok2","cred":"admin"}));
        }
        // revoke in the same second as the previous event (a following `pair` with dt 0 then
        // re-uses the id of a revoked token)
        if !legacy {
            ev.push(json!({"e":"revoke","target":format!("tok{}", n_tokens - 1),"cred":"admin","dt":0}));
        }
    }
    ev.push(json!({"e":"revoke","target":"all","cred":"admin"}));
    ev.push(json!({"e":"tick","what":"code"}));
    ev.push(json!({"e":"tick","what":"token"}));
    if n_tokens > 0 && !legacy {
        ev.push(json!({"e":"tick","what":"token-last-valid"}));
        ev.push(json!({"e":"tick","what":"token-past"}));
    }
    if pending && !legacy {
        ev.push(json!({"e":"tick","what":"code-past"}));
    }
    ev
}

// =================================================================================================
// Part E — malformed input on a long-lived connection of one real server
// =================================================================================================

/// (class label used in signatures, bytes of the line, must the reply be an error?)
fn malformed_lines(family: &str) -> Vec<(String, Vec<u8>, bool)> {
    let mut out: Vec<(String, Vec<u8>, bool)> = Vec::new();
    let s = |l: &str, t: &str, must: bool| (l.to_string(), t.as_bytes().to_vec(), must);
    match family {
        "trunc:status" | "trunc:io.write" | "trunc:config.set" => {
            let line = match family {
                "trunc:status" => request_line("status", None, Some(ADMIN_TOKEN)),
                "trunc:io.write" => request_line("io.write", Some(&json!({"address":"%QX0.0","value":"TRUE"})), Some(ADMIN_TOKEN)),
                _ => request_line("config.set", Some(&json!({"log.level":"debug","mesh.publish":["a","b"],"mesh.subscribe":{"t":"x"}})), Some(ADMIN_TOKEN)),
            };
            for n in 0..line.len() {
                out.push(("truncation".into(), line.as_bytes()[..n].to_vec(), true));
            }
        }
        "garbage" => {
            for (l, t) in [
                ("lone-open-brace", "{"), ("lone-close-brace", "}"), ("empty-array", "[]"), ("json-null", "null"), ("json-number", "1"),
                ("json-string", "\"status\""), ("empty-object", "{}"), ("spaces", "   "), ("text", "status"), ("unquoted-keys", "{id:1,type:status}"),
                ("single-quotes", "{'id':1,'type':'status'}"), ("trailing-comma", "{\"id\":1,\"type\":\"status\",}"),
                ("trailing-garbage", "{\"id\":1,\"type\":\"status\"} x"), ("two-objects", "{\"id\":1,\"type\":\"status\"}{\"id\":2,\"type\":\"status\"}"),
                ("missing-id", "{\"type\":\"status\"}"), ("missing-type", "{\"id\":1}"), ("id-negative", "{\"id\":-1,\"type\":\"status\"}"),
                ("id-float", "{\"id\":1.5,\"type\":\"status\"}"), ("id-string", "{\"id\":\"1\",\"type\":\"status\"}"), ("id-null", "{\"id\":null,\"type\":\"status\"}"),
                ("id-overflow", "{\"id\":18446744073709551616,\"type\":\"status\"}"), ("id-huge-exponent", "{\"id\":1e999,\"type\":\"status\"}"),
                ("id-array", "{\"id\":[1],\"type\":\"status\"}"), ("type-number", "{\"id\":1,\"type\":5}"), ("type-null", "{\"id\":1,\"type\":null}"),
                ("type-array", "{\"id\":1,\"type\":[\"status\"]}"), ("type-object", "{\"id\":1,\"type\":{\"a\":1}}"), ("auth-number", "{\"id\":1,\"type\":\"status\",\"auth\":5}"),
                ("auth-array", "{\"id\":1,\"type\":\"status\",\"auth\":[\"x\"]}"), ("auth-object", "{\"id\":1,\"type\":\"status\",\"auth\":{}}"),
                ("duplicate-id", "{\"id\":1,\"id\":2,\"type\":\"status\"}"), ("duplicate-type", "{\"id\":1,\"type\":\"status\",\"type\":\"shutdown\"}"),
                ("bad-escape", "{\"id\":1,\"type\":\"st\\qatus\"}"), ("bad-unicode-escape", "{\"id\":1,\"type\":\"\\ud800\"}"), ("nul-char", "{\"id\":1,\"type\":\"status\u{0}\"}"),
                ("raw-nul-bytes", "\u{0}\u{0}\u{0}"), ("control-chars", "\u{1}\u{2}\u{1b}[31m"), ("bom", "\u{feff}{\"id\":1,\"type\":\"status\"}"),
                ("carriage-return-inside", "{\"id\":1,\r\"type\":\"status\""), ("http-request", "GET / HTTP/1.1"), ("array-of-requests", "[{\"id\":1,\"type\":\"status\"}]"),
            ] {
                out.push(s(l, t, true));
            }
            out.push(("invalid-utf8".into(), vec![0xff, 0xfe, 0xfd], true));
            out.push(("invalid-utf8".into(), b"{\"id\":1,\"type\":\"st\xc3\"}".to_vec(), true));
            out.push(("invalid-utf8".into(), "{\"id\":1,\"type\":\"stä".as_bytes()[..19].to_vec(), true));
            out.push(("invalid-utf8".into(), vec![b'"', 0xc0, 0xaf, b'"'], true));
        }
        "huge" => {
            out.push(("huge-text-4MiB".into(), vec![b'A'; 4 << 20], true));
            out.push(("deep-arrays-1MiB".into(), vec![b'['; 1 << 20], true));
            out.push(("deep-objects".into(), "{\"a\":".repeat(100_000).into_bytes(), true));
            let mut deep = b"{\"id\":1,\"type\":\"status\",\"params\":".to_vec();
            deep.extend(std::iter::repeat(b'[').take(200_000));
            out.push(("deep-params".into(), deep, true));
            let mut balanced = b"{\"id\":1,\"type\":\"io.write\",\"auth\":\"adm-S3cret-token\",\"params\":".to_vec();
            balanced.extend(std::iter::repeat(b'[').take(5_000));
            balanced.extend(std::iter::repeat(b']').take(5_000));
            balanced.push(b'}');
            out.push(("deep-balanced-params".into(), balanced, true));
            out.push(("huge-type-2MiB".into(), format!("{{\"id\":1,\"type\":\"{}\"}}", "s".repeat(2 << 20)).into_bytes(), true));
            out.push(("huge-auth-2MiB".into(), format!("{{\"id\":1,\"type\":\"status\",\"auth\":\"{}\"}}", "a".repeat(2 << 20)).into_bytes(), true));
            out.push(("huge-number".into(), format!("{{\"id\":{},\"type\":\"status\"}}", "9".repeat(100_000)).into_bytes(), true));
        }
        _ => {}
    }
    out
}

const SOCK_FAMILIES: [&str; 5] = ["trunc:status", "trunc:io.write", "trunc:config.set", "garbage", "huge"];

fn run_sock(case: &Value) -> Result<Value, String> {
    let cfg = Cfg { token: true, debug: true, pairing: true, production: false };
    let base = scratch_base(case);
    let family = case["family"].as_str().unwrap_or("");
    let only: Option<u64> = case["only"].as_u64();
    let mut env = build_env(cfg, &base, false)?;
    let before = env.probe(false);
    let lines = malformed_lines(family);
    if lines.is_empty() {
        return Err(format!("unknown malformed family {family}"));
    }
    let mut viol: Vec<(String, String, u64)> = Vec::new();
    let mut conn: Option<(UnixStream, BufReader<UnixStream>)> = None;
    let mut sent = 0u64;
    let mut error_replies = 0u64;
    let mut dropped = 0u64;
    let valid = request_line("status", None, Some(ADMIN_TOKEN));
    let ask = |conn: &mut Option<(UnixStream, BufReader<UnixStream>)>, bytes: &[u8]| -> Reply {
        if conn.is_none() {
            match connect(&env.sock) {
                Ok(c) => *conn = Some(c),
                Err(e) => return Reply { io_error: Some(e), ..Default::default() },
            }
        }
        let (s, r) = conn.as_mut().unwrap();
        if let Err(e) = s.write_all(bytes).and_then(|_| s.write_all(b"\n")).and_then(|_| s.flush()) {
            *conn = None;
            return Reply { io_error: Some(format!("write failed: {e}")), ..Default::default() };
        }
        let rep = read_reply(r);
        if rep.raw.is_none() {
            *conn = None;
        }
        rep
    };
    for (idx, (label, bytes, must_error)) in lines.iter().enumerate() {
        if let Some(o) = only {
            if o != idx as u64 {
                continue;
            }
        }
        let shown = clip(&String::from_utf8_lossy(bytes), 80);
        let _ = take_panic();
        let rep = ask(&mut conn, bytes);
        sent += 1;
        let panic = take_panic();
        if let Some(p) = panic {
            viol.push((format!("C18/malformed/panic/{label}"), format!("line {shown:?} made an endpoint thread panic: {}", clip(&p, 160)), idx as u64));
        }
        match rep.ok {
            None => {
                dropped += 1;
                viol.push((
                    format!("C18/malformed/no-error-reply/{label}"),
                    format!("line {shown:?} ({} bytes) got no error reply: {}", bytes.len(), rep.io_error.clone().unwrap_or_else(|| format!("reply {:?} is not a JSON object with boolean ok", rep.raw.as_deref().map(|r| clip(r, 80))))),
                    idx as u64,
                ));
            }
            Some(true) if *must_error => {
                viol.push((format!("C18/malformed/accepted/{label}"), format!("malformed line {shown:?} was answered ok:true: {}", clip(rep.raw.as_deref().unwrap_or(""), 120)), idx as u64));
            }
            Some(false) => {
                error_replies += 1;
                if rep.error.is_none() {
                    viol.push((format!("C18/malformed/no-error-text/{label}"), format!("line {shown:?}: negative reply without error text"), idx as u64));
                }
            }
            _ => {}
        }
        // the same connection must still serve a valid request
        if conn.is_some() {
            let rep = ask(&mut conn, valid.as_bytes());
            if rep.ok != Some(true) {
                viol.push((format!("C18/malformed/connection-dead/{label}"), format!("after line {shown:?} the same connection no longer answers a valid `status` request: {:?}", rep.error.or(rep.io_error)), idx as u64));
                conn = None;
            }
        }
    }
    drop(conn);
    // server still up for new connections
    let rep = send_once(&env.sock, valid.as_bytes());
    if rep.ok != Some(true) {
        viol.push((format!("C18/malformed/server-dead/{family}"), format!("after the `{family}` lines a new connection gets no ok reply to `status`: {:?}", rep.error.or(rep.io_error)), 0));
    }
    let after = env.probe(true);
    let eff = diff_keys(&before, &after);
    if !eff.is_empty() {
        viol.push((format!("C18/malformed/effect/{family}"), format!("malformed lines of family `{family}` changed {eff:?}"), 0));
    }
    Ok(json!({
        "violations": viol.iter().map(|(s, w, i)| json!([s, w, i])).collect::<Vec<_>>(),
        "sent": sent, "error_replies": error_replies, "dropped": dropped,
    }))
}

// =================================================================================================
// Part F — worker, replay, driver
// =================================================================================================

const RECYCLE_AFTER_SERVERS: usize = 1500;

fn exec_case(case: &Value) -> Value {
    let r: Result<Value, String> = match case["kind"].as_str() {
        Some("x1") => run_group(case).map(|(v, obs)| {
            json!({
                "violations": v.iter().map(|(s, w)| json!([s, w])).collect::<Vec<_>>(),
                "obs": obs.iter().map(Obs::to_json).collect::<Vec<_>>(),
            })
        }),
        Some("x2") => run_history(case),
        Some("cred") => run_cred(case),
        Some("gate") => run_gate(case),
        Some("sock") => run_sock(case),
        Some("null") => {
            // calibration: no request at all — the probes must not differ
            let cfg = Cfg::from_json(&case["cfg"]);
            build_env(cfg, &scratch_base(case), false).map(|mut env| {
                let a = env.probe(false);
                let b = env.probe(true);
                json!({"diff": diff_keys(&a, &b), "creds": env.creds.keys().cloned().collect::<Vec<_>>(), "alarm": env.alarm_id.is_some(), "ttl": env.token_ttl})
            })
        }
        other => Err(format!("unknown case kind {other:?}")),
    };
    match r {
        Ok(v) => v,
        Err(e) => json!({"machinery": e}),
    }
}

pub fn worker_case(case: &Value) -> Value {
    static ONCE: std::sync::Once = std::sync::Once::new();
    ONCE.call_once(install_panic_recorder);
    let v = exec_case(case);
    if SERVERS_STARTED.load(Ordering::Relaxed) >= RECYCLE_AFTER_SERVERS {
        // every ControlServer leaves an accept thread behind: start over in a new process
        iso::reply_and_exit(v);
    }
    v
}

pub fn workers() -> Vec<(&'static str, iso::WorkerFn)> {
    vec![("c18_case", worker_case as iso::WorkerFn)]
}

pub fn check_case(case: &Value) -> Vec<Violation> {
    install_panic_recorder();
    let v = exec_case(case);
    let mut out = Vec::new();
    if let Some(m) = v["machinery"].as_str() {
        eprintln!("C18 replay: machinery problem: {m}");
        return out;
    }
    for x in v["violations"].as_array().cloned().unwrap_or_default() {
        out.push(Violation {
            signature: x[0].as_str().unwrap_or("C18/?").to_string(),
            what: x[1].as_str().unwrap_or("").to_string(),
            case: case.clone(),
        });
    }
    out.sort_by(|a, b| a.signature.cmp(&b.signature));
    out.dedup_by(|a, b| a.signature == b.signature);
    if case["dir"].as_str().map(|d| !Path::new(d).is_dir()).unwrap_or(true) {
        let _ = std::fs::remove_dir_all(scratch_base(case));
    }
    out
}

fn reply_class(o: &Value) -> &'static str {
    if o["ok"].as_bool() == Some(true) {
        return "ok";
    }
    match o["error"].as_str() {
        Some("unauthorized") => "unauthorized",
        Some(e) if e.starts_with("forbidden") => "forbidden",
        Some("debug disabled") => "debug disabled",
        Some("unsupported request") => "unsupported request",
        Some(_) => "handler error",
        None => "no reply",
    }
}

/// Everything before the last `/segment` (the request name) of an X1 signature.
fn sig_prefix(sig: &str) -> &str {
    sig.rsplit_once('/').map(|(p, _)| p).unwrap_or(sig)
}

pub fn run(ctx: &Ctx) -> EngineResult {
    quiet_panics();
    let mut rep = Report::new("exploration");
    let thorough = ctx.tier == Tier::Thorough;
    let deadline = Instant::now() + Duration::from_secs(ctx.tier.pick(38, 840));
    let table = scan_sources(&ctx.repo_dir).map_err(Machinery)?;
    let names = table.all_names();
    let missing_in_table: Vec<String> = table.dispatch.keys().filter(|k| !table.roles.contains_key(*k)).cloned().collect();
    let undispatched: Vec<String> = table.roles.keys().filter(|k| !table.dispatch.contains_key(*k)).cloned().collect();
    rep.set("request_names_from_source", names.len() as u64);
    rep.set("dispatched_names", table.dispatch.len() as u64);
    rep.set("permission_table_entries", table.roles.len() as u64);
    rep.set("permission_table_default_role", role_name(table.default_role));
    rep.set("dispatched_but_not_in_permission_table", json!(missing_in_table));
    rep.set("in_permission_table_but_not_dispatched", json!(undispatched));
    let debug_class: Vec<String> = names.iter().filter(|n| table.debug_class(n)).cloned().collect();
    rep.set("debug_class_names", json!(debug_class));
    let gate_diff: Vec<String> = debug_class.iter().filter(|n| !table.debug_gate.contains(*n)).cloned().collect();
    rep.set("debug_class_names_missing_in_is_debug_request", json!(gate_diff));

    // scratch: tmpfs if possible (the pairing store fsyncs on every change)
    let work = ctx.work_dir();
    let shm = PathBuf::from(format!("/dev/shm/tv-c18-{}", std::process::id()));
    let fast = if std::fs::create_dir_all(&shm).is_ok() { shm.clone() } else { work.join("x1") };
    let _ = std::fs::create_dir_all(&fast);
    let sock_dir = work.join("sock");
    std::fs::create_dir_all(&sock_dir).map_err(|e| Machinery(format!("mkdir {sock_dir:?}: {e}")))?;
    struct Cleanup(PathBuf);
    impl Drop for Cleanup {
        fn drop(&mut self) {
            let _ = std::fs::remove_dir_all(&self.0);
        }
    }
    let _cleanup = Cleanup(shm.clone());
    let fast_s = fast.to_string_lossy().to_string();

    let pool = iso::PoolCfg {
        worker: "c18_case",
        procs: ctx.threads,
        rlimit_as: 0,
        per_case: Duration::from_secs(120),
        deadline: Some(deadline),
        env: vec![],
        stack: 8 << 20,
    };
    let mut exhaustive = true;

    // ---- configurations -------------------------------------------------------------------------
    let mut cfgs_debugmode = Vec::new();
    let mut cfgs_production = Vec::new();
    for token in [true, false] {
        for debug in [true, false] {
            for pairing in [true, false] {
                cfgs_debugmode.push(Cfg { token, debug, pairing, production: false });
                cfgs_production.push(Cfg { token, debug, pairing, production: true });
            }
        }
    }

    // ---- calibration: probes are stable when nothing is requested ---------------------------------
    let all_cfgs: Vec<Cfg> = cfgs_debugmode.iter().chain(cfgs_production.iter()).copied().collect();
    let cal: Vec<Value> = all_cfgs.iter().map(|c| json!({"kind":"null","dir":fast_s,"cfg":c.to_json()})).collect();
    let cal_out = iso::run_pool(&iso::PoolCfg { deadline: None, ..clone_pool(&pool) }, &cal).map_err(Machinery)?;
    let mut admin_pairing_available = true;
    for (c, o) in all_cfgs.iter().zip(cal_out) {
        match o {
            Some(iso::Outcome::Ok(v)) => {
                if let Some(m) = v["machinery"].as_str() {
                    return machinery(format!("cannot build the endpoint [{}]: {m}", c.label()));
                }
                let d = v["diff"].as_array().cloned().unwrap_or_default();
                if !d.is_empty() {
                    return machinery(format!("probes are unstable without any request [{}]: {d:?}", c.label()));
                }
                if c.pairing {
                    let creds: Vec<&str> = v["creds"].as_array().map(|a| a.iter().filter_map(Value::as_str).collect()).unwrap_or_default();
                    for need in ["pair:viewer", "pair:operator", "pair:engineer", "revoked", "expired"] {
                        if !creds.contains(&need) {
                            return machinery(format!("credential {need} could not be constructed"));
                        }
                    }
                    if !creds.contains(&"pair:admin") {
                        admin_pairing_available = false;
                    }
                    if v["alarm"].as_bool() != Some(true) {
                        return machinery("no HMI alarm could be raised on the fresh endpoint (hmi.alarm.ack would be vacuous)");
                    }
                }
            }
            other => return machinery(format!("calibration case failed [{}]: {other:?}", c.label())),
        }
    }
    if !admin_pairing_available {
        rep.assume("an admin-role pairing token could not be loaded from a hand-written pairing file; that credential is not enumerated");
    }

    // ---- X2: pairing sub-protocol -------------------------------------------------------------------
    let req: Map<String, Value> = ["pair.start", "pair.claim", "pair.revoke", "pair.list", "status", "restart", "io.write"]
        .iter()
        .map(|t| {
            let r = match table.required(t).0 {
                RoleSpec::Lit(r) | RoleSpec::Dyn(r) => r,
            };
            (t.to_string(), json!(r))
        })
        .collect();
    let nodl_pool = iso::PoolCfg { deadline: None, ..clone_pool(&pool) };
    // passes: (name, legacy menu, depth). Quick: the full menu to depth 4. Thorough: the full menu to
    // depth 5 and the original menu (no same-second events, no boundary ticks; every event one
    // second after the previous one) to depth 6, as before the menu was extended.
    let passes: Vec<(&str, bool, usize)> = if thorough { vec![("full", false, 5), ("legacy-menu", true, 6)] } else { vec![("full", false, 4)] };
    let max_depth = passes[0].2;
    let x2_pool = iso::PoolCfg { deadline: Some(Instant::now() + Duration::from_secs(ctx.tier.pick(25, 420))), ..clone_pool(&pool) };
    let mk = |h: &Vec<Value>| json!({"kind":"x2","dir":fast_s,"history":h,"req":req});
    let mut states = 0u64;
    let mut transitions = 0u64;
    let mut x2_requests = 0u64;
    let mut x2_accepted = 0u64;
    let mut x2_refused = 0u64;
    let mut x2_steps_refused = 0u64;
    let mut x2_unexpected = 0u64;
    let mut depth_completed_full = 0usize;
    let mut x2_shared_id_states = 0u64;
    let mut x2_shared_id_claims = 0u64;
    let mut x2_revoked_shared = 0u64;
    let mut x2_at_instant = 0u64;
    let mut x2_past_by_one = 0u64;
    let mut x2_reload_valid = 0u64;
    let mut x2_reload_invalid = 0u64;
    let mut pass_reports: Vec<Value> = Vec::new();
    let mut sample_hist: Vec<Value> = Vec::new();
    let mut x2_capped: Option<String> = None;
    for (pass_name, legacy, pass_depth) in &passes {
        let mut seen: BTreeSet<String> = BTreeSet::new();
        let mut frontier: Vec<(Vec<Value>, usize, bool)>;
        let mut frontier_sizes = Vec::new();
        let mut depth_completed = 0usize;
        let mut level: Vec<Vec<Value>> = vec![Vec::new()];
        for depth in 0..=*pass_depth {
            let lc: Vec<Value> = level.iter().map(&mk).collect();
            let outs = iso::run_pool(&x2_pool, &lc).map_err(Machinery)?;
            let mut next_frontier = Vec::new();
            let mut complete = true;
            for ((h, case), o) in level.iter().zip(lc.iter()).zip(outs) {
                match o {
                    None => complete = false,
                    Some(iso::Outcome::Ok(v)) => {
                        if let Some(m) = v["machinery"].as_str() {
                            return machinery(format!("X2 history failed to build: {m}"));
                        }
                        if depth > 0 {
                            transitions += 1;
                        }
                        x2_requests += v["requests"].as_u64().unwrap_or(0);
                        x2_accepted += v["accepted"].as_u64().unwrap_or(0);
                        x2_refused += v["refused"].as_u64().unwrap_or(0);
                        x2_steps_refused += v["steps_refused"].as_u64().unwrap_or(0);
                        x2_unexpected += v["unexpected_refusals"].as_u64().unwrap_or(0);
                        x2_shared_id_claims += v["shared_id_claims"].as_u64().unwrap_or(0);
                        x2_shared_id_states += (v["shared_ids"].as_u64().unwrap_or(0) > 0) as u64;
                        x2_revoked_shared += (v["revoked_shared"].as_u64().unwrap_or(0) > 0) as u64;
                        x2_at_instant += (v["at_instant"].as_u64().unwrap_or(0) > 0) as u64;
                        x2_past_by_one += (v["past_by_one"].as_u64().unwrap_or(0) > 0) as u64;
                        x2_reload_valid += v["reload_valid"].as_u64().unwrap_or(0);
                        x2_reload_invalid += v["reload_invalid"].as_u64().unwrap_or(0);
                        for x in v["violations"].as_array().cloned().unwrap_or_default() {
                            rep.violation(Violation { signature: x[0].as_str().unwrap_or("C18/pairing/?").to_string(), what: x[1].as_str().unwrap_or("").to_string(), case: case.clone() });
                        }
                        let key = v["key"].as_str().unwrap_or("").to_string();
                        if seen.insert(key) {
                            states += 1;
                            if depth >= 2 && sample_hist.len() < 2 {
                                sample_hist.push(json!({"family":"x2","history":h,"state":v["key"]}));
                            }
                            next_frontier.push((h.clone(), v["n_tokens"].as_u64().unwrap_or(0) as usize, v["pending"].as_bool().unwrap_or(false)));
                        }
                    }
                    Some(iso::Outcome::Panic(m)) => return machinery(format!("engine worker panicked in X2: {m}")),
                    Some(iso::Outcome::Died(m)) => rep.violation(Violation { signature: "C18/pairing/process-died".into(), what: format!("endpoint process died during a pairing history: {}", clip(&m, 200)), case: case.clone() }),
                    Some(iso::Outcome::Timeout) => rep.violation(Violation { signature: "C18/pairing/hang".into(), what: "pairing history did not finish within 120 s".into(), case: case.clone() }),
                }
            }
            frontier_sizes.push(next_frontier.len());
            if !complete {
                x2_capped = Some(format!("pass `{pass_name}`, depth {depth}"));
                break;
            }
            depth_completed = depth;
            frontier = next_frontier;
            if depth == *pass_depth || frontier.is_empty() {
                break;
            }
            level = Vec::new();
            for (h, n, pending) in &frontier {
                for ev in pairing_events(*n, *pending, thorough, *legacy) {
                    let mut nh = h.clone();
                    nh.push(ev);
                    level.push(nh);
                }
            }
        }
        if !*legacy {
            depth_completed_full = depth_completed;
        }
        pass_reports.push(json!({"pass": pass_name, "max_depth": pass_depth, "depth_completed": depth_completed, "frontier_sizes": frontier_sizes, "distinct_states": seen.len()}));
        eprintln!("[C18] X2 pass `{pass_name}` done at {:.1}s", ctx.elapsed());
        if x2_capped.is_some() {
            break;
        }
    }
    if let Some(at) = &x2_capped {
        exhaustive = false;
        rep.cap(format!("X2 pairing search: wall cap reached in {at}"));
    } else if states < 10 || x2_accepted == 0 || x2_refused == 0 {
        return machinery(format!("pairing search vacuous: {states} states, {x2_accepted} accepted / {x2_refused} refused probes"));
    } else if x2_shared_id_states == 0 || x2_revoked_shared == 0 {
        return machinery(format!("pairing search vacuous: {x2_shared_id_states} histories with two tokens under one listing id, {x2_revoked_shared} with a revoked shared id (same-second claims are not reached)"));
    } else if x2_reload_valid == 0 || x2_reload_invalid == 0 {
        return machinery(format!("pairing search vacuous: re-loaded stores validated {x2_reload_valid} tokens and rejected {x2_reload_invalid}"));
    } else if x2_at_instant == 0 || x2_past_by_one == 0 {
        return machinery(format!("pairing search vacuous: {x2_at_instant} histories probe a token at its expiry instant, {x2_past_by_one} one second later"));
    }
    for s in sample_hist {
        rep.sample(s);
    }
    rep.set("pairing_states", states);
    rep.set("pairing_transitions", transitions);
    rep.set("pairing_depth_completed", depth_completed_full as u64);
    rep.set("pairing_traces_validated_against_impl", transitions + 1);
    rep.set("pairing_passes", json!(pass_reports));
    rep.set("pairing_requests", x2_requests);
    rep.set("pairing_level_probes_accepted", x2_accepted);
    rep.set("pairing_level_probes_refused", x2_refused);
    rep.set("pairing_protocol_steps_refused", x2_steps_refused);
    rep.set("pairing_steps_refused_although_model_allows", x2_unexpected);
    rep.set("pairing_claims_that_share_a_listing_id", x2_shared_id_claims);
    rep.set("pairing_histories_with_shared_listing_id", x2_shared_id_states);
    rep.set("pairing_histories_with_revoked_shared_id", x2_revoked_shared);
    rep.set("pairing_histories_probing_a_token_at_its_expiry_instant", x2_at_instant);
    rep.set("pairing_histories_probing_a_token_one_second_after_expiry", x2_past_by_one);
    rep.set("pairing_tokens_valid_in_reloaded_store", x2_reload_valid);
    rep.set("pairing_tokens_invalid_in_reloaded_store", x2_reload_invalid);

    // ---- credential strings: secret x mutation -----------------------------------------------------------
    let mut cred_cases: Vec<Value> = Vec::new();
    let mk_cred = |cfg: Cfg, pre: Option<&str>, rest: Value| -> Value {
        let mut c = json!({"kind":"cred","dir":fast_s,"cfg":cfg.to_json(),"req":req});
        if let Some(p) = pre {
            c["pre"] = json!(p);
        }
        if let Value::Object(o) = rest {
            for (k, v) in o {
                c[k.as_str()] = v;
            }
        }
        c
    };
    let muts = mutation_names(thorough);
    // simplest first: exact, then the shortest strings
    for pairing in [true, false] {
        let cfg = Cfg { token: true, debug: true, pairing, production: false };
        for m in &muts {
            for sname in CRED_SECRETS {
                if !pairing && sname != "admin" {
                    continue;
                }
                if sname == "pair:admin" && !admin_pairing_available {
                    continue;
                }
                if m == "empty" && sname != "admin" {
                    continue; // one empty string per configuration
                }
                cred_cases.push(mk_cred(cfg, None, json!({"secret": sname, "mutation": m})));
            }
        }
        for (n, j) in [("json:null", Value::Null), ("json:true", json!(true)), ("json:number", json!(0)), ("json:array", json!([])), ("json:object", json!({}))] {
            cred_cases.push(mk_cred(cfg, None, json!({"auth_json": j, "mutation": n})));
        }
    }
    {
        // after the admin rotated the auth token: the old string is no credential any more
        let cfg = Cfg { token: true, debug: true, pairing: true, production: false };
        for m in &muts {
            for sname in ["admin", "admin-old"] {
                if m == "empty" && sname != "admin" {
                    continue;
                }
                cred_cases.push(mk_cred(cfg, Some("rotate"), json!({"secret": sname, "mutation": m})));
            }
        }
    }
    let couts = iso::run_pool(&nodl_pool, &cred_cases).map_err(Machinery)?;
    let mut cred_run = 0u64;
    let mut cred_skipped = 0u64;
    let mut cred_requests = 0u64;
    let mut cred_refused = 0u64;
    let mut cred_classes: BTreeMap<String, u64> = BTreeMap::new();
    for (case, o) in cred_cases.iter().zip(couts) {
        match o {
            Some(iso::Outcome::Ok(v)) => {
                if let Some(m) = v["machinery"].as_str() {
                    return machinery(format!("credential-string case failed to build: {m} ({})", clip(&case.to_string(), 200)));
                }
                if v.get("skipped").is_some() {
                    cred_skipped += 1;
                    continue;
                }
                cred_run += 1;
                cred_requests += v["accepted"].as_u64().unwrap_or(0) + v["refused"].as_u64().unwrap_or(0);
                cred_refused += v["refused"].as_u64().unwrap_or(0);
                *cred_classes.entry(v["class"].as_str().unwrap_or("?").to_string()).or_insert(0) += 1;
                if !v["expected_role"].is_null() && v["status_ok"].as_bool() != Some(true) {
                    // non-vacuity: the exact string of a valid secret must work, otherwise the
                    // refusals of its mutations prove nothing
                    return machinery(format!("credential-string family vacuous: the exact valid secret `{}` was refused for `status` ({})", case["secret"].as_str().unwrap_or("?"), clip(&case.to_string(), 200)));
                }
                for x in v["violations"].as_array().cloned().unwrap_or_default() {
                    let mut c = case.clone();
                    c["dir"] = json!("");
                    rep.violation(Violation { signature: x[0].as_str().unwrap_or("C18/cred/?").to_string(), what: x[1].as_str().unwrap_or("").to_string(), case: c });
                }
            }
            Some(iso::Outcome::Died(m)) => rep.violation(Violation { signature: "C18/cred/process-died".into(), what: format!("the process hosting the endpoint died on a credential-string case: {}", clip(&m, 200)), case: case.clone() }),
            Some(iso::Outcome::Timeout) => rep.violation(Violation { signature: "C18/cred/hang".into(), what: "credential-string case did not finish within 120 s".into(), case: case.clone() }),
            other => return machinery(format!("credential-string case: {other:?}")),
        }
    }
    for need in ["admin-token/exact", "any-secret/empty", "admin-token/proper-prefix", "admin-token/proper-extension", "admin-token/same-length-different", "admin-token/case-changed",
        "pairing-token/exact", "pairing-token/proper-prefix", "pairing-token/proper-extension", "pairing-token/same-length-different", "pairing-token/case-changed",
        "rotated-out-admin-token/exact", "revoked-pairing-token/exact", "non-string-auth/non-string"] {
        if cred_classes.get(need).copied().unwrap_or(0) == 0 {
            return machinery(format!("credential-string family vacuous: no case of class {need} was executed"));
        }
    }
    if cred_refused == 0 {
        return machinery("credential-string family vacuous: nothing was refused");
    }
    eprintln!("[C18] credential strings done at {:.1}s ({cred_run} cases)", ctx.elapsed());
    rep.set("cred_string_cases", cred_run);
    rep.set("cred_string_cases_not_applicable", cred_skipped);
    rep.set("cred_string_requests", cred_requests);
    rep.set("cred_string_requests_refused", cred_refused);
    rep.set("cred_string_classes", json!(cred_classes));
    if let Some(c) = cred_cases.iter().find(|c| c["mutation"] == "prefix:all-but-last" && c["secret"] == "pair:engineer") {
        rep.sample(json!({"family":"cred","secret":c["secret"],"mutation":c["mutation"],"cfg":c["cfg"]}));
    }

    // ---- role gate vs handler: re-spelled role-deciding strings ---------------------------------------------
    let gate_cfg = Cfg { token: true, debug: true, pairing: true, production: false };
    let mut gate_cases: Vec<Value> = Vec::new();
    let mut gate_keys: Vec<String> = Vec::new();
    let mut gate_unobservable: Vec<String> = Vec::new();
    for (ty, info) in &table.dynamic {
        if ty != "config.set" {
            // the forms below put the role-deciding string into a params KEY; another shape needs its own forms
            return machinery(format!("request type `{ty}` has a content-dependent role (strings {:?}) but the engine has no re-spelling forms for it", info.strings));
        }
        let mk_gate = |members: String, cred: &str, extra: Value| -> Value {
            let mut c = json!({"kind":"gate","dir":fast_s,"cfg":gate_cfg.to_json(),"type":ty,"cred":cred,"members_raw":members,"lo":info.lo});
            if let Value::Object(o) = extra {
                for (k, v) in o {
                    c[k.as_str()] = v;
                }
            }
            c
        };
        // calibration: what does the ADMIN change with the canonical key (minus what an empty request changes)
        let mut cal: Vec<(Option<(String, Value)>, Value)> = vec![(None, mk_gate("\"params\":{}".into(), "admin", json!({})))];
        for key in &info.strings {
            for v in gate_values(key) {
                cal.push((Some((key.clone(), v.clone())), mk_gate(format!("\"params\":{{{}:{}}}", jstr(key), v), "admin", json!({}))));
            }
        }
        let cal_cases: Vec<Value> = cal.iter().map(|c| c.1.clone()).collect();
        let cal_out = iso::run_pool(&nodl_pool, &cal_cases).map_err(Machinery)?;
        let mut e0: BTreeSet<String> = BTreeSet::new();
        e0.insert("settings".into()); // the aggregate rendering; the leaves tell which setting changed
        let mut chosen: BTreeMap<String, (Value, Vec<String>)> = BTreeMap::new();
        for ((what, _), o) in cal.iter().zip(cal_out) {
            let v = match o {
                Some(iso::Outcome::Ok(v)) => v,
                other => return machinery(format!("role-gate calibration failed: {other:?}")),
            };
            if let Some(m) = v["machinery"].as_str() {
                return machinery(format!("role-gate calibration case failed to build: {m}"));
            }
            let eff: Vec<String> = v["effects"].as_array().map(|a| a.iter().filter_map(|x| x.as_str().map(str::to_string)).collect()).unwrap_or_default();
            match what {
                None => {
                    if v["ok"].as_bool() != Some(true) {
                        return machinery(format!("role-gate calibration: the admin's empty `{ty}` was refused: {:?}", v["error"]));
                    }
                    e0.extend(eff);
                }
                Some((key, val)) => {
                    let d: Vec<String> = eff.into_iter().filter(|f| !e0.contains(f)).collect();
                    if !d.is_empty() && !chosen.contains_key(key) {
                        chosen.insert(key.clone(), (val.clone(), d));
                    }
                }
            }
        }
        let mut fields = Map::new();
        for key in &info.strings {
            match chosen.get(key) {
                Some((_, d)) => {
                    fields.insert(key.clone(), json!({"role": info.hi, "fields": d}));
                }
                None if key.contains('.') && !key.contains(' ') => {
                    return machinery(format!("probe blind: the admin's canonical `{ty}` {{{key}: …}} shows no effect of its own for any candidate value (add a value to gate_values)"));
                }
                None => gate_unobservable.push(key.clone()),
            }
        }
        let fields = Value::Object(fields);
        for key in &info.strings {
            let Some((val, _)) = chosen.get(key) else { continue };
            gate_keys.push(format!("{ty}:{key}"));
            for (spelling, class, members) in gate_forms(key, val, thorough) {
                for cred in GATE_CREDS {
                    gate_cases.push(mk_gate(members.clone(), cred, json!({"key": key, "spelling": spelling, "class": class, "fields": fields})));
                }
            }
        }
    }
    let gouts = iso::run_pool(&nodl_pool, &gate_cases).map_err(Machinery)?;
    let mut gate_run = 0u64;
    let mut gate_with_effect = 0u64;
    let mut gate_forbidden = 0u64;
    let mut gate_admin_touched = 0u64;
    let mut gate_respelled_rejected = 0u64;
    let mut gate_classes: BTreeMap<String, u64> = BTreeMap::new();
    let mut gate_outcomes: BTreeMap<String, u64> = BTreeMap::new();
    let mut gate_viol: Vec<Violation> = Vec::new();
    for (case, o) in gate_cases.iter().zip(gouts) {
        match o {
            Some(iso::Outcome::Ok(v)) => {
                if let Some(m) = v["machinery"].as_str() {
                    return machinery(format!("role-gate case failed to build: {m} ({})", clip(&case.to_string(), 200)));
                }
                if v.get("skipped").is_some() {
                    continue;
                }
                gate_run += 1;
                let class = case["class"].as_str().unwrap_or("?");
                *gate_classes.entry(class.to_string()).or_insert(0) += 1;
                let has_eff = v["effects"].as_array().map(|a| !a.is_empty()).unwrap_or(false);
                let touched = v["touched"].as_array().map(|a| !a.is_empty()).unwrap_or(false);
                gate_with_effect += has_eff as u64;
                let err = v["error"].as_str().unwrap_or("");
                let outcome = if v["ok"].as_bool() == Some(true) {
                    "ok"
                } else if err.starts_with("forbidden") {
                    "forbidden"
                } else if err.starts_with("unknown config key") {
                    "unknown key"
                } else {
                    "other error"
                };
                *gate_outcomes.entry(format!("{}/{outcome}", role_name(v["role"].as_u64().unwrap_or(0) as u8))).or_insert(0) += 1;
                if class == "canonical" && case["cred"] == "pair:engineer" && outcome == "forbidden" {
                    gate_forbidden += 1;
                }
                if class == "canonical" && case["cred"] == "admin" && touched {
                    gate_admin_touched += 1;
                }
                if class != "canonical" && case["cred"] == "admin" && !has_eff {
                    gate_respelled_rejected += 1;
                }
                for x in v["violations"].as_array().cloned().unwrap_or_default() {
                    let mut c = case.clone();
                    c["dir"] = json!("");
                    gate_viol.push(Violation { signature: x[0].as_str().unwrap_or("C18/role-gate/?").to_string(), what: x[1].as_str().unwrap_or("").to_string(), case: c });
                }
            }
            Some(iso::Outcome::Died(m)) => rep.violation(Violation { signature: "C18/role-gate/process-died".into(), what: format!("the process hosting the endpoint died on a re-spelled request: {}", clip(&m, 200)), case: case.clone() }),
            Some(iso::Outcome::Timeout) => rep.violation(Violation { signature: "C18/role-gate/hang".into(), what: "re-spelled request did not finish within 120 s".into(), case: case.clone() }),
            other => return machinery(format!("role-gate case: {other:?}")),
        }
    }
    // collapse a systemic cause: the same spelling class opens more than two role-deciding keys of a
    // request type for the same role -> one signature `<type>:*many` (a defect of a single key keeps its key)
    {
        let split = |sig: &str| -> Option<(String, String, String)> {
            // C18/role-gate-bypass/<type>:<key>/<class>/<role>
            let rest = sig.strip_prefix("C18/role-gate-bypass/")?;
            let mut it = rest.rsplitn(3, '/');
            let role = it.next()?;
            let class = it.next()?;
            let tk = it.next()?;
            let (ty, key) = tk.split_once(':')?;
            Some((format!("{ty}|{class}|{role}"), key.to_string(), ty.to_string()))
        };
        let mut by_group: BTreeMap<String, BTreeSet<String>> = BTreeMap::new();
        for v in &gate_viol {
            if let Some((g, key, _)) = split(&v.signature) {
                if key != "*" {
                    by_group.entry(g).or_default().insert(key);
                }
            }
        }
        for mut v in gate_viol {
            if let Some((g, key, ty)) = split(&v.signature) {
                if let Some(keys) = by_group.get(&g).filter(|k| k.len() > 2 && key != "*") {
                    let mut parts = g.split('|');
                    let (_, class, role) = (parts.next(), parts.next().unwrap_or("?"), parts.next().unwrap_or("?"));
                    v.signature = format!("C18/role-gate-bypass/{ty}:*many/{class}/{role}");
                    v.what = format!("{} role-deciding keys of `{ty}` are open to this spelling class ({:?}); first case: {}", keys.len(), keys, v.what);
                }
            }
            rep.violation(v);
        }
    }
    if !table.dynamic.is_empty() {
        if gate_forbidden == 0 || gate_admin_touched == 0 {
            return machinery(format!("role-gate family vacuous: canonical admin-only keys were refused for the engineer {gate_forbidden} times and applied for the admin {gate_admin_touched} times"));
        }
        if gate_run < 100 {
            return machinery(format!("role-gate family vacuous: only {gate_run} cases"));
        }
    }
    eprintln!("[C18] role gate vs handler done at {:.1}s ({gate_run} cases)", ctx.elapsed());
    rep.set("gate_content_dependent_types", json!(table.dynamic.iter().map(|(k, v)| (k.clone(), json!({"strings": v.strings, "lowest_role": role_name(v.lo), "highest_role": role_name(v.hi)}))).collect::<Map<String, Value>>()));
    rep.set("gate_keys_exercised", json!(gate_keys));
    rep.set("gate_strings_without_observable_effect", json!(gate_unobservable));
    rep.set("gate_cases", gate_run);
    rep.set("gate_cases_with_effect", gate_with_effect);
    rep.set("gate_respelled_without_effect_for_admin", gate_respelled_rejected);
    rep.set("gate_spelling_classes", json!(gate_classes));
    rep.set("gate_outcomes_by_role", json!(gate_outcomes));
    if let Some(c) = gate_cases.iter().find(|c| c["spelling"] == "case:capitalised" && c["cred"] == "pair:engineer") {
        rep.sample(json!({"family":"gate","type":c["type"],"members_raw":c["members_raw"],"cred":c["cred"],"fields":c["fields"]}));
    }

    // ---- malformed lines on a real long-lived connection ---------------------------------------------
    let sock_s = sock_dir.to_string_lossy().to_string();
    let sc: Vec<Value> = SOCK_FAMILIES.iter().map(|f| json!({"kind":"sock","dir":sock_s,"family":f})).collect();
    let souts = iso::run_pool(&iso::PoolCfg { deadline: None, ..clone_pool(&pool) }, &sc).map_err(Machinery)?;
    let mut sent = 0u64;
    let mut err_replies = 0u64;
    let mut dropped = 0u64;
    for (case, o) in sc.iter().zip(souts) {
        let fam = case["family"].as_str().unwrap_or("");
        match o {
            Some(iso::Outcome::Ok(v)) => {
                if let Some(m) = v["machinery"].as_str() {
                    return machinery(format!("malformed family {fam} failed to build: {m}"));
                }
                sent += v["sent"].as_u64().unwrap_or(0);
                err_replies += v["error_replies"].as_u64().unwrap_or(0);
                dropped += v["dropped"].as_u64().unwrap_or(0);
                for x in v["violations"].as_array().cloned().unwrap_or_default() {
                    let mut c = case.clone();
                    c["only"] = x[2].clone();
                    c["dir"] = json!("");
                    rep.violation(Violation { signature: x[0].as_str().unwrap_or("C18/malformed/?").to_string(), what: x[1].as_str().unwrap_or("").to_string(), case: c });
                }
            }
            Some(iso::Outcome::Died(m)) => rep.violation(Violation { signature: format!("C18/malformed/process-died/{fam}"), what: format!("the process hosting the endpoint died on malformed family {fam}: {}", clip(&m, 200)), case: case.clone() }),
            Some(iso::Outcome::Timeout) => rep.violation(Violation { signature: format!("C18/malformed/hang/{fam}"), what: format!("malformed family {fam} did not finish within 120 s"), case: case.clone() }),
            other => return machinery(format!("malformed family {fam}: {other:?}")),
        }
    }
    if err_replies < 50 {
        return machinery(format!("malformed family vacuous: only {err_replies} error replies"));
    }
    eprintln!("[C18] malformed lines done at {:.1}s", ctx.elapsed());
    rep.set("malformed_lines_sent", sent);
    rep.set("malformed_error_replies", err_replies);
    rep.set("malformed_connections_dropped", dropped);
    rep.sample(json!({"family":"sock","line":"{\"id\":7,\"type\":\"sta"}));

    // ---- X1 case list, simplest first ---------------------------------------------------------------
    let prod_types_quick = ["pause", "resume", "status"];
    let garble_bases: Vec<String> = if thorough {
        names.clone()
    } else {
        ["io.write", "restart", "shutdown", "pause", "config.set", "status", "pair.start", "set"].iter().map(|s| s.to_string()).filter(|s| names.contains(s)).collect()
    };
    // (type, base type whose params are used, is_known)
    let mut types: Vec<(String, String, bool)> = names.iter().map(|n| (n.clone(), n.clone(), true)).collect();
    let mut seen_types: BTreeSet<String> = names.iter().cloned().collect();
    for special in ["", " ", "*", "_", "does.not.exist", "null", "io", "io.", ".write", "status\n", "io.write\r\n", "İO.WRITE", "io．write"] {
        if seen_types.insert(special.to_string()) {
            types.push((special.to_string(), "io.write".to_string(), false));
        }
    }
    for b in &garble_bases {
        for g in garbled(b) {
            if seen_types.insert(g.clone()) {
                types.push((g, b.clone(), false));
            }
        }
    }
    let mut extended_types: BTreeSet<String> = BTreeSet::new();
    for b in &garble_bases {
        for g in garbled_extended(b) {
            if seen_types.insert(g.clone()) {
                extended_types.insert(g.clone());
                types.push((g, b.clone(), false));
            }
        }
    }
    // configurations for the extended re-spellings: fully configured endpoint (thorough: also no auth token)
    let extended_cfgs: Vec<Cfg> = if thorough {
        vec![Cfg { token: true, debug: true, pairing: true, production: false }, Cfg { token: false, debug: true, pairing: true, production: false }]
    } else {
        vec![Cfg { token: true, debug: true, pairing: true, production: false }]
    };
    let mut cases: Vec<Value> = Vec::new();
    for (ty, base_ty, known) in &types {
        let (spec, _explicit) = table.required(ty);
        let required = match spec {
            RoleSpec::Lit(r) => json!({"lit": r}),
            RoleSpec::Dyn(r) => json!({"dyn": r}),
        };
        let mut menu = params_menu(base_ty, thorough && *known, &table);
        if !*known {
            // unknown name: absent, {}, and the params that make the base request effective
            menu.retain(|(n, _)| n == "absent" || n == "min" || (thorough && n == "empty"));
        }
        for (pname, params) in &menu {
            let cfg_list: Vec<Cfg> = if extended_types.contains(ty) {
                extended_cfgs.clone()
            } else if thorough || prod_types_quick.contains(&ty.as_str()) {
                all_cfgs.clone()
            } else {
                cfgs_debugmode.clone()
            };
            for c in cfg_list {
                let creds: Vec<&str> = if c.pairing {
                    CRED_ORDER.to_vec()
                } else {
                    vec!["none", "wrong", "admin", "pair:engineer"]
                };
                cases.push(json!({
                    "kind": "x1", "dir": fast_s, "cfg": c.to_json(), "type": ty, "known": known,
                    "params_name": pname, "params": params.clone().unwrap_or_else(|| json!({"$absent": true})),
                    "required": required, "debug_class": table.debug_class(ty), "creds": creds,
                }));
            }
        }
    }
    // most informative first (matters only when the wall cap stops the enumeration): effective
    // params on the fully configured endpoint, then other params, then other configurations,
    // then unknown names
    let has_min = |c: &Value| !minimal_params(c["type"].as_str().unwrap_or("")).is_empty();
    let prio = |c: &Value| -> u8 {
        let full = c["cfg"]["token"] == true && c["cfg"]["pairing"] == true;
        let key_params = c["params_name"] == "min" || (c["params_name"] == "absent" && !has_min(c));
        match (c["known"] == true, full, key_params) {
            (true, true, true) => 0,
            (true, true, false) => 1,
            (true, false, true) => 2,
            (true, false, false) => 3,
            (false, true, _) => 4,
            (false, false, _) => 5,
        }
    };
    cases.sort_by_key(prio);
    rep.set("x1_request_types", types.len() as u64);
    rep.set("x1_unknown_or_garbled_types", types.iter().filter(|t| !t.2).count() as u64);
    rep.set("x1_groups_planned", cases.len() as u64);
    eprintln!("[C18] {} request types ({} from source), {} groups planned", types.len(), names.len(), cases.len());

    let outs = iso::run_pool(&pool, &cases).map_err(Machinery)?;
    eprintln!("[C18] X1 done at {:.1}s", ctx.elapsed());
    let mut x1_viol: Vec<(Violation, String)> = Vec::new(); // (violation, type label)
    let mut groups_done = 0u64;
    let mut requests = 0u64;
    let mut nontrivial = 0u64;
    let mut classes: BTreeMap<String, u64> = BTreeMap::new();
    let mut effect_types: BTreeMap<String, BTreeSet<String>> = BTreeMap::new();
    let mut effect_seen: BTreeSet<(String, bool, bool)> = BTreeSet::new(); // (type, pairing, production) admin effect
    let mut outcomes: BTreeSet<String> = BTreeSet::new();
    let mut viewer_reads_ok = 0u64;
    let mut debug_refused = 0u64;
    for (case, o) in cases.iter().zip(outs) {
        let ty = case["type"].as_str().unwrap_or("").to_string();
        let tl = type_label(&ty);
        match o {
            None => {
                exhaustive = false;
                continue;
            }
            Some(iso::Outcome::Ok(v)) => {
                if let Some(m) = v["machinery"].as_str() {
                    return machinery(format!("X1 group failed to build: {m}"));
                }
                groups_done += 1;
                let cfg = Cfg::from_json(&case["cfg"]);
                let obs = v["obs"].as_array().cloned().unwrap_or_default();
                let mut any_perf = false;
                let mut any_ref = false;
                for ob in &obs {
                    requests += 1;
                    let cl = reply_class(ob);
                    *classes.entry(cl.to_string()).or_insert(0) += 1;
                    let eff: Vec<String> = ob["effects"].as_array().map(|a| a.iter().filter_map(|x| x.as_str().map(str::to_string)).collect()).unwrap_or_default();
                    let perf = ob["ok"].as_bool() == Some(true) || !eff.is_empty();
                    any_perf |= perf;
                    any_ref |= !perf;
                    if !eff.is_empty() {
                        effect_types.entry(ty.clone()).or_default().extend(eff.iter().map(|k| k.split(':').next().unwrap_or(k).to_string()));
                        if ob["cred"].as_str() == Some("admin") {
                            effect_seen.insert((ty.clone(), cfg.pairing, cfg.production));
                        }
                    }
                    if ob["cred"].as_str() == Some("pair:viewer") && ob["ok"].as_bool() == Some(true) {
                        viewer_reads_ok += 1;
                    }
                    if cl == "debug disabled" {
                        debug_refused += 1;
                    }
                    outcomes.insert(format!("{cl}/{}", !eff.is_empty()));
                }
                if any_perf && any_ref {
                    nontrivial += 1;
                }
                for x in v["violations"].as_array().cloned().unwrap_or_default() {
                    x1_viol.push((
                        Violation { signature: x[0].as_str().unwrap_or("C18/?").to_string(), what: x[1].as_str().unwrap_or("").to_string(), case: case.clone() },
                        tl.clone(),
                    ));
                }
            }
            Some(iso::Outcome::Panic(m)) => return machinery(format!("engine worker panicked on {}: {m}", clip(&case.to_string(), 200))),
            Some(iso::Outcome::Died(m)) => x1_viol.push((
                Violation { signature: format!("C18/process-died/{tl}"), what: format!("the process hosting the endpoint died while serving `{tl}`: {}", clip(&m, 200)), case: case.clone() },
                tl.clone(),
            )),
            Some(iso::Outcome::Timeout) => x1_viol.push((
                Violation { signature: format!("C18/hang/{tl}"), what: format!("no result within 120 s for request `{tl}` (9 requests on fresh endpoints)"), case: case.clone() },
                tl.clone(),
            )),
        }
    }
    if !exhaustive {
        rep.cap(format!("X1: wall cap reached after {groups_done} of {} groups", cases.len()));
    }
    // collapse systemic causes: one (clause, credential class) violated by more than 8 request names
    let mut by_prefix: BTreeMap<String, BTreeSet<String>> = BTreeMap::new();
    for (v, tl) in &x1_viol {
        by_prefix.entry(sig_prefix(&v.signature).to_string()).or_default().insert(tl.clone());
    }
    for (mut v, _tl) in x1_viol {
        let p = sig_prefix(&v.signature).to_string();
        let set = &by_prefix[&p];
        if set.len() > 8 {
            let list: Vec<&String> = set.iter().take(12).collect();
            v.what = format!("{} request names violate this clause (first: {list:?}); first case: {}", set.len(), v.what);
            v.signature = format!("{p}/*many");
        }
        rep.violation(v);
    }
    // non-vacuity of the probes
    if exhaustive {
        for (ty, need_pairing, need_prod) in EXPECT_EFFECT {
            if !names.iter().any(|n| n == ty) {
                continue;
            }
            let seen = effect_seen.iter().any(|(t, p, pr)| t == ty && (!need_pairing || *p) && (!need_prod || *pr));
            if !seen {
                return machinery(format!("probe blind: request `{ty}` sent by an admin with effective params showed no effect in any configuration"));
            }
        }
        if viewer_reads_ok == 0 {
            return machinery("no read request succeeded for the viewer credential (X1 vacuous)");
        }
        if debug_refused == 0 {
            return machinery("no request was refused with `debug disabled` (debug gate family vacuous)");
        }
    }
    rep.set("x1_groups", groups_done);
    rep.set("x1_requests_on_fresh_endpoints", requests);
    rep.set("x1_reply_classes", json!(classes));
    rep.set("x1_distinct_outcomes", outcomes.len() as u64);
    rep.set("x1_types_with_effect", json!(effect_types.iter().map(|(k, v)| (type_label(k), json!(v))).collect::<Map<String, Value>>()));
    rep.set("x1_viewer_reads_ok", viewer_reads_ok);
    rep.set("x1_debug_disabled_refusals", debug_refused);
    if let Some(c) = cases.iter().find(|c| c["type"] == "io.write" && c["params_name"] == "min") {
        rep.sample(json!({"family":"x1","type":c["type"],"params":c["params"],"cfg":c["cfg"],"creds":c["creds"]}));
    }
    if let Some(c) = cases.iter().find(|c| c["known"] == false && c["params_name"] == "min") {
        rep.sample(json!({"family":"x1","type":c["type"],"params":c["params"],"cfg":c["cfg"]}));
    }

    rep.set("evaluations", requests + x2_requests + sent + cred_requests + gate_run);
    rep.set("distinct_nontrivial", nontrivial);
    rep.set("rule", "X1: every request name matched in control/handlers/*.rs, required_role_for_control_request and is_debug_request of the CURRENT source (plus unknown/garbled variants) x per-type params menu {absent, {}, effective params, wrong JSON types, non-object params; thorough: every single-field deletion/type flip/null and every config key x 6 value shapes} x endpoint configuration {auth token set/unset} x {debug on/off} x {pairing store present/absent} x {control mode debug/production (quick: production only for pause/resume/status)} x credential {none, wrong, admin token, pairing token of viewer/operator/engineer/admin, revoked, expired}; each request is ONE line sent over a unix socket to a real ControlServer serving a freshly built ControlState, with state probes before/after. distinct_nontrivial = number of (configuration, type, params) groups in which at least one credential was performed (ok reply or observable effect) AND at least one was refused, i.e. the gate discriminated. X2: BFS by replay over {pair.start, pair.claim(role,code), admin pairs a token (start+claim) in the next or in the SAME second as the previous event, pair.revoke by id (also in the same second) / all, clock ticks: past code expiry, past token expiry, to one second before / one second after the reported expiry of the earliest valid token, one second after the reported expiry of the pending code} with a reference model of valid credentials (tokens that share a listing id are revoked together; at the expiry instant both outcomes are accepted); in every state every credential (admin token, never-issued string, pending code, every issued token, the listing id of the first token) is tried at four role levels, the endpoint's listing is compared with what it served, and a store re-loaded from pairing.json is asked about every token. Credential strings: for every configured secret (admin token; pairing token of viewer/operator/engineer/admin; revoked and expired pairing token; admin token after / before a rotation by config.set) x {exact, empty, first byte, first half, all but last byte, all but first byte, last 4 bytes, +1 byte, +NUL, 1 byte+, doubled, first/middle/last byte changed, upper/lower/swapped case; thorough: every proper prefix length and every single-byte change} and for auth = null/true/0/[]/{}: status, restart, io.write, pair.list, config.set{control.auth_token} on one fresh endpoint with full state probes; only the exact string of a valid secret may be served. Role gate vs handler: for every permission-table arm whose role is computed from the params (taken from the source: config.set, role-deciding strings = the admin-only keys compared in required_role_for_config_set) x {canonical, other letter case, ASCII and Unicode blanks / tab / newline, NUL / BOM / zero-width / soft hyphen, Kelvin sign / dotless i / capital I with dot / long s / full-width letter / full-width dot, other separators, nested object instead of dotted key, wrapper members, array-shaped and string-shaped params, duplicate params / key members; thorough: mixed forms} x credential {pairing viewer, operator, engineer; admin token}: one raw request on a fresh endpoint with full state probes (settings probed per leaf); a calibration run (admin, canonical key) measures which probe fields each admin-only setting changes, and a request that changes one of these fields must come from a credential with the role the table demands for that setting, however the key was spelled. X1 additionally sends invisible-character / Unicode look-alike re-spellings of request names on the fully configured endpoint. Malformed: every byte truncation of three valid request lines, 45 garbage lines, 8 oversized/deeply nested lines on one long-lived connection.");
    rep.set("exhaustive", exhaustive);
    rep.set("tier_bounds", json!({"pairing_depth": max_depth, "garbled_bases": garble_bases.len(), "configurations": if thorough { 16 } else { 8 }}));
    rep.assume("with no auth token configured, credentials other than a valid pairing token are treated as local trusted access (the statement does not constrain them)");
    rep.assume("a valid pairing token maps to its own role also when no auth token is configured");
    rep.assume("effects are judged on the probed fields only (see the list of ignored fields at the top of c18.rs); historian is absent, so historian.* only produce error replies");
    Ok(rep)
}

fn clone_pool(p: &iso::PoolCfg) -> iso::PoolCfg {
    iso::PoolCfg { worker: p.worker, procs: p.procs, rlimit_as: p.rlimit_as, per_case: p.per_case, deadline: p.deadline, env: p.env.clone(), stack: p.stack }
}
