//! Typed AST of the ST core and its printer.

use serde::{Deserialize, Serialize};
use std::fmt::Write;

#[derive(Clone, Copy, Debug, PartialEq, Eq, Hash, PartialOrd, Ord, Serialize, Deserialize)]
pub enum Ty {
    Bool,
    SInt,
    Int,
    DInt,
    LInt,
    USInt,
    UInt,
    UDInt,
    ULInt,
    Real,
    LReal,
    Byte,
    Word,
    DWord,
    LWord,
    Time,
}

pub const SIGNED: [Ty; 4] = [Ty::SInt, Ty::Int, Ty::DInt, Ty::LInt];
pub const UNSIGNED: [Ty; 4] = [Ty::USInt, Ty::UInt, Ty::UDInt, Ty::ULInt];
pub const INTS: [Ty; 8] = [Ty::SInt, Ty::Int, Ty::DInt, Ty::LInt, Ty::USInt, Ty::UInt, Ty::UDInt, Ty::ULInt];
pub const BITS: [Ty; 4] = [Ty::Byte, Ty::Word, Ty::DWord, Ty::LWord];

impl Ty {
    pub fn name(self) -> &'static str {
        match self {
            Ty::Bool => "BOOL",
            Ty::SInt => "SINT",
            Ty::Int => "INT",
            Ty::DInt => "DINT",
            Ty::LInt => "LINT",
            Ty::USInt => "USINT",
            Ty::UInt => "UINT",
            Ty::UDInt => "UDINT",
            Ty::ULInt => "ULINT",
            Ty::Real => "REAL",
            Ty::LReal => "LREAL",
            Ty::Byte => "BYTE",
            Ty::Word => "WORD",
            Ty::DWord => "DWORD",
            Ty::LWord => "LWORD",
            Ty::Time => "TIME",
        }
    }
    /// Name of the `Value` variant the runtime uses for this type (as printed by `{:?}`).
    pub fn tag(self) -> &'static str {
        match self {
            Ty::Bool => "Bool",
            Ty::SInt => "SInt",
            Ty::Int => "Int",
            Ty::DInt => "DInt",
            Ty::LInt => "LInt",
            Ty::USInt => "USInt",
            Ty::UInt => "UInt",
            Ty::UDInt => "UDInt",
            Ty::ULInt => "ULInt",
            Ty::Real => "Real",
            Ty::LReal => "LReal",
            Ty::Byte => "Byte",
            Ty::Word => "Word",
            Ty::DWord => "DWord",
            Ty::LWord => "LWord",
            Ty::Time => "Time",
        }
    }
    pub fn is_signed(self) -> bool {
        SIGNED.contains(&self)
    }
    pub fn is_unsigned(self) -> bool {
        UNSIGNED.contains(&self)
    }
    pub fn is_int(self) -> bool {
        self.is_signed() || self.is_unsigned()
    }
    pub fn is_real(self) -> bool {
        matches!(self, Ty::Real | Ty::LReal)
    }
    pub fn is_bits(self) -> bool {
        BITS.contains(&self)
    }
    pub fn bits(self) -> u32 {
        match self {
            Ty::Bool => 1,
            Ty::SInt | Ty::USInt | Ty::Byte => 8,
            Ty::Int | Ty::UInt | Ty::Word => 16,
            Ty::DInt | Ty::UDInt | Ty::DWord | Ty::Real => 32,
            Ty::LInt | Ty::ULInt | Ty::LWord | Ty::LReal | Ty::Time => 64,
        }
    }
    pub fn min(self) -> i128 {
        if self.is_signed() {
            -(1i128 << (self.bits() - 1))
        } else {
            0
        }
    }
    pub fn max(self) -> i128 {
        if self.is_signed() {
            (1i128 << (self.bits() - 1)) - 1
        } else {
            (1i128 << self.bits()) - 1
        }
    }
    pub fn in_range(self, v: i128) -> bool {
        v >= self.min() && v <= self.max()
    }
    /// rank within its promotion chain
    pub fn rank(self) -> u32 {
        self.bits()
    }
}

/// A scalar value of the reference semantics.
#[derive(Clone, Copy, Debug, Serialize, Deserialize)]
pub enum V {
    B(bool),
    I(Ty, i128),
    R(f32),
    L(f64),
    Bits(Ty, u64),
    /// TIME in nanoseconds
    T(i64),
}

impl PartialEq for V {
    fn eq(&self, o: &V) -> bool {
        match (self, o) {
            (V::B(a), V::B(b)) => a == b,
            (V::I(t, a), V::I(u, b)) => t == u && a == b,
            (V::R(a), V::R(b)) => a.to_bits() == b.to_bits(),
            (V::L(a), V::L(b)) => a.to_bits() == b.to_bits(),
            (V::Bits(t, a), V::Bits(u, b)) => t == u && a == b,
            (V::T(a), V::T(b)) => a == b,
            _ => false,
        }
    }
}

impl V {
    pub fn ty(&self) -> Ty {
        match self {
            V::B(_) => Ty::Bool,
            V::I(t, _) => *t,
            V::R(_) => Ty::Real,
            V::L(_) => Ty::LReal,
            V::Bits(t, _) => *t,
            V::T(_) => Ty::Time,
        }
    }
    pub fn zero(t: Ty) -> V {
        match t {
            Ty::Bool => V::B(false),
            Ty::Real => V::R(0.0),
            Ty::LReal => V::L(0.0),
            Ty::Time => V::T(0),
            t if t.is_bits() => V::Bits(t, 0),
            t => V::I(t, 0),
        }
    }
    /// Rendering identical to `dump::dump_storage`'s leaf rendering of the runtime value that
    /// represents this reference value.
    pub fn render(&self) -> String {
        match self {
            V::B(b) => format!("Bool({b})"),
            V::I(t, v) => format!("{}({v})", t.tag()),
            V::R(f) => format!("Real({:?}/{:#x})", f, f.to_bits()),
            V::L(f) => format!("LReal({:?}/{:#x})", f, f.to_bits()),
            V::Bits(t, v) => format!("{}({v})", t.tag()),
            V::T(ns) => format!("Time(Duration {{ nanos: {ns} }})"),
        }
    }
    /// Typed literal text.
    pub fn typed_lit(&self) -> String {
        match self {
            V::B(b) => if *b { "TRUE".into() } else { "FALSE".into() },
            V::I(t, v) => format!("{}#{v}", t.name()),
            V::R(f) => format!("REAL#{}", real_text(*f as f64)),
            V::L(f) => format!("LREAL#{}", real_text(*f)),
            V::Bits(t, v) => format!("{}#16#{v:X}", t.name()),
            V::T(ns) => format!("T#{}ms", ns / 1_000_000),
        }
    }
    /// Untyped literal text (ints and reals only).
    pub fn untyped_lit(&self) -> String {
        match self {
            V::I(_, v) => format!("{v}"),
            V::R(f) => real_text(*f as f64),
            V::L(f) => real_text(*f),
            other => other.typed_lit(),
        }
    }
}

fn real_text(f: f64) -> String {
    let s = format!("{f:?}");
    if s.contains('.') || s.contains('e') || s.contains("inf") || s.contains("NaN") {
        if s.contains('e') && !s.contains('.') {
            // 1e10 -> 1.0e10
            let (m, e) = s.split_once('e').unwrap();
            format!("{m}.0e{e}")
        } else {
            s
        }
    } else {
        format!("{s}.0")
    }
}

#[derive(Clone, Copy, Debug, PartialEq, Eq, Hash, Serialize, Deserialize)]
pub enum Op {
    Add,
    Sub,
    Mul,
    Div,
    Mod,
    Eq,
    Ne,
    Lt,
    Le,
    Gt,
    Ge,
    And,
    Or,
    Xor,
}

impl Op {
    pub fn text(self) -> &'static str {
        match self {
            Op::Add => "+",
            Op::Sub => "-",
            Op::Mul => "*",
            Op::Div => "/",
            Op::Mod => "MOD",
            Op::Eq => "=",
            Op::Ne => "<>",
            Op::Lt => "<",
            Op::Le => "<=",
            Op::Gt => ">",
            Op::Ge => ">=",
            Op::And => "AND",
            Op::Or => "OR",
            Op::Xor => "XOR",
        }
    }
    pub fn name(self) -> &'static str {
        match self {
            Op::Add => "Add",
            Op::Sub => "Sub",
            Op::Mul => "Mul",
            Op::Div => "Div",
            Op::Mod => "Mod",
            Op::Eq => "Eq",
            Op::Ne => "Ne",
            Op::Lt => "Lt",
            Op::Le => "Le",
            Op::Gt => "Gt",
            Op::Ge => "Ge",
            Op::And => "And",
            Op::Or => "Or",
            Op::Xor => "Xor",
        }
    }
    pub fn is_arith(self) -> bool {
        matches!(self, Op::Add | Op::Sub | Op::Mul | Op::Div | Op::Mod)
    }
    pub fn is_cmp(self) -> bool {
        matches!(self, Op::Eq | Op::Ne | Op::Lt | Op::Le | Op::Gt | Op::Ge)
    }
    pub fn is_logic(self) -> bool {
        matches!(self, Op::And | Op::Or | Op::Xor)
    }
    /// IEC Table 71 precedence level (higher binds tighter).
    pub fn prec(self) -> u8 {
        match self {
            Op::Mul | Op::Div | Op::Mod => 6,
            Op::Add | Op::Sub => 5,
            Op::Lt | Op::Gt | Op::Le | Op::Ge | Op::Eq | Op::Ne => 4,
            Op::And => 3,
            Op::Xor => 2,
            Op::Or => 1,
        }
    }
}

pub const ARITH: [Op; 5] = [Op::Add, Op::Sub, Op::Mul, Op::Div, Op::Mod];
pub const CMP: [Op; 6] = [Op::Eq, Op::Ne, Op::Lt, Op::Le, Op::Gt, Op::Ge];
pub const LOGIC: [Op; 3] = [Op::And, Op::Or, Op::Xor];

#[derive(Clone, Debug, PartialEq, Serialize, Deserialize)]
pub enum E {
    /// literal; `typed` = printed with a type prefix
    Lit(V, bool),
    Var(String),
    Neg(Box<E>),
    Not(Box<E>),
    Bin(Op, Box<E>, Box<E>),
    /// printed without parentheses even when nested (used by the precedence family: the printer
    /// emits a flat token sequence and the reference tree is built by the generator)
    /// (tokens to print, reference tree per IEC Table 71 built by the generator)
    Flat(Vec<FlatTok>, Box<E>),
    Paren(Box<E>),
    Call(String, Vec<Arg>),
    Idx(String, Vec<E>),
    Fld(String, String),
}

#[derive(Clone, Debug, PartialEq, Serialize, Deserialize)]
pub enum FlatTok {
    Operand(E),
    Op(Op),
    Not,
    Neg,
}

#[derive(Clone, Debug, PartialEq, Serialize, Deserialize)]
pub enum Arg {
    Pos(E),
    /// name := expr
    In(String, E),
    /// name => variable
    Out(String, String),
}

#[derive(Clone, Debug, PartialEq, Serialize, Deserialize)]
pub enum LV {
    Var(String),
    Idx(String, Vec<E>),
    Fld(String, String),
}

#[derive(Clone, Debug, PartialEq, Serialize, Deserialize)]
pub enum Label {
    One(i128),
    Range(i128, i128),
}

#[derive(Clone, Debug, PartialEq, Serialize, Deserialize)]
pub enum S {
    Assign(LV, E),
    If(Vec<(E, Vec<S>)>, Option<Vec<S>>),
    Case(E, Vec<(Vec<Label>, Vec<S>)>, Option<Vec<S>>),
    For { var: String, from: E, to: E, by: Option<E>, body: Vec<S> },
    While(E, Vec<S>),
    Repeat(Vec<S>, E),
    Exit,
    Continue,
    Return,
    /// FB instance call: inst(in := e, ...)
    FbCall(String, Vec<Arg>),
    /// call of a function as a statement (result discarded)
    CallStmt(String, Vec<Arg>),
}

#[derive(Clone, Debug, PartialEq, Serialize, Deserialize)]
pub enum TyX {
    Elem(Ty),
    /// ARRAY[lo..hi] OF elem
    Arr(i64, i64, Ty),
    /// ARRAY[lo1..hi1, lo2..hi2] OF elem
    Arr2(i64, i64, i64, i64, Ty),
    /// user struct type (by name)
    Struct(String),
    /// FB instance (by FB type name)
    Fb(String),
}

#[derive(Clone, Debug, PartialEq, Serialize, Deserialize)]
pub struct Decl {
    pub name: String,
    pub ty: TyX,
    pub init: Option<V>,
}

impl Decl {
    pub fn new(name: &str, ty: Ty) -> Decl {
        Decl { name: name.into(), ty: TyX::Elem(ty), init: None }
    }
    pub fn init(name: &str, v: V) -> Decl {
        Decl { name: name.into(), ty: TyX::Elem(v.ty()), init: Some(v) }
    }
}

#[derive(Clone, Debug, PartialEq, Default, Serialize, Deserialize)]
pub struct Func {
    pub name: String,
    pub ret: Option<Ty>,
    pub inputs: Vec<Decl>,
    pub inouts: Vec<Decl>,
    pub outputs: Vec<Decl>,
    pub locals: Vec<Decl>,
    pub body: Vec<S>,
}

#[derive(Clone, Debug, PartialEq, Default, Serialize, Deserialize)]
pub struct FbDef {
    pub name: String,
    pub inputs: Vec<Decl>,
    pub outputs: Vec<Decl>,
    pub vars: Vec<Decl>,
    pub body: Vec<S>,
}

#[derive(Clone, Debug, PartialEq, Default, Serialize, Deserialize)]
pub struct StructDef {
    pub name: String,
    pub fields: Vec<(String, Ty)>,
}

#[derive(Clone, Debug, PartialEq, Default, Serialize, Deserialize)]
pub struct Prog {
    pub structs: Vec<StructDef>,
    pub funcs: Vec<Func>,
    pub fbs: Vec<FbDef>,
    pub globals: Vec<Decl>,
    pub vars: Vec<Decl>,
    pub body: Vec<S>,
    /// program variables located at direct input addresses: (variable, address such as `%IW0`)
    #[serde(default)]
    pub at: Vec<(String, String)>,
    /// input trace: per cycle, the values written into the input image before the cycle
    /// (variable name, value of the variable's declared type)
    #[serde(default)]
    pub inputs: Vec<Vec<(String, V)>>,
    /// execution budget per cycle in milliseconds for programs that are MEANT not to terminate
    /// (family F14): the expected outcome of every cycle is then the budget-timeout fault
    #[serde(default)]
    pub budget_ms: Option<u64>,
}

// ---------------------------------------------------------------------------------------------
// printer
// ---------------------------------------------------------------------------------------------

fn p_ty(t: &TyX) -> String {
    match t {
        TyX::Elem(t) => t.name().to_string(),
        TyX::Arr(lo, hi, t) => format!("ARRAY[{lo}..{hi}] OF {}", t.name()),
        TyX::Arr2(a, b, c, d, t) => format!("ARRAY[{a}..{b}, {c}..{d}] OF {}", t.name()),
        TyX::Struct(n) | TyX::Fb(n) => n.clone(),
    }
}

fn p_decls(out: &mut String, kw: &str, ds: &[Decl]) {
    if ds.is_empty() {
        return;
    }
    let _ = writeln!(out, "{kw}");
    for d in ds {
        match &d.init {
            Some(v) => {
                let _ = writeln!(out, "    {} : {} := {};", d.name, p_ty(&d.ty), v.typed_lit());
            }
            None => {
                let _ = writeln!(out, "    {} : {};", d.name, p_ty(&d.ty));
            }
        }
    }
    let _ = writeln!(out, "END_VAR");
}

pub fn p_expr(e: &E) -> String {
    match e {
        E::Lit(v, typed) => {
            if *typed {
                v.typed_lit()
            } else {
                v.untyped_lit()
            }
        }
        E::Var(n) => n.clone(),
        E::Neg(x) => format!("-({})", p_expr(x)),
        E::Not(x) => format!("NOT ({})", p_expr(x)),
        E::Bin(op, a, b) => format!("({}) {} ({})", p_expr(a), op.text(), p_expr(b)),
        E::Paren(x) => format!("({})", p_expr(x)),
        E::Flat(toks, _) => toks
            .iter()
            .map(|t| match t {
                FlatTok::Operand(e) => p_expr(e),
                FlatTok::Op(o) => o.text().to_string(),
                FlatTok::Not => "NOT".to_string(),
                FlatTok::Neg => "-".to_string(),
            })
            .collect::<Vec<_>>()
            .join(" "),
        E::Call(f, args) => format!("{f}({})", p_args(args)),
        E::Idx(a, idx) => format!("{a}[{}]", idx.iter().map(p_expr).collect::<Vec<_>>().join(", ")),
        E::Fld(a, f) => format!("{a}.{f}"),
    }
}

fn p_args(args: &[Arg]) -> String {
    args.iter()
        .map(|a| match a {
            Arg::Pos(e) => p_expr(e),
            Arg::In(n, e) => format!("{n} := {}", p_expr(e)),
            Arg::Out(n, v) => format!("{n} => {v}"),
        })
        .collect::<Vec<_>>()
        .join(", ")
}

fn p_lv(l: &LV) -> String {
    match l {
        LV::Var(n) => n.clone(),
        LV::Idx(a, idx) => format!("{a}[{}]", idx.iter().map(p_expr).collect::<Vec<_>>().join(", ")),
        LV::Fld(a, f) => format!("{a}.{f}"),
    }
}

fn p_label(l: &Label) -> String {
    match l {
        Label::One(v) => format!("{v}"),
        Label::Range(a, b) => format!("{a}..{b}"),
    }
}

pub fn p_stmts(out: &mut String, ss: &[S], ind: usize) {
    let pad = "    ".repeat(ind);
    for s in ss {
        match s {
            S::Assign(l, e) => {
                let _ = writeln!(out, "{pad}{} := {};", p_lv(l), p_expr(e));
            }
            S::If(arms, els) => {
                for (i, (c, b)) in arms.iter().enumerate() {
                    let kw = if i == 0 { "IF" } else { "ELSIF" };
                    let _ = writeln!(out, "{pad}{kw} {} THEN", p_expr(c));
                    p_stmts(out, b, ind + 1);
                }
                if let Some(b) = els {
                    let _ = writeln!(out, "{pad}ELSE");
                    p_stmts(out, b, ind + 1);
                }
                let _ = writeln!(out, "{pad}END_IF;");
            }
            S::Case(sel, arms, els) => {
                let _ = writeln!(out, "{pad}CASE {} OF", p_expr(sel));
                for (labels, b) in arms {
                    let _ = writeln!(out, "{pad}    {}:", labels.iter().map(p_label).collect::<Vec<_>>().join(", "));
                    p_stmts(out, b, ind + 2);
                }
                if let Some(b) = els {
                    let _ = writeln!(out, "{pad}ELSE");
                    p_stmts(out, b, ind + 2);
                }
                let _ = writeln!(out, "{pad}END_CASE;");
            }
            S::For { var, from, to, by, body } => {
                let by = by.as_ref().map(|b| format!(" BY {}", p_expr(b))).unwrap_or_default();
                let _ = writeln!(out, "{pad}FOR {var} := {} TO {}{by} DO", p_expr(from), p_expr(to));
                p_stmts(out, body, ind + 1);
                let _ = writeln!(out, "{pad}END_FOR;");
            }
            S::While(c, b) => {
                let _ = writeln!(out, "{pad}WHILE {} DO", p_expr(c));
                p_stmts(out, b, ind + 1);
                let _ = writeln!(out, "{pad}END_WHILE;");
            }
            S::Repeat(b, c) => {
                let _ = writeln!(out, "{pad}REPEAT");
                p_stmts(out, b, ind + 1);
                let _ = writeln!(out, "{pad}UNTIL {}", p_expr(c));
                let _ = writeln!(out, "{pad}END_REPEAT;");
            }
            S::Exit => {
                let _ = writeln!(out, "{pad}EXIT;");
            }
            S::Continue => {
                let _ = writeln!(out, "{pad}CONTINUE;");
            }
            S::Return => {
                let _ = writeln!(out, "{pad}RETURN;");
            }
            S::FbCall(inst, args) => {
                let _ = writeln!(out, "{pad}{inst}({});", p_args(args));
            }
            S::CallStmt(f, args) => {
                let _ = writeln!(out, "{pad}{f}({});", p_args(args));
            }
        }
    }
}

pub fn print(p: &Prog) -> String {
    let mut out = String::new();
    for s in &p.structs {
        let _ = writeln!(out, "TYPE {} :\nSTRUCT", s.name);
        for (f, t) in &s.fields {
            let _ = writeln!(out, "    {f} : {};", t.name());
        }
        let _ = writeln!(out, "END_STRUCT\nEND_TYPE\n");
    }
    for f in &p.funcs {
        match f.ret {
            Some(t) => {
                let _ = writeln!(out, "FUNCTION {} : {}", f.name, t.name());
            }
            None => {
                let _ = writeln!(out, "FUNCTION {}", f.name);
            }
        }
        p_decls(&mut out, "VAR_INPUT", &f.inputs);
        p_decls(&mut out, "VAR_IN_OUT", &f.inouts);
        p_decls(&mut out, "VAR_OUTPUT", &f.outputs);
        p_decls(&mut out, "VAR", &f.locals);
        p_stmts(&mut out, &f.body, 1);
        let _ = writeln!(out, "END_FUNCTION\n");
    }
    for f in &p.fbs {
        let _ = writeln!(out, "FUNCTION_BLOCK {}", f.name);
        p_decls(&mut out, "VAR_INPUT", &f.inputs);
        p_decls(&mut out, "VAR_OUTPUT", &f.outputs);
        p_decls(&mut out, "VAR", &f.vars);
        p_stmts(&mut out, &f.body, 1);
        let _ = writeln!(out, "END_FUNCTION_BLOCK\n");
    }
    let _ = writeln!(out, "PROGRAM Main");
    if p.at.is_empty() {
        p_decls(&mut out, "VAR", &p.vars);
    } else {
        let _ = writeln!(out, "VAR");
        for d in &p.vars {
            let at = p.at.iter().find(|(n, _)| n == &d.name).map(|(_, a)| format!(" AT {a}")).unwrap_or_default();
            match &d.init {
                Some(v) => {
                    let _ = writeln!(out, "    {}{at} : {} := {};", d.name, p_ty(&d.ty), v.typed_lit());
                }
                None => {
                    let _ = writeln!(out, "    {}{at} : {};", d.name, p_ty(&d.ty));
                }
            }
        }
        let _ = writeln!(out, "END_VAR");
    }
    p_stmts(&mut out, &p.body, 1);
    let _ = writeln!(out, "END_PROGRAM");
    out
}

// small constructors
pub fn var(n: &str) -> E {
    E::Var(n.into())
}
pub fn lit(v: V) -> E {
    E::Lit(v, true)
}
pub fn ulit(v: V) -> E {
    E::Lit(v, false)
}
pub fn bin(op: Op, a: E, b: E) -> E {
    E::Bin(op, Box::new(a), Box::new(b))
}
pub fn assign(n: &str, e: E) -> S {
    S::Assign(LV::Var(n.into()), e)
}
pub fn int(t: Ty, v: i128) -> V {
    V::I(t, v)
}
