//! F13: standard functions and non-core types (judged by C01 and C03, no reference values).
//!
//! Every case is a small hand-templated ST program text (`raw`) plus a `Prog` whose `vars` lists
//! the declarations of elementary type, so that C03 knows the declared tag of `Main.r`, `Main.a` …
//! Variables of types outside `ast::Ty` (STRING, WSTRING, DATE, TOD, DT, LTIME, enums, pointers)
//! are not listed (C03 ignores them; C01 still judges the program). Subrange and alias variables
//! are listed with their elementary base type (the declared type after alias/subrange resolution).
//!
//! The generator over-generates on purpose: every function is applied to every type of the type
//! universe (16 elementary types + LTIME, DATE, LDATE, TOD, LTOD, DT, LDT, STRING, WSTRING, CHAR,
//! WCHAR) and the COMPILER decides what is a case (a rejected program is not a case; about two
//! thirds of the generated programs are rejected, which costs a parse + check each). Nothing of
//! the checker's signature table is copied here except the choice of the declared type of the
//! result variable, which the checker validates (a wrong guess is a rejection, never a verdict).
//!
//! Groups (feature prefix), each enumerated completely, simplest first:
//!  1. `num:` / `sel:` / `mixed-sign:` ABS SQRT LN LOG EXP SIN COS TAN ASIN ACOS ATAN MOVE x type x
//!     boundary values (type min/max, -1, 0, 1; reals +-0.0, huge, tiny, NaN and infinities made
//!     from bit patterns); ADD SUB MUL DIV MOD EXPT ATAN2 MIN MAX and `**` on same-type value
//!     squares and on all 90 mixed numeric type pairs; 3/4-input forms; LIMIT (incl. MN > MX);
//!     SEL; MUX with selector type x {negative, 0.., out of range, type max/min}; formal calls.
//!  2. `shift:` / `bit:` SHL SHR ROL ROR x BOOL..LWORD x count type x {0, 1, w-1, w, w+1, 255,
//!     -1, type max/min, 2^32}; AND OR XOR NOT function forms (today rejected by the parser).
//!  3. `conv:` / `conv-arg:` / `bcd:` `<A>_TO_<B>` and `TO_<B>` for all 27 x 27 ordered pairs x
//!     boundary values of A (reals: one below/at/above every integer width, ties, beyond 2^64);
//!     TRUNC forms; a typed conversion whose argument is of a narrower type or an untyped
//!     literal; BCD conversions incl. invalid digits and too many digits.
//!  4. `string:` LEN LEFT RIGHT MID CONCAT INSERT DELETE REPLACE FIND x {'', 'a', 'abc', a string
//!     at its declared maximum, multi-byte characters} x lengths/positions {-1, 0, 1, 2, len,
//!     len+1, 32767} x STRING / STRING[2] targets, WSTRING variants, L/P of every integer type
//!     at its extremes, accumulation across cycles.
//!  5. `time:` the 18 named ADD_/SUB_ functions x time-type pairs, generic ADD SUB MUL DIV and the
//!     operators over time x (time | numeric), MUL_TIME/DIV_TIME/.. x factor types x values,
//!     CONCAT_DATE_TOD, CONCAT_DATE/TOD/LTOD/DT/LDT over component menus (one component at a
//!     time leaves its nominal value), SPLIT_* into output variables of several types, DAY_OF_WEEK.
//!  6. `cmp:` / `enum:` / `aggregate:` / `subrange:` GT GE EQ LE LT NE and the comparison
//!     operators on every type; enumerations assigned / compared / selected / in CASE;
//!     structures, arrays, instances and references through SEL MUX MOVE EQ; subranges and
//!     aliases of every integer type: initialisers, values leaving the range by assignment,
//!     arithmetic, function results, FOR, CASE; as arguments of standard functions.
//!  7. `ref:` REF(), NULL dereference (read, write, field, element, argument), references to
//!     variables / array elements / struct fields / FB members / FB instances, reference kept
//!     across cycles, reference to a VAR_TEMP or a function local after the call, assignment
//!     through `^` for every (target type, source type) pair (C03: the target keeps its tag).
//!  8. `call:` calls with an empty argument list (found on the way; belongs to the call families).
//! Standard function blocks are C04's business and are not here.
//!
//! Features are cause classes, never concrete values: function, operand type (type classes for
//! mixed pairs) and the most extreme value class of the operands. They are deliberately coarser
//! than the enumeration (one defect must not become hundreds of signatures, and C05 takes one
//! program per feature as its corpus slice); within a feature the simplest failing program is
//! the one reported.
//!
//! Not covered: the declared length of STRING[n] targets and the range of DATE/TOD/DT values
//! after the cycle (outside `ast::Ty`, so C03 cannot see them), values of the results (C02 is out
//! of scope), TIME operators `+ - * /` (the checker rejects them today: the cases exist and are
//! all rejected), typed literals above 2^63 (the lexer rejects them; such values are computed).

use super::ast::*;
use super::run::Case;

const FAM: &str = "F13";

pub const ELEM: [&str; 16] = [
    "BOOL", "SINT", "INT", "DINT", "LINT", "USINT", "UINT", "UDINT", "ULINT", "REAL", "LREAL", "BYTE", "WORD", "DWORD", "LWORD", "TIME",
];
const EXTRA: [&str; 11] = ["LTIME", "DATE", "LDATE", "TOD", "LTOD", "DT", "LDT", "STRING", "WSTRING", "CHAR", "WCHAR"];
/// the checker's (and the runtime's) widening order
const NUM: [&str; 10] = ["SINT", "INT", "DINT", "LINT", "USINT", "UINT", "UDINT", "ULINT", "REAL", "LREAL"];
const INTS: [&str; 8] = ["SINT", "INT", "DINT", "LINT", "USINT", "UINT", "UDINT", "ULINT"];
const BITS: [&str; 5] = ["BOOL", "BYTE", "WORD", "DWORD", "LWORD"];
const TIMES: [&str; 8] = ["TIME", "LTIME", "DATE", "LDATE", "TOD", "LTOD", "DT", "LDT"];

fn all_types() -> Vec<&'static str> {
    ELEM.iter().chain(EXTRA.iter()).copied().collect()
}

fn elem(name: &str) -> Option<Ty> {
    Some(match name {
        "BOOL" => Ty::Bool,
        "SINT" => Ty::SInt,
        "INT" => Ty::Int,
        "DINT" => Ty::DInt,
        "LINT" => Ty::LInt,
        "USINT" => Ty::USInt,
        "UINT" => Ty::UInt,
        "UDINT" => Ty::UDInt,
        "ULINT" => Ty::ULInt,
        "REAL" => Ty::Real,
        "LREAL" => Ty::LReal,
        "BYTE" => Ty::Byte,
        "WORD" => Ty::Word,
        "DWORD" => Ty::DWord,
        "LWORD" => Ty::LWord,
        "TIME" => Ty::Time,
        _ => return None,
    })
}

fn is_num(t: &str) -> bool {
    NUM.contains(&t)
}
fn is_int(t: &str) -> bool {
    INTS.contains(&t)
}
fn is_signed(t: &str) -> bool {
    matches!(t, "SINT" | "INT" | "DINT" | "LINT")
}
fn is_real(t: &str) -> bool {
    matches!(t, "REAL" | "LREAL")
}
fn is_time(t: &str) -> bool {
    TIMES.contains(&t)
}
fn width(t: &str) -> u32 {
    match t {
        "BOOL" => 1,
        "SINT" | "USINT" | "BYTE" => 8,
        "INT" | "UINT" | "WORD" => 16,
        "DINT" | "UDINT" | "DWORD" | "REAL" => 32,
        _ => 64,
    }
}
fn wider<'a>(order: &[&'a str], a: &'a str, b: &'a str) -> &'a str {
    let pa = order.iter().position(|x| *x == a).unwrap_or(0);
    let pb = order.iter().position(|x| *x == b).unwrap_or(0);
    order[pa.max(pb)]
}

fn type_class(t: &str) -> &'static str {
    match t {
        "BOOL" => "bool",
        "SINT" | "INT" | "DINT" | "LINT" => "sint",
        "USINT" | "UINT" | "UDINT" | "ULINT" => "uint",
        "REAL" | "LREAL" => "real",
        "BYTE" | "WORD" | "DWORD" | "LWORD" => "bits",
        "TIME" | "LTIME" => "duration",
        "DATE" | "LDATE" | "TOD" | "LTOD" | "DT" | "LDT" => "date",
        "STRING" | "WSTRING" => "string",
        _ => "char",
    }
}

/// sign class of a value class
fn sign(cls: &str) -> &'static str {
    match cls {
        "neg" | "min" | "neghuge" | "neginf" => "neg",
        "zero" | "negzero" | "false" | "epoch" | "empty" => "zero",
        "nan" => "nan",
        "inf" => "inf",
        _ => "pos",
    }
}

/// The most extreme of several value classes (one label per case instead of the product of the
/// operands' classes): nan > inf > overmax > min > max > neg > zero > everything else.
fn worst(classes: &[&str]) -> &'static str {
    let rank = |c: &str| -> (u8, &'static str) {
        match c {
            "nan" => (9, "nan"),
            "inf" | "neginf" => (8, "inf"),
            "overmax" => (7, "overmax"),
            "min" | "neghuge" => (6, "min"),
            "max" | "huge" | "ones" | "msb" => (5, "max"),
            "neg" => (4, "neg"),
            "zero" | "negzero" | "false" | "epoch" | "empty" => (3, "zero"),
            _ => (1, "nominal"),
        }
    };
    classes.iter().map(|c| rank(c)).max().map(|r| r.1).unwrap_or("nominal")
}

/// Cause-class feature of a two-operand case: function, operand type (type classes for mixed
/// pairs) and the most extreme value class. The full type-pair x value-pair product would turn
/// one defect into hundreds of signatures (and the corpus slice of C05, which takes one program
/// per feature, into tens of thousands of programs). A negative signed operand meeting an
/// unsigned operand is one cause class per function group.
fn bin_feature(sub: &str, f: &str, a: &str, b: &str, x: &Val, y: &Val) -> String {
    let (ca, cb) = (type_class(a), type_class(b));
    let group = match f {
        "ADD" | "SUB" | "MUL" | "DIV" | "MOD" => "arith",
        "POW" | "EXPT" | "ATAN2" => "pow",
        "MIN" | "MAX" | "LIMIT" | "SEL" | "MUX" => "select",
        _ => "compare",
    };
    if (ca == "sint" && cb == "uint" && sign(x.cls) == "neg") || (ca == "uint" && cb == "sint" && sign(y.cls) == "neg") {
        return format!("mixed-sign:{group}:negative-operand");
    }
    if f == "POW" && is_int(a) && is_int(b) && sign(y.cls) == "neg" {
        return "num:POW:integer:negative-exponent".to_string();
    }
    if sub == "cmp" {
        // the values of a comparison do not select code: function and types are the cause class
        return if a == b { format!("cmp:{f}:{a}") } else { format!("cmp:{f}:{ca},{cb}") };
    }
    let w = worst(&[x.cls, y.cls]);
    if a == b {
        format!("{sub}:{f}:{a}:{w}")
    } else {
        format!("{sub}:{f}:{ca},{cb}:{w}")
    }
}

/// A boundary value: literal (or computed expression), its cause class, whether it may be used
/// as a declaration initialiser (else it is assigned at the start of the body), quick slice flag.
#[derive(Clone)]
struct Val {
    text: String,
    cls: &'static str,
    init: bool,
    q: bool,
}

fn v(text: impl Into<String>, cls: &'static str, q: bool) -> Val {
    Val { text: text.into(), cls, init: true, q }
}
fn vc(text: impl Into<String>, cls: &'static str, q: bool) -> Val {
    Val { text: text.into(), cls, init: false, q }
}

/// Boundary values of a type, simplest first. Values that cannot be written as a literal
/// (LINT minimum, ULINT maximum, LWORD with bit 63, NaN, infinities) are computed.
fn vals(t: &str) -> Vec<Val> {
    if let Some(ty) = elem(t) {
        if ty.is_int() {
            let mut o = vec![v(format!("{t}#0"), "zero", true), v(format!("{t}#1"), "one", !ty.is_signed())];
            if ty.is_signed() {
                o.push(v(format!("{t}#-1"), "neg", true));
            }
            if t == "ULINT" {
                o.push(vc("ULINT#9223372036854775807 * ULINT#2 + ULINT#1", "max", true));
            } else {
                o.push(v(format!("{t}#{}", ty.max()), "max", true));
            }
            if t == "LINT" {
                o.push(vc("LINT#-9223372036854775807 - LINT#1", "min", true));
            } else if ty.is_signed() {
                o.push(v(format!("{t}#{}", ty.min()), "min", true));
            }
            return o;
        }
        if ty.is_bits() {
            let w = ty.bits();
            let mut o = vec![v(format!("{t}#16#0"), "zero", false), v(format!("{t}#16#1"), "one", true)];
            if w == 64 {
                o.push(vc("LINT_TO_LWORD(LINT#-1)", "ones", true));
                o.push(vc("LINT_TO_LWORD(LINT#-9223372036854775807 - LINT#1)", "msb", true));
            } else {
                o.push(v(format!("{t}#16#{:X}", (1u64 << w) - 1), "ones", true));
                o.push(v(format!("{t}#16#{:X}", 1u64 << (w - 1)), "msb", true));
            }
            return o;
        }
    }
    match t {
        "BOOL" => vec![v("FALSE", "false", true), v("TRUE", "true", true)],
        "REAL" => vec![
            v("REAL#0.0", "zero", true),
            v("REAL#-0.0", "negzero", false),
            v("REAL#1.0", "one", false),
            v("REAL#-1.0", "neg", true),
            v("REAL#0.5", "frac", false),
            v("REAL#2.5", "tie", false),
            v("REAL#3.0e38", "huge", true),
            v("REAL#-3.0e38", "neghuge", false),
            v("REAL#1.0e-38", "tiny", false),
            vc("DWORD_TO_REAL(DWORD#16#7FC00000)", "nan", true),
            vc("DWORD_TO_REAL(DWORD#16#7F800000)", "inf", true),
            vc("-DWORD_TO_REAL(DWORD#16#7F800000)", "neginf", false),
        ],
        "LREAL" => vec![
            v("LREAL#0.0", "zero", true),
            v("LREAL#-0.0", "negzero", false),
            v("LREAL#1.0", "one", false),
            v("LREAL#-1.0", "neg", true),
            v("LREAL#0.5", "frac", false),
            v("LREAL#2.5", "tie", false),
            v("LREAL#1.0e308", "huge", true),
            v("LREAL#-1.0e308", "neghuge", false),
            v("LREAL#1.0e-308", "tiny", false),
            vc("LWORD_TO_LREAL(LWORD#16#7FF8000000000000)", "nan", true),
            vc("LWORD_TO_LREAL(LWORD#16#7FF0000000000000)", "inf", true),
            vc("-LWORD_TO_LREAL(LWORD#16#7FF0000000000000)", "neginf", false),
        ],
        "TIME" => vec![
            v("T#0s", "zero", true),
            v("T#1ms", "one", false),
            v("T#-1ms", "neg", true),
            v("T#106751d23h47m16s854ms", "max", true),
            v("T#-106751d23h47m16s854ms", "min", true),
        ],
        "LTIME" => vec![
            v("LTIME#0s", "zero", true),
            v("LTIME#1ns", "one", false),
            v("LTIME#-1ns", "neg", true),
            v("LTIME#106751d23h47m16s854ms", "max", true),
            v("LTIME#-106751d23h47m16s854ms", "min", true),
        ],
        "DATE" => vec![
            v("D#1970-01-01", "epoch", true),
            v("D#2024-02-29", "leap", false),
            v("D#0001-01-01", "min", true),
            v("D#9999-12-31", "max", true),
        ],
        "LDATE" => vec![v("LDATE#1970-01-01", "epoch", true), v("LDATE#2024-02-29", "leap", false), v("LDATE#2262-04-11", "max", true)],
        "TOD" => vec![
            v("TOD#00:00:00", "zero", true),
            v("TOD#12:30:15.250", "mid", false),
            v("TOD#23:59:59.999", "max", true),
            v("TOD#24:00:00", "overmax", true),
        ],
        "LTOD" => vec![
            v("LTOD#00:00:00", "zero", true),
            v("LTOD#12:30:15.250", "mid", false),
            v("LTOD#23:59:59.999", "max", true),
            v("LTOD#24:00:00", "overmax", true),
        ],
        "DT" => vec![
            v("DT#1970-01-01-00:00:00", "epoch", true),
            v("DT#2024-02-29-12:30:15", "leap", false),
            v("DT#0001-01-01-00:00:00", "min", true),
            v("DT#9999-12-31-23:59:59", "max", true),
        ],
        "LDT" => vec![
            v("LDT#1970-01-01-00:00:00", "epoch", true),
            v("LDT#2024-02-29-12:30:15", "leap", false),
            v("LDT#2262-04-11-23:47:16", "max", true),
        ],
        "STRING" => vec![v("''", "empty", true), v("'a'", "one", false), v("'abc'", "ascii", true), v("'äö€'", "multibyte", true)],
        "WSTRING" => vec![v("\"\"", "empty", true), v("\"a\"", "one", false), v("\"abc\"", "ascii", true), v("\"äö€\"", "multibyte", true)],
        "CHAR" => vec![v("'a'", "ascii", true), v("'$00'", "nul", true), v("'$FF'", "high", true)],
        "WCHAR" => vec![v("\"a\"", "ascii", true), v("\"€\"", "wide", true)],
        _ => Vec::new(),
    }
}

/// The slice of `vals` used by the tier: quick = values flagged `q`, thorough = all.
fn tvals(t: &str, thorough: bool) -> Vec<Val> {
    vals(t).into_iter().filter(|x| thorough || x.q).collect()
}

/// Extreme pairs for mixed-type products in quick: (max,max) (min,min) (min,max) (max,min).
fn corner_pairs(a: &str, b: &str) -> Vec<(Val, Val)> {
    let pick = |t: &str| -> (Val, Val) {
        let vs = vals(t);
        let mx = vs.iter().find(|x| matches!(x.cls, "max" | "huge" | "ones" | "true")).cloned().unwrap_or_else(|| vs[vs.len() - 1].clone());
        let mn = vs
            .iter()
            .find(|x| matches!(x.cls, "min" | "neghuge"))
            .or_else(|| vs.iter().find(|x| matches!(x.cls, "neg")))
            .cloned()
            .unwrap_or_else(|| vs[0].clone());
        (mx, mn)
    };
    let (amx, amn) = pick(a);
    let (bmx, bmn) = pick(b);
    vec![(amx.clone(), bmx.clone()), (amn.clone(), bmn.clone()), (amn, bmx), (amx, bmn)]
}

/// One declaration of a generated program.
#[derive(Clone)]
struct D {
    name: String,
    ty: String,
    init: Option<String>,
    tag: Option<Ty>,
}

/// Program under construction.
#[derive(Default)]
struct P {
    types: String,
    pous: String,
    vars: Vec<D>,
    body: Vec<String>,
}

impl P {
    fn new() -> P {
        P::default()
    }
    /// variable of type `ty` (declared tag derived from the type name when elementary)
    fn var(&mut self, name: &str, ty: &str) -> &mut P {
        self.vars.push(D { name: name.into(), ty: ty.into(), init: None, tag: elem(ty) });
        self
    }
    /// variable whose declared elementary type (after alias/subrange resolution) is `tag`
    fn var_tag(&mut self, name: &str, ty: &str, tag: Option<Ty>, init: Option<&str>) -> &mut P {
        self.vars.push(D { name: name.into(), ty: ty.into(), init: init.map(str::to_string), tag });
        self
    }
    /// variable holding a boundary value (initialiser, or assignment at the start of the body)
    fn val(&mut self, name: &str, ty: &str, x: &Val) -> &mut P {
        if x.init {
            self.vars.push(D { name: name.into(), ty: ty.into(), init: Some(x.text.clone()), tag: elem(ty) });
        } else {
            self.vars.push(D { name: name.into(), ty: ty.into(), init: None, tag: elem(ty) });
            self.body.push(format!("{name} := {};", x.text));
        }
        self
    }
    fn stmt(&mut self, s: impl Into<String>) -> &mut P {
        self.body.push(s.into());
        self
    }
    fn case(&self, feature: String) -> Case {
        let mut t = String::new();
        t.push_str(&self.types);
        t.push_str(&self.pous);
        t.push_str("PROGRAM Main\nVAR\n");
        for d in &self.vars {
            match &d.init {
                Some(i) => t.push_str(&format!("    {} : {} := {};\n", d.name, d.ty, i)),
                None => t.push_str(&format!("    {} : {};\n", d.name, d.ty)),
            }
        }
        t.push_str("END_VAR\n");
        for s in &self.body {
            t.push_str("    ");
            t.push_str(s);
            t.push('\n');
        }
        t.push_str("END_PROGRAM\n");
        let vars: Vec<Decl> = self.vars.iter().filter_map(|d| d.tag.map(|ty| Decl::new(&d.name, ty))).collect();
        Case { family: FAM, feature, prog: Prog { vars, ..Default::default() }, cycles: 2, reference: false, raw: Some(t) }
    }
}

/// `r : rt; r := <call>;` over the given argument variables.
fn call_case(feature: String, args: &[(&str, &str, &Val)], rt: &str, call: &str) -> Case {
    let mut p = P::new();
    for (n, t, x) in args {
        p.val(n, t, x);
    }
    p.var("r", rt);
    p.stmt(format!("r := {call};"));
    p.case(feature)
}

// ---------------------------------------------------------------------------------------------
// 1. numeric functions
// ---------------------------------------------------------------------------------------------

const UNARY: [&str; 12] = ["ABS", "SQRT", "LN", "LOG", "EXP", "SIN", "COS", "TAN", "ASIN", "ACOS", "ATAN", "MOVE"];
const BINARY: [&str; 9] = ["ADD", "SUB", "MUL", "DIV", "MOD", "EXPT", "ATAN2", "MIN", "MAX"];

/// Candidate declared types of the result of a two-argument arithmetic/selection function: the
/// checker validates the choice (wrong candidates are rejected programs).
fn bin_result_candidates(f: &str, a: &'static str, b: &'static str) -> Vec<&'static str> {
    if is_num(a) && is_num(b) {
        return match f {
            "EXPT" | "POW" => vec![a],
            _ => vec![wider(&NUM, a, b)],
        };
    }
    if BITS.contains(&a) && BITS.contains(&b) {
        return vec![wider(&BITS, a, b)];
    }
    let mut o: Vec<&'static str> = Vec::new();
    for c in [a, b, "TIME", "LTIME"] {
        let keep = match c {
            "TIME" | "LTIME" => is_time(a) || is_time(b),
            x => !is_num(x) || !(is_time(a) || is_time(b)),
        };
        if keep && !o.contains(&c) {
            o.push(c);
        }
    }
    o
}

fn numeric(out: &mut Vec<Case>, thorough: bool) {
    // unary functions x every type x boundary values
    for f in UNARY {
        for t in all_types() {
            for x in tvals(t, thorough) {
                out.push(call_case(if f == "MOVE" { format!("num:MOVE:{t}") } else { format!("num:{f}:{t}:{}", worst(&[x.cls])) }, &[("a", t, &x)], t, &format!("{f}(a)")));
            }
        }
        // formal call and a call whose result is discarded
        for t in ["INT", "LREAL"] {
            let x = &vals(t)[0];
            out.push(call_case(format!("num:{f}:{t}:formal-call"), &[("a", t, x)], t, &format!("{f}(IN := a)")));
            let mut p = P::new();
            p.val("a", t, x).stmt(format!("{f}(a);"));
            out.push(p.case(format!("num:{f}:{t}:call-statement")));
        }
    }
    // binary functions and `**`: same type, every value pair
    let mut fs: Vec<&str> = BINARY.to_vec();
    fs.push("POW");
    for f in &fs {
        let call = |f: &str| if f == "POW" { "a ** b".to_string() } else { format!("{f}(a, b)") };
        for t in all_types() {
            // reals have 12 values: the square is thorough only
            let xs = tvals(t, thorough);
            for x in &xs {
                for y in &xs {
                    for rt in bin_result_candidates(f, t, t) {
                        out.push(call_case(bin_feature("num", f, t, t, x, y), &[("a", t, x), ("b", t, y)], rt, &call(f)));
                    }
                }
            }
        }
        // mixed numeric types
        for a in NUM {
            for b in NUM {
                if a == b {
                    continue;
                }
                let pairs: Vec<(Val, Val)> = if thorough {
                    let mut ps = Vec::new();
                    for x in tvals(a, false) {
                        for y in tvals(b, false) {
                            ps.push((x.clone(), y));
                        }
                    }
                    ps
                } else {
                    corner_pairs(a, b)
                };
                for (x, y) in pairs {
                    for rt in bin_result_candidates(f, a, b) {
                        out.push(call_case(bin_feature("num", f, a, b, &x, &y), &[("a", a, &x), ("b", b, &y)], rt, &call(f)));
                    }
                }
            }
        }
        if *f != "POW" {
            // formal call, reversed formal order
            let (x, y) = (&vals("DINT")[1], &vals("DINT")[1]);
            let names = if *f == "ATAN2" { ("Y", "X") } else { ("IN1", "IN2") };
            let t = if matches!(*f, "EXPT" | "ATAN2") { "LREAL" } else { "DINT" };
            let (x, y) = if t == "LREAL" { (&vals("LREAL")[2], &vals("LREAL")[2]) } else { (x, y) };
            out.push(call_case(format!("num:{f}:{t}:formal-call"), &[("a", t, x), ("b", t, y)], t, &format!("{f}({} := a, {} := b)", names.0, names.1)));
            out.push(call_case(format!("num:{f}:{t}:formal-call-reversed"), &[("a", t, x), ("b", t, y)], t, &format!("{f}({} := b, {} := a)", names.1, names.0)));
        }
    }
    // variadic forms with three and four inputs
    for f in ["ADD", "MUL", "MIN", "MAX"] {
        for t in NUM {
            for x in tvals(t, false) {
                out.push(call_case(format!("num:{f}:{t}x3:{}", worst(&[x.cls])), &[("a", t, &x), ("b", t, &x), ("c", t, &x)], t, &format!("{f}(a, b, c)")));
            }
        }
        let (x, y, z) = (&vals("SINT")[3], &vals("DINT")[3], &vals("LREAL")[2]);
        out.push(call_case(format!("num:{f}:SINT,DINT,LREAL:mixed"), &[("a", "SINT", x), ("b", "DINT", y), ("c", "LREAL", z)], "LREAL", &format!("{f}(a, b, c)")));
        out.push(call_case(format!("num:{f}:DINTx4:formal-call"), &[("a", "DINT", y)], "DINT", &format!("{f}(IN1 := a, IN2 := a, IN3 := a, IN4 := a)")));
    }
    // LIMIT(mn, in, mx): same type, every triple of the quick slice (incl. mn > mx); mixed
    for t in all_types() {
        let xs = tvals(t, false);
        for mn in &xs {
            for x in &xs {
                for mx in &xs {
                    out.push(call_case(format!("num:LIMIT:{t}:{}", worst(&[mn.cls, x.cls, mx.cls])), &[("a", t, mn), ("b", t, x), ("c", t, mx)], t, "LIMIT(a, b, c)"));
                }
            }
        }
    }
    for a in NUM {
        for b in NUM {
            if a == b {
                continue;
            }
            for (x, y) in corner_pairs(a, b) {
                let rt = wider(&NUM, a, b);
                out.push(call_case(bin_feature("num", "LIMIT", a, b, &x, &y), &[("a", a, &x), ("b", b, &y), ("c", a, &x)], rt, "LIMIT(a, b, c)"));
                if thorough {
                    let ft = bin_feature("num", "LIMIT", a, b, &x, &y);
                    out.push(call_case(if ft.starts_with("mixed-sign") { ft } else { format!("{ft}:formal-call") }, &[("a", a, &x), ("b", b, &y), ("c", a, &x)], rt, "LIMIT(MN := a, IN := b, MX := c)"));
                }
            }
        }
    }
    // SEL(g, in0, in1): every type, both selector values; mixed numeric
    for t in all_types() {
        let xs = vals(t);
        let (x, y) = (&xs[0], &xs[xs.len() - 1]);
        for g in ["FALSE", "TRUE"] {
            let mut p = P::new();
            p.var_tag("g", "BOOL", Some(Ty::Bool), Some(g)).val("a", t, x).val("b", t, y).var("r", t).stmt("r := SEL(g, a, b);");
            out.push(p.case(format!("sel:SEL:{t}")));
        }
        let mut p = P::new();
        p.var_tag("g", "BOOL", Some(Ty::Bool), Some("TRUE")).val("a", t, x).val("b", t, y).var("r", t).stmt("r := SEL(G := g, IN0 := a, IN1 := b);");
        out.push(p.case(format!("sel:SEL:{t}:formal-call")));
    }
    for a in NUM {
        for b in NUM {
            if a == b {
                continue;
            }
            for (x, y) in corner_pairs(a, b).into_iter().take(if thorough { 4 } else { 2 }) {
                for g in ["FALSE", "TRUE"] {
                    let mut p = P::new();
                    p.var_tag("g", "BOOL", Some(Ty::Bool), Some(g)).val("a", a, &x).val("b", b, &y).var("r", wider(&NUM, a, b)).stmt("r := SEL(g, a, b);");
                    out.push(p.case(bin_feature("sel", "SEL", a, b, &x, &y)));
                }
            }
        }
    }
    // MUX(k, in0, in1[, in2]): selector type x selector value (negative, out of range) x input type
    let mut ktypes: Vec<&str> = INTS.to_vec();
    ktypes.extend(["BOOL", "BYTE", "REAL"]);
    for kt in ktypes {
        let mut ks = tvals(kt, true);
        if is_int(kt) {
            ks.push(v(format!("{kt}#2"), "two", true));
            ks.push(v(format!("{kt}#3"), "three", true));
        }
        for k in &ks {
            for t in ["INT", "LREAL", "BOOL", "WORD", "TIME", "STRING", "DATE"] {
                if !thorough && !matches!(t, "INT" | "STRING" | "TIME") {
                    continue;
                }
                let xs = vals(t);
                for n in [2usize, 3] {
                    let mut p = P::new();
                    p.val("k", kt, k);
                    let names = ["a", "b", "c"];
                    for nm in names.iter().take(n) {
                        p.val(nm, t, &xs[xs.len() - 1]);
                    }
                    p.var("r", t).stmt(format!("r := MUX(k, {});", names[..n].join(", ")));
                    out.push(p.case(format!("sel:MUX:K={kt}:k={}", k.cls)));
                }
            }
        }
    }
    for (a, b) in [("SINT", "USINT"), ("USINT", "SINT"), ("INT", "LREAL"), ("ULINT", "LINT"), ("LINT", "ULINT")] {
        for (x, y) in corner_pairs(a, b) {
            for k in ["INT#0", "INT#1"] {
                let mut p = P::new();
                p.var_tag("k", "INT", Some(Ty::Int), Some(k)).val("a", a, &x).val("b", b, &y).var("r", wider(&NUM, a, b)).stmt("r := MUX(k, a, b);");
                out.push(p.case(bin_feature("sel", "MUX", a, b, &x, &y)));
            }
        }
    }
    {
        let mut p = P::new();
        p.var_tag("k", "INT", Some(Ty::Int), Some("INT#1")).var_tag("a", "INT", Some(Ty::Int), Some("INT#5")).var("r", "INT").stmt("r := MUX(K := k, IN0 := a, IN1 := a, IN2 := a);");
        out.push(p.case("sel:MUX:INT:formal-call".into()));
    }
}

// ---------------------------------------------------------------------------------------------
// 2. bit functions
// ---------------------------------------------------------------------------------------------

fn count_class(f: &str, w: u32, n: i128) -> &'static str {
    if n < 0 {
        return "count-negative";
    }
    if matches!(f, "ROL" | "ROR") {
        if n % (w as i128) == 0 {
            "count-multiple-of-width"
        } else if n < w as i128 {
            "count<width"
        } else {
            "count>width"
        }
    } else if n == 0 {
        "count=0"
    } else if n < w as i128 {
        "count<width"
    } else if n == w as i128 {
        "count=width"
    } else if n > u32::MAX as i128 {
        "count>=2^32"
    } else {
        "count>width"
    }
}

fn bits(out: &mut Vec<Case>, thorough: bool) {
    for f in ["SHL", "SHR", "ROL", "ROR"] {
        for t in ["BOOL", "BYTE", "WORD", "DWORD", "LWORD", "INT", "UDINT", "REAL"] {
            let w = width(t);
            let xs: Vec<Val> = vals(t).into_iter().filter(|x| thorough || matches!(x.cls, "ones" | "one" | "true" | "max")).collect();
            for nt in INTS {
                let nty = elem(nt).unwrap();
                let mut counts: Vec<i128> = vec![0, 1, w as i128 - 1, w as i128, w as i128 + 1, 255, -1, nty.max(), nty.min(), 1i128 << 32];
                counts.retain(|n| nty.in_range(*n));
                counts.sort();
                counts.dedup();
                counts.sort_by_key(|n| (n.unsigned_abs(), *n < 0));
                for n in counts {
                    let nv = if nt == "LINT" && n == nty.min() {
                        vc("LINT#-9223372036854775807 - LINT#1", "min", true)
                    } else if nt == "ULINT" && n == nty.max() {
                        vc("ULINT#9223372036854775807 * ULINT#2 + ULINT#1", "max", true)
                    } else {
                        v(format!("{nt}#{n}"), "n", true)
                    };
                    for x in &xs {
                        let cc = count_class(f, w, n);
                        let feat = if cc == "count-negative" { format!("shift:{f}:count-negative") } else { format!("shift:{f}:{t}:{cc}") };
                        out.push(call_case(feat, &[("a", t, x), ("n", nt, &nv)], t, &format!("{f}(a, n)")));
                    }
                }
            }
        }
        let (x, n) = (&vals("WORD")[1], v("INT#1", "n", true));
        out.push(call_case(format!("shift:{f}:WORD:formal-call-reversed"), &[("a", "WORD", x), ("n", "INT", &n)], "WORD", &format!("{f}(N := n, IN := a)")));
    }
    // AND / OR / XOR function forms: every pair of bit-string types (+ integer probe), NOT
    let mut ts: Vec<&'static str> = BITS.to_vec();
    ts.extend(["INT", "UDINT"]);
    for f in ["AND", "OR", "XOR"] {
        for a in &ts {
            for b in &ts {
                let (xs, ys) = (vals(a), vals(b));
                let sel = |vs: &Vec<Val>| -> Vec<Val> { vs.iter().filter(|x| thorough || matches!(x.cls, "ones" | "msb" | "true" | "false" | "max" | "neg")).cloned().collect() };
                for x in sel(&xs) {
                    for y in sel(&ys) {
                        let rt = if BITS.contains(a) && BITS.contains(b) { wider(&BITS, a, b) } else { wider(&NUM, a, b) };
                        out.push(call_case(format!("bit:{f}:{a},{b}"), &[("a", a, &x), ("b", b, &y)], rt, &format!("{f}(a, b)")));
                    }
                }
            }
        }
        for t in BITS {
            let xs = vals(t);
            let x = &xs[xs.len() - 1];
            out.push(call_case(format!("bit:{f}:{t}x3"), &[("a", t, x), ("b", t, x), ("c", t, x)], t, &format!("{f}(a, b, c)")));
            out.push(call_case(format!("bit:{f}:{t}:formal-call"), &[("a", t, x), ("b", t, x)], t, &format!("{f}(IN1 := a, IN2 := b)")));
        }
        let (x, y, z) = (&vals("BYTE")[2], &vals("LWORD")[2], &vals("BOOL")[1]);
        out.push(call_case(format!("bit:{f}:BYTE,LWORD,BOOL:mixed"), &[("a", "BYTE", x), ("b", "LWORD", y), ("c", "BOOL", z)], "LWORD", &format!("{f}(a, b, c)")));
    }
    for t in &ts {
        for x in vals(t) {
            out.push(call_case(format!("bit:NOT:{t}"), &[("a", t, &x)], t, "NOT(a)"));
        }
    }
}

// ---------------------------------------------------------------------------------------------
// 3. type conversions
// ---------------------------------------------------------------------------------------------


/// Source values for conversions: the boundary values of the type, plus for reals the edges of
/// every integer width (one below / at / one above), ties and a value beyond 2^64.
fn conv_vals(t: &str, thorough: bool) -> Vec<Val> {
    let mut o = tvals(t, thorough);
    if is_real(t) {
        let p = t;
        let mut add = |s: &str, cls: &'static str, q: bool| {
            if thorough || q {
                o.push(v(format!("{p}#{s}"), cls, q));
            }
        };
        add("1.5", "tie", true);
        add("-0.5", "tie", false);
        add("-0.4", "frac", false);
        add("127.0", "edge8", false);
        add("127.5", "edge8", true);
        add("128.0", "edge8", false);
        add("-128.0", "edge8", false);
        add("-128.5", "edge8", false);
        add("-129.0", "edge8", false);
        add("255.0", "edge8", false);
        add("255.5", "edge8", true);
        add("256.0", "edge8", false);
        add("32767.0", "edge16", false);
        add("32768.0", "edge16", true);
        add("-32769.0", "edge16", false);
        add("65535.0", "edge16", false);
        add("65536.0", "edge16", true);
        add("2147483647.0", "edge32", false);
        add("2147483648.0", "edge32", true);
        add("-2147483649.0", "edge32", false);
        add("4294967295.0", "edge32", false);
        add("4294967296.0", "edge32", true);
        add("9223372036854775807.0", "edge64", true);
        add("-9223372036854775808.0", "edge64", false);
        add("-9223372036854777856.0", "edge64", false);
        add("18446744073709551615.0", "edge64", true);
        add("1.0e30", "beyond-2^64", true);
        add("-1.0e30", "beyond-2^64", true);
    }
    if matches!(t, "STRING" | "WSTRING") {
        let q = if t == "STRING" { '\'' } else { '"' };
        for (s, cls) in [("12", "digits"), ("-1", "digits"), ("1.5", "digits"), ("TRUE", "word")] {
            o.push(v(format!("{q}{s}{q}"), cls, false));
        }
    }
    o
}

/// Value class of a conversion source: the edges of the integer widths are one class.
fn conv_cls(cls: &str) -> &'static str {
    match cls {
        "edge8" | "edge16" | "edge32" | "edge64" | "beyond-2^64" => "integer-edge",
        "frac" | "tie" | "tiny" => "fraction",
        "digits" | "word" | "ascii" | "one" | "multibyte" => "text",
        other => match worst(&[other]) {
            "nan" | "inf" => "non-finite",
            "zero" | "nominal" => "small",
            _ => "extreme",
        },
    }
}

fn conversions(out: &mut Vec<Case>, thorough: bool) {
    let ts = all_types();
    // <A>_TO_<B>(a : A) and TO_<B>(a : A) for all ordered pairs (incl. A = B)
    for a in &ts {
        for b in &ts {
            let xs = conv_vals(a, thorough);
            for (i, x) in xs.iter().enumerate() {
                // a string converted to a character: the number of characters is the cause class
                let to_char = type_class(a) == "string" && type_class(b) == "char";
                let (f1, f2) = if to_char {
                    let n = match x.cls {
                        "empty" => "empty",
                        "one" => "one-char",
                        _ => "several-chars",
                    };
                    (format!("conv:string-to-char:{n}"), format!("conv:string-to-char:{n}"))
                } else {
                    (format!("conv:{a}->{b}:{}", conv_cls(x.cls)), format!("conv:{a}->{b}:{}", conv_cls(x.cls)))
                };
                out.push(call_case(f1, &[("a", a, x)], b, &format!("{a}_TO_{b}(a)")));
                if thorough || i < 2 || to_char {
                    out.push(call_case(f2, &[("a", a, x)], b, &format!("TO_{b}(a)")));
                }
            }
        }
    }
    for (a, b) in [("INT", "LREAL"), ("LREAL", "INT"), ("WORD", "INT")] {
        let x = &vals(a)[0];
        out.push(call_case(format!("conv:{a}_TO_{b}:formal-call"), &[("a", a, x)], b, &format!("{a}_TO_{b}(IN := a)")));
    }
    // TRUNC, TRUNC_<B>, <A>_TRUNC_<B>
    for a in ["REAL", "LREAL", "INT", "LINT"] {
        for x in conv_vals(a, thorough) {
            out.push(call_case(format!("conv:TRUNC:{a}->DINT:{}", conv_cls(x.cls)), &[("a", a, &x)], "DINT", "TRUNC(a)"));
            for b in INTS.iter().chain(["REAL", "BYTE", "TIME"].iter()) {
                out.push(call_case(format!("conv:TRUNC:{a}->{b}:{}", conv_cls(x.cls)), &[("a", a, &x)], b, &format!("TRUNC_{b}(a)")));
                out.push(call_case(format!("conv:TRUNC:{a}->{b}:{}", conv_cls(x.cls)), &[("a", a, &x)], b, &format!("{a}_TRUNC_{b}(a)")));
            }
        }
    }
    // the declared source type of a typed conversion with an argument that is implicitly
    // convertible to it (narrower type, untyped literal)
    for a2 in ELEM {
        for a in ELEM {
            if a2 == a {
                continue;
            }
            let partners: Vec<&str> = if thorough {
                ELEM.to_vec()
            } else if is_num(a) {
                vec!["LREAL", "DINT"]
            } else {
                vec!["LWORD", "ULINT"]
            };
            let xs = vals(a2);
            let x = xs.iter().find(|x| x.cls == "one" || x.cls == "true").unwrap_or(&xs[0]);
            for b in partners {
                out.push(call_case(format!("conv-arg:typed-source:TO:arg-of-narrower-type"), &[("a", a2, x)], b, &format!("{a}_TO_{b}(a)")));
            }
        }
    }
    for a in ELEM {
        for b in ["LREAL", "DINT", "LWORD", "ULINT", "STRING"] {
            for (lit, cls) in [("1", "untyped-literal"), ("1.0", "untyped-literal"), ("16#1", "untyped-literal")] {
                let mut p = P::new();
                p.var("r", b).stmt(format!("r := {a}_TO_{b}({lit});"));
                out.push(p.case(format!("conv-arg:typed-source:TO:arg-{cls}")));
                let mut p = P::new();
                p.var("r", b).stmt(format!("r := TO_{b}({lit});"));
                out.push(p.case(format!("conv-arg:overloaded:TO_{b}:arg-{cls}")));
            }
        }
    }
    for (a2, a) in [("REAL", "LREAL"), ("INT", "LREAL"), ("SINT", "REAL")] {
        let x = &vals(a2)[0];
        for b in ["INT", "LINT"] {
            out.push(call_case(format!("conv-arg:typed-source:TRUNC:arg-of-narrower-type"), &[("a", a2, x)], b, &format!("{a}_TRUNC_{b}(a)")));
        }
    }
    // BCD: TO_BCD_<B>(u), <U>_TO_BCD_<B>(u), BCD_TO_<U>(b), <B>_BCD_TO_<U>(b)
    let bcd_src = |t: &str| -> Vec<Val> {
        let mut o = vec![v(format!("{t}#0"), "zero", true), v(format!("{t}#9"), "one-digit", false), v(format!("{t}#10"), "two-digits", true), v(format!("{t}#99"), "two-digits", true), v(format!("{t}#100"), "three-digits", true)];
        o.extend(vals(t).into_iter().filter(|x| x.cls == "max"));
        if t != "USINT" {
            o.push(v(format!("{t}#9999"), "four-digits", true));
            o.push(v(format!("{t}#10000"), "five-digits", true));
        }
        o
    };
    let bcd_bits = |t: &str| -> Vec<Val> {
        let mut o = vec![v(format!("{t}#16#0"), "zero", true), v(format!("{t}#16#99"), "valid", true), v(format!("{t}#16#9A"), "invalid-nibble", true), v(format!("{t}#16#A0"), "invalid-nibble", false)];
        o.extend(vals(t).into_iter().filter(|x| x.cls == "ones").map(|mut x| {
            x.cls = "invalid-nibble";
            x
        }));
        if t != "BYTE" {
            o.push(v(format!("{t}#16#9999"), "valid-max16", true));
        }
        if t == "LWORD" {
            o.push(v("LWORD#16#7999999999999999", "valid-16-digits", true));
        }
        o
    };
    let mut us: Vec<&str> = vec!["USINT", "UINT", "UDINT", "ULINT", "INT", "BYTE"];
    let mut bs: Vec<&str> = vec!["BYTE", "WORD", "DWORD", "LWORD", "BOOL", "UINT"];
    if !thorough {
        us.truncate(5);
        bs.truncate(5);
    }
    for u in &us {
        for b in &bs {
            for x in if is_int(u) { bcd_src(u) } else { vals(u) } {
                out.push(call_case(format!("bcd:TO_BCD:{}->{}:{}", type_class(u), type_class(b), x.cls), &[("a", u, &x)], b, &format!("TO_BCD_{b}(a)")));
                out.push(call_case(format!("bcd:typed-TO_BCD:{}->{}:{}", type_class(u), type_class(b), x.cls), &[("a", u, &x)], b, &format!("{u}_TO_BCD_{b}(a)")));
            }
            for x in if BITS.contains(b) && *b != "BOOL" { bcd_bits(b) } else { vals(b) } {
                out.push(call_case(format!("bcd:BCD_TO:{}->{}:{}", type_class(b), type_class(u), x.cls), &[("a", b, &x)], u, &format!("BCD_TO_{u}(a)")));
                out.push(call_case(format!("bcd:typed-BCD_TO:{}->{}:{}", type_class(b), type_class(u), x.cls), &[("a", b, &x)], u, &format!("{b}_BCD_TO_{u}(a)")));
            }
        }
    }
    for (a2, a) in [("BYTE", "WORD"), ("WORD", "LWORD")] {
        let x = &bcd_bits(a2)[1];
        out.push(call_case(format!("conv-arg:typed-source:BCD_TO:arg-of-narrower-type"), &[("a", a2, x)], "UINT", &format!("{a}_BCD_TO_UINT(a)")));
    }
    for (a2, a) in [("USINT", "UINT"), ("UINT", "ULINT")] {
        let x = &bcd_src(a2)[1];
        out.push(call_case(format!("conv-arg:typed-source:TO_BCD:arg-of-narrower-type"), &[("a", a2, x)], "DWORD", &format!("{a}_TO_BCD_DWORD(a)")));
    }
}

// ---------------------------------------------------------------------------------------------
// 4. string functions
// ---------------------------------------------------------------------------------------------

/// (declared type, literal, class, length in characters as written)
fn string_shapes(wide: bool) -> Vec<(String, String, &'static str, i128)> {
    let (t, q) = if wide { ("WSTRING", '"') } else { ("STRING", '\'') };
    vec![
        (t.to_string(), format!("{q}{q}"), "empty", 0),
        (t.to_string(), format!("{q}a{q}"), "one", 1),
        (t.to_string(), format!("{q}abc{q}"), "ascii", 3),
        (format!("{t}[5]"), format!("{q}abcde{q}"), "full", 5),
        (t.to_string(), format!("{q}äö€{q}"), "multibyte", 3),
    ]
}

/// Length / position menu relative to the string length, with its classes.
fn lp_menu(len: i128) -> Vec<(i128, &'static str)> {
    let mut o: Vec<(i128, &'static str)> = vec![(0, "zero"), (1, "one"), (-1, "neg"), (len, "len"), (len + 1, "len+1"), (2, "inside"), (32767, "huge")];
    let mut seen = Vec::new();
    o.retain(|(n, _)| {
        if seen.contains(n) {
            false
        } else {
            seen.push(*n);
            true
        }
    });
    o
}

/// Cause class of a length / position argument relative to the string length.
fn lp_cls(n: i128, len: i128) -> &'static str {
    if n <= 0 {
        "nonpositive"
    } else if n > 1000 {
        "huge"
    } else if n > len {
        "beyond-end"
    } else {
        "inside"
    }
}

fn strings(out: &mut Vec<Case>, thorough: bool) {
    for wide in [false, true] {
        let kind = if wide { "WSTRING" } else { "STRING" };
        let shapes = string_shapes(wide);
        let targets: Vec<(String, &str)> = vec![(kind.to_string(), "plain"), (format!("{kind}[2]"), "short-target")];
        let strvar = |p: &mut P, name: &str, sh: &(String, String, &'static str, i128)| {
            p.var_tag(name, &sh.0, None, Some(&sh.1));
        };
        for sh in &shapes {
            // LEN
            let mut p = P::new();
            strvar(&mut p, "s", sh);
            p.var("r", "INT").stmt("r := LEN(s);");
            out.push(p.case(format!("string:LEN:{kind}:{}", sh.2)));
            let menu = lp_menu(sh.3);
            for (tt, tcls) in &targets {
                let short = *tcls == "short-target";
                // LEFT / RIGHT
                for f in ["LEFT", "RIGHT"] {
                    for (l, lc) in &menu {
                        if short && !thorough && !matches!(*lc, "one" | "len" | "huge") {
                            continue;
                        }
                        let mut p = P::new();
                        strvar(&mut p, "s", sh);
                        p.var_tag("l", "INT", Some(Ty::Int), Some(&format!("INT#{l}"))).var_tag("r", tt, None, None).stmt(format!("r := {f}(s, l);"));
                        out.push(p.case(if sh.2 == "multibyte" { format!("string:LEFT-RIGHT:{kind}:multibyte") } else { format!("string:{f}:{kind}:L={}", lp_cls(*l, sh.3)) }));
                    }
                }
                // MID / DELETE (L, P)
                for f in ["MID", "DELETE"] {
                    for (l, lc) in &menu {
                        for (pp, _pc) in &menu {
                            if short && (!thorough || !matches!(*lc, "one" | "len" | "huge")) {
                                continue;
                            }
                            let mut p = P::new();
                            strvar(&mut p, "s", sh);
                            p.var_tag("l", "INT", Some(Ty::Int), Some(&format!("INT#{l}")))
                                .var_tag("p", "INT", Some(Ty::Int), Some(&format!("INT#{pp}")))
                                .var_tag("r", tt, None, None)
                                .stmt(format!("r := {f}(s, l, p);"));
                            out.push(p.case(if sh.2 == "multibyte" { format!("string:{f}:{kind}:multibyte") } else { format!("string:{f}:{kind}:L={}:P={}", lp_cls(*l, sh.3), lp_cls(*pp, sh.3)) }));
                        }
                    }
                }
                // INSERT(in1, in2, P)
                for s2 in [&shapes[1], &shapes[3], &shapes[4]] {
                    for (pp, pc) in &menu {
                        if short && !thorough && !matches!(*pc, "one" | "len") {
                            continue;
                        }
                        let mut p = P::new();
                        strvar(&mut p, "s", sh);
                        strvar(&mut p, "t", s2);
                        p.var_tag("p", "INT", Some(Ty::Int), Some(&format!("INT#{pp}"))).var_tag("r", tt, None, None).stmt("r := INSERT(s, t, p);");
                        out.push(p.case(if sh.2 == "multibyte" { format!("string:INSERT:{kind}:multibyte") } else { format!("string:INSERT:{kind}:P={}", lp_cls(*pp, sh.3)) }));
                    }
                }
                // REPLACE(in1, in2, L, P)
                for s2 in [&shapes[0], &shapes[2]] {
                    for (l, lc) in &menu {
                        for (pp, _pc) in &menu {
                            if short && (!thorough || !matches!(*lc, "one" | "len")) {
                                continue;
                            }
                            if !thorough && s2.2 == "empty" && !matches!(*lc, "one" | "huge" | "neg") {
                                continue;
                            }
                            let mut p = P::new();
                            strvar(&mut p, "s", sh);
                            strvar(&mut p, "t", s2);
                            p.var_tag("l", "INT", Some(Ty::Int), Some(&format!("INT#{l}")))
                                .var_tag("p", "INT", Some(Ty::Int), Some(&format!("INT#{pp}")))
                                .var_tag("r", tt, None, None)
                                .stmt("r := REPLACE(s, t, l, p);");
                            out.push(p.case(if sh.2 == "multibyte" { format!("string:REPLACE:{kind}:multibyte") } else { format!("string:REPLACE:{kind}:L={}:P={}", lp_cls(*l, sh.3), lp_cls(*pp, sh.3)) }));
                        }
                    }
                }
                // CONCAT (2 and 3 inputs), FIND
                for s2 in &shapes {
                    let mut p = P::new();
                    strvar(&mut p, "s", sh);
                    strvar(&mut p, "t", s2);
                    p.var_tag("r", tt, None, None).stmt("r := CONCAT(s, t);");
                    out.push(p.case(format!("string:CONCAT:{kind}:{tcls}")));
                    if !short {
                        let mut p = P::new();
                        strvar(&mut p, "s", sh);
                        strvar(&mut p, "t", s2);
                        p.var("r", "INT").stmt("r := FIND(s, t);");
                        out.push(p.case(format!("string:FIND:{kind}:needle-{}", s2.2)));
                    }
                }
                let mut p = P::new();
                strvar(&mut p, "s", sh);
                p.var_tag("r", tt, None, None).stmt("r := CONCAT(s, s, s);");
                out.push(p.case(format!("string:CONCAT:{kind}:x3:{tcls}")));
                // accumulation across cycles up to and beyond the declared maximum
                let mut p = P::new();
                strvar(&mut p, "s", sh);
                p.var_tag("r", tt, None, None).stmt("r := CONCAT(r, s);");
                out.push(p.case(format!("string:CONCAT:{kind}:accumulate:{tcls}")));
            }
        }
        // length / position arguments of every integer type at its boundaries
        let sh = &shapes[2];
        for lt in INTS {
            for l in vals(lt).into_iter().filter(|x| matches!(x.cls, "max" | "min")) {
                for (f, call) in [("LEFT", "LEFT(s, l)"), ("RIGHT", "RIGHT(s, l)"), ("MID", "MID(s, l, k)"), ("MID", "MID(s, k, l)"), ("DELETE", "DELETE(s, l, k)"), ("DELETE", "DELETE(s, k, l)"), ("INSERT", "INSERT(s, s, l)"), ("REPLACE", "REPLACE(s, s, l, k)"), ("REPLACE", "REPLACE(s, s, k, l)")] {
                    let mut p = P::new();
                    p.var_tag("s", &sh.0, None, Some(&sh.1)).val("l", lt, &l).var_tag("k", "INT", Some(Ty::Int), Some("INT#2")).var_tag("r", kind, None, None).stmt(format!("r := {call};"));
                    let pos = if call.ends_with(", l)") && f != "LEFT" && f != "RIGHT" { "P" } else { "L" };
                    out.push(p.case(format!("string:{f}:{pos}-of-type-{lt}:{}", l.cls)));
                }
            }
        }
        // formal calls
        for (f, call) in [
            ("LEN", "LEN(IN := s)"),
            ("LEFT", "LEFT(IN := s, L := k)"),
            ("MID", "MID(P := k, L := k, IN := s)"),
            ("INSERT", "INSERT(IN1 := s, IN2 := s, P := k)"),
            ("DELETE", "DELETE(IN := s, L := k, P := k)"),
            ("REPLACE", "REPLACE(IN1 := s, IN2 := s, L := k, P := k)"),
            ("FIND", "FIND(IN1 := s, IN2 := s)"),
            ("CONCAT", "CONCAT(IN1 := s, IN2 := s)"),
        ] {
            let mut p = P::new();
            p.var_tag("s", &sh.0, None, Some(&sh.1)).var_tag("k", "INT", Some(Ty::Int), Some("INT#2"));
            if matches!(f, "LEN" | "FIND") {
                p.var("r", "INT");
            } else {
                p.var_tag("r", kind, None, None);
            }
            p.stmt(format!("r := {call};"));
            out.push(p.case(format!("string:{f}:{kind}:formal-call")));
        }
    }
    // STRING and WSTRING mixed, literal arguments, CHAR arguments
    for (call, cls) in [
        ("CONCAT(s, w)", "mixed-kinds"),
        ("CONCAT(s, 'x')", "literal-arg"),
        ("CONCAT('x', 'y')", "literal-args"),
        ("CONCAT(s, c)", "char-arg"),
        ("LEFT('abc', 2)", "literal-args"),
        ("LEFT(s, 2)", "untyped-count"),
        ("MID(s, 1, 2)", "untyped-count"),
        ("INSERT(s, 'x', 1)", "literal-arg"),
    ] {
        let mut p = P::new();
        p.var_tag("s", "STRING", None, Some("'abc'")).var_tag("w", "WSTRING", None, Some("\"abc\"")).var_tag("c", "CHAR", None, Some("'a'")).var_tag("r", "STRING", None, None).stmt(format!("r := {call};"));
        out.push(p.case(format!("string:{}:{cls}", call.split('(').next().unwrap_or(""))));
    }
}

// ---------------------------------------------------------------------------------------------
// 5. time and date arithmetic
// ---------------------------------------------------------------------------------------------

const NAMED_TIME: [&str; 18] = [
    "ADD_TIME", "ADD_LTIME", "ADD_TOD_TIME", "ADD_LTOD_LTIME", "ADD_DT_TIME", "ADD_LDT_LTIME", "SUB_TIME", "SUB_LTIME", "SUB_DATE_DATE", "SUB_LDATE_LDATE", "SUB_TOD_TIME",
    "SUB_LTOD_LTIME", "SUB_TOD_TOD", "SUB_LTOD_LTOD", "SUB_DT_TIME", "SUB_LDT_LTIME", "SUB_DT_DT", "SUB_LDT_LDT",
];

/// Operand types a named time function announces in its name (ADD_TOD_TIME -> TOD, TIME;
/// ADD_TIME -> TIME, TIME). Only used to decide where the full value product is spent.
fn named_operands(f: &str) -> (&str, &str) {
    let rest = f.split_once('_').map(|x| x.1).unwrap_or("");
    match rest.split_once('_') {
        Some((a, b)) => (a, b),
        None => (rest, rest),
    }
}

fn time_result_candidates(a: &'static str, b: &'static str) -> Vec<&'static str> {
    let mut o: Vec<&'static str> = Vec::new();
    for c in [a, b, "TIME", "LTIME"] {
        if is_time(c) && !o.contains(&c) {
            o.push(c);
        }
    }
    o
}

fn times(out: &mut Vec<Case>, thorough: bool) {
    // named functions x every pair of time types
    for f in NAMED_TIME {
        let (oa, ob) = named_operands(f);
        for a in TIMES {
            for b in TIMES {
                let on_sig = a == oa && b == ob;
                if !thorough && a != oa && b != ob {
                    continue;
                }
                let pairs: Vec<(Val, Val)> = if on_sig {
                    let mut ps = Vec::new();
                    for x in tvals(a, thorough) {
                        for y in tvals(b, thorough) {
                            ps.push((x.clone(), y));
                        }
                    }
                    ps
                } else {
                    corner_pairs(a, b).into_iter().take(if thorough { 2 } else { 1 }).collect()
                };
                for (x, y) in pairs {
                    for rt in time_result_candidates(a, b) {
                        // operands other than the announced ones: the type pair is the cause class
                        let ft = if on_sig { format!("time:{f}:{}", worst(&[x.cls, y.cls])) } else { format!("time:{f}:{a},{b}") };
                        out.push(call_case(ft, &[("a", a, &x), ("b", b, &y)], rt, &format!("{f}(a, b)")));
                    }
                }
            }
        }
        let (x, y) = (&vals(oa)[0], &vals(ob)[0]);
        for rt in time_result_candidates(TIMES.iter().find(|t| **t == oa).copied().unwrap_or("TIME"), TIMES.iter().find(|t| **t == ob).copied().unwrap_or("TIME")) {
            out.push(call_case(format!("time:{f}:formal-call"), &[("a", oa, x), ("b", ob, y)], rt, &format!("{f}(IN1 := a, IN2 := b)")));
        }
    }
    // generic ADD / SUB / MUL / DIV and the operators over time x (time | numeric)
    let mut ops: Vec<&'static str> = TIMES.to_vec();
    ops.extend(["INT", "LINT", "ULINT", "REAL", "LREAL"]);
    for (f, op) in [("ADD", "+"), ("SUB", "-"), ("MUL", "*"), ("DIV", "/")] {
        for a in &ops {
            for b in &ops {
                if !is_time(a) && !is_time(b) {
                    continue;
                }
                let pairs: Vec<(Val, Val)> = if thorough {
                    let mut ps = Vec::new();
                    for x in tvals(a, false) {
                        for y in tvals(b, false) {
                            ps.push((x.clone(), y));
                        }
                    }
                    ps
                } else {
                    let mut ps = corner_pairs(a, b);
                    let zb = vals(b)[0].clone();
                    ps.truncate(2);
                    ps.push((ps[0].0.clone(), zb));
                    ps
                };
                let cands: Vec<&'static str> = time_result_candidates(a, b);
                for (i, (x, y)) in pairs.iter().enumerate() {
                    for rt in &cands {
                        if !(a == b) {
                            out.push(call_case(format!("time:{f}:{a},{b}"), &[("a", a, x), ("b", b, y)], rt, &format!("{f}(a, b)")));
                        }
                        if thorough || i == 0 {
                            out.push(call_case(format!("time:op{op}:{a},{b}"), &[("a", a, x), ("b", b, y)], rt, &format!("a {op} b")));
                        }
                    }
                }
            }
        }
    }
    // MUL_TIME / DIV_TIME / MUL_LTIME / DIV_LTIME x every numeric factor type (the IEC names
    // MULTIME / DIVTIME are not known to the checker: every such program is rejected)
    for f in ["MUL_TIME", "DIV_TIME", "MUL_LTIME", "DIV_LTIME"] {
        for a in ["TIME", "LTIME", "TOD", "INT"] {
            for b in NUM.iter().chain(["TIME", "BOOL"].iter()) {
                let ys = tvals(b, thorough || is_real(b));
                for x in tvals(a, false) {
                    for y in &ys {
                        out.push(call_case(format!("time:{f}:{a},{b}:{}", worst(&[x.cls, y.cls])), &[("a", a, &x), ("b", b, y)], a, &format!("{f}(a, b)")));
                    }
                }
            }
        }
    }
    // CONCAT_DATE_TOD / CONCAT_DATE_LTOD x every pair of date-like types
    for (f, rt) in [("CONCAT_DATE_TOD", "DT"), ("CONCAT_DATE_LTOD", "LDT")] {
        for a in &TIMES[2..] {
            for b in &TIMES[2..] {
                for x in tvals(a, thorough) {
                    for y in tvals(b, thorough) {
                        out.push(call_case(format!("time:{f}:{a},{b}:{}", worst(&[x.cls, y.cls])), &[("a", a, &x), ("b", b, &y)], rt, &format!("{f}(a, b)")));
                    }
                }
            }
        }
    }
    // CONCAT_DATE / CONCAT_TOD / CONCAT_LTOD / CONCAT_DT / CONCAT_LDT: component menus
    let year: Vec<(i128, &str)> = vec![(1970, "epoch"), (2024, "nominal"), (0, "zero"), (1, "min"), (-1, "neg"), (9999, "max"), (10000, "max+1"), (32767, "huge")];
    let month: Vec<(i128, &str)> = vec![(1, "lo"), (12, "hi"), (0, "lo-1"), (13, "hi+1"), (-1, "neg"), (127, "huge")];
    let day: Vec<(i128, &str)> = vec![(1, "lo"), (31, "hi"), (0, "lo-1"), (32, "hi+1"), (-1, "neg"), (127, "huge")];
    let hour: Vec<(i128, &str)> = vec![(0, "lo"), (23, "hi"), (24, "hi+1"), (-1, "neg"), (127, "huge")];
    let minsec: Vec<(i128, &str)> = vec![(0, "lo"), (59, "hi"), (60, "hi+1"), (-1, "neg"), (127, "huge")];
    let milli: Vec<(i128, &str)> = vec![(0, "lo"), (999, "hi"), (1000, "hi+1"), (-1, "neg"), (32767, "huge")];
    let comp_types: Vec<&str> = if thorough { INTS.to_vec() } else { vec!["INT", "USINT", "LINT"] };
    let lit = |t: &str, n: i128| -> Option<String> { elem(t).filter(|ty| ty.in_range(n)).map(|_| format!("{t}#{n}")) };
    let star = |out: &mut Vec<Case>, f: &str, rt: &str, menus: &[(&str, &Vec<(i128, &str)>, i128)], t: &str| {
        // one component at a time leaves its nominal value
        for (ci, (cname, menu, _)) in menus.iter().enumerate() {
            for (n, cls) in menu.iter() {
                let mut p = P::new();
                let mut names = Vec::new();
                let mut ok = true;
                for (cj, (nm, _, nominal)) in menus.iter().enumerate() {
                    let val = if ci == cj { *n } else { *nominal };
                    match lit(t, val) {
                        Some(l) => {
                            p.var_tag(&format!("c{cj}"), t, elem(t), Some(&l));
                        }
                        None => ok = false,
                    }
                    names.push(format!("c{cj}"));
                    let _ = nm;
                }
                if !ok {
                    continue;
                }
                p.var_tag("r", rt, elem(rt), None).stmt(format!("r := {f}({});", names.join(", ")));
                out.push(p.case(format!("time:{f}:{cname}={cls}")));
            }
        }
    };
    for t in &comp_types {
        star(out, "CONCAT_DATE", "DATE", &[("year", &year, 2024), ("month", &month, 6), ("day", &day, 15)], t);
        for f in ["CONCAT_TOD", "CONCAT_LTOD"] {
            star(out, f, if f == "CONCAT_TOD" { "TOD" } else { "LTOD" }, &[("hour", &hour, 12), ("minute", &minsec, 30), ("second", &minsec, 30), ("milli", &milli, 100)], t);
        }
        for f in ["CONCAT_DT", "CONCAT_LDT"] {
            star(
                out,
                f,
                if f == "CONCAT_DT" { "DT" } else { "LDT" },
                &[("year", &year, 2024), ("month", &month, 6), ("day", &day, 15), ("hour", &hour, 12), ("minute", &minsec, 30), ("second", &minsec, 30), ("milli", &milli, 100)],
                t,
            );
        }
        // all components at the extreme of the component type
        for x in vals(t).into_iter().filter(|x| matches!(x.cls, "max" | "min")) {
            for (f, rt, n) in [("CONCAT_DATE", "DATE", 3usize), ("CONCAT_TOD", "TOD", 4), ("CONCAT_LTOD", "LTOD", 4), ("CONCAT_DT", "DT", 7), ("CONCAT_LDT", "LDT", 7)] {
                let mut p = P::new();
                p.val("c", t, &x).var_tag("r", rt, None, None).stmt(format!("r := {f}({});", vec!["c"; n].join(", ")));
                out.push(p.case(format!("time:{f}:all-components={}", x.cls)));
            }
        }
    }
    {
        let mut p = P::new();
        p.var_tag("y", "INT", Some(Ty::Int), Some("INT#2024")).var_tag("r", "DATE", None, None).stmt("r := CONCAT_DATE(YEAR := y, MONTH := y, DAY := y);");
        out.push(p.case("time:CONCAT_DATE:formal-call".into()));
        let mut p = P::new();
        p.var_tag("y", "INT", Some(Ty::Int), Some("INT#2024")).var_tag("m", "SINT", Some(Ty::SInt), Some("SINT#6")).var_tag("d", "ULINT", Some(Ty::ULInt), Some("ULINT#15")).var_tag("r", "DATE", None, None).stmt("r := CONCAT_DATE(y, m, d);");
        out.push(p.case("time:CONCAT_DATE:mixed-component-types".into()));
    }
    // SPLIT_*: every value of the source type x output variable types (narrow outputs overflow)
    for (f, src, n) in [("SPLIT_DATE", "DATE", 3usize), ("SPLIT_TOD", "TOD", 4), ("SPLIT_LTOD", "LTOD", 4), ("SPLIT_DT", "DT", 7), ("SPLIT_LDT", "LDT", 7)] {
        for a in &TIMES[2..] {
            if *a != src && !thorough {
                continue;
            }
            for x in vals(a) {
                for ot in ["INT", "SINT", "USINT", "LINT", "ULINT", "REAL"] {
                    if *a != src && ot != "INT" {
                        continue;
                    }
                    let mut p = P::new();
                    p.val("a", a, &x);
                    let names: Vec<String> = (0..n).map(|i| format!("o{i}")).collect();
                    for nm in &names {
                        p.var(nm, ot);
                    }
                    p.stmt(format!("{f}(a, {});", names.join(", ")));
                    out.push(p.case(format!("time:{f}:{a}->{ot}:{}", x.cls)));
                }
            }
        }
    }
    {
        let mut p = P::new();
        p.var_tag("a", "DATE", None, Some("D#2024-02-29")).var("y", "INT").var("m", "INT").var("d", "INT").stmt("SPLIT_DATE(IN := a, YEAR => y, MONTH => m, DAY => d);");
        out.push(p.case("time:SPLIT_DATE:formal-call".into()));
        let mut p = P::new();
        p.var_tag("a", "DATE", None, Some("D#2024-02-29")).var("y", "INT").var("m", "SINT").var("d", "LINT").stmt("SPLIT_DATE(a, y, m, d);");
        out.push(p.case("time:SPLIT_DATE:mixed-output-types".into()));
        let mut p = P::new();
        p.var_tag("a", "DATE", None, Some("D#2024-02-29")).var_tag("arr", "ARRAY[0..2] OF INT", None, None).var_tag("i", "INT", Some(Ty::Int), Some("INT#3")).stmt("SPLIT_DATE(a, arr[0], arr[1], arr[i]);");
        out.push(p.case("time:SPLIT_DATE:output-index-out-of-bounds".into()));
    }
    // DAY_OF_WEEK
    for a in &TIMES[2..] {
        for x in vals(a) {
            out.push(call_case(format!("time:DAY_OF_WEEK:{a}:{}", x.cls), &[("a", a, &x)], "INT", "DAY_OF_WEEK(a)"));
        }
    }
}

// ---------------------------------------------------------------------------------------------
// 6. comparison / selection on non-numeric types, enumerations, subranges
// ---------------------------------------------------------------------------------------------

const ENUM_TYPES: &str = "TYPE Color : (Red, Green, Blue); END_TYPE\nTYPE Level : (Low := 1, High := 10); END_TYPE\n";

fn compare(out: &mut Vec<Case>, thorough: bool) {
    let fns: Vec<&str> = if thorough { vec!["GT", "GE", "EQ", "LE", "LT", "NE"] } else { vec!["GT", "EQ", "NE"] };
    for f in &fns {
        for t in all_types() {
            let xs = tvals(t, thorough);
            for x in &xs {
                for y in &xs {
                    out.push(call_case(bin_feature("cmp", f, t, t, x, y), &[("a", t, x), ("b", t, y)], "BOOL", &format!("{f}(a, b)")));
                }
            }
        }
        for a in NUM.iter().chain(BITS.iter()) {
            for b in NUM.iter().chain(BITS.iter()) {
                if a == b {
                    continue;
                }
                for (x, y) in corner_pairs(a, b).into_iter().take(if thorough { 4 } else { 3 }) {
                    out.push(call_case(bin_feature("cmp", f, a, b, &x, &y), &[("a", a, &x), ("b", b, &y)], "BOOL", &format!("{f}(a, b)")));
                }
            }
        }
        for t in ["INT", "LREAL", "STRING", "TIME", "WORD"] {
            let xs = vals(t);
            let (x, y) = (&xs[0], &xs[xs.len() - 1]);
            out.push(call_case(format!("cmp:{f}:{t}x3"), &[("a", t, x), ("b", t, y), ("c", t, y)], "BOOL", &format!("{f}(a, b, c)")));
            out.push(call_case(format!("cmp:{f}:{t}:formal-call"), &[("a", t, x), ("b", t, y)], "BOOL", &format!("{f}(IN1 := a, IN2 := b)")));
        }
    }
    // comparison operators on the non-numeric types
    for (op, name) in [("=", "eq"), ("<>", "ne"), ("<", "lt"), ("<=", "le"), (">", "gt"), (">=", "ge")] {
        for t in all_types() {
            if is_num(t) {
                continue;
            }
            let xs = tvals(t, thorough);
            for x in &xs {
                for y in &xs {
                    out.push(call_case(format!("cmp:op-{name}:{t}"), &[("a", t, x), ("b", t, y)], "BOOL", &format!("a {op} b")));
                }
            }
        }
        for (a, b) in [("STRING", "WSTRING"), ("STRING", "CHAR"), ("TIME", "LTIME"), ("DATE", "DT"), ("BYTE", "LWORD"), ("BOOL", "BYTE"), ("TOD", "LTOD"), ("STRING[2]", "STRING[5]")] {
            let (bx, by) = (a.split('[').next().unwrap_or(a), b.split('[').next().unwrap_or(b));
            let (xs, ys) = (vals(bx), vals(by));
            let mut p = P::new();
            p.var_tag("a", a, None, Some(&xs[1.min(xs.len() - 1)].text)).var_tag("b", b, None, Some(&ys[ys.len() - 1].text)).var("r", "BOOL").stmt(format!("r := a {op} b;"));
            if ys[ys.len() - 1].init && xs[1.min(xs.len() - 1)].init {
                out.push(p.case(format!("cmp:op-{name}:{a},{b}:mixed")));
            }
        }
    }
    // MIN / MAX / LIMIT / SEL / MUX / comparison functions on enumerations, structures, arrays
    for (call, rt, cls) in [
        ("c = d", "BOOL", "enum:op-eq"),
        ("c <> d", "BOOL", "enum:op-ne"),
        ("c < d", "BOOL", "enum:op-ordering"),
        ("c >= d", "BOOL", "enum:op-ordering"),
        ("EQ(c, d)", "BOOL", "enum:EQ"),
        ("NE(c, d)", "BOOL", "enum:NE"),
        ("GT(c, d)", "BOOL", "enum:GT"),
        ("LE(c, d, c)", "BOOL", "enum:LEx3"),
        ("MIN(c, d)", "Color", "enum:MIN"),
        ("MAX(c, d)", "Color", "enum:MAX"),
        ("LIMIT(c, d, c)", "Color", "enum:LIMIT"),
        ("SEL(g, c, d)", "Color", "enum:SEL"),
        ("SEL(g, c, Color#Blue)", "Color", "enum:SEL-typed-literal"),
        ("MUX(k, c, d)", "Color", "enum:MUX"),
        ("MUX(k, c, d, c)", "Color", "enum:MUX-out-of-range"),
        ("MOVE(c)", "Color", "enum:MOVE"),
        ("EQ(c, l)", "BOOL", "enum:EQ-different-enums"),
        ("c = l", "BOOL", "enum:op-eq-different-enums"),
        ("MAX(l, l)", "Level", "enum:MAX-explicit-values"),
        ("SEL(g, l, Level#High)", "Level", "enum:SEL-explicit-values"),
        ("c", "Color", "enum:assign"),
        ("Color#Blue", "Color", "enum:assign-typed-literal"),
        ("Blue", "Color", "enum:assign-bare-literal"),
        ("c = Blue", "BOOL", "enum:op-eq-bare-literal"),
        ("c = Color#Green", "BOOL", "enum:op-eq-typed-literal"),
        ("ABS(c)", "Color", "enum:ABS"),
        ("c + d", "Color", "enum:op-add"),
        ("c", "INT", "enum:assign-to-int"),
        ("k", "Color", "enum:assign-from-int"),
        ("INT_TO_Color(k)", "Color", "enum:conv-from-int"),
        ("Color_TO_INT(c)", "INT", "enum:conv-to-int"),
        ("TO_INT(c)", "INT", "enum:TO_INT"),
    ] {
        for init in [false, true] {
            let mut p = P::new();
            p.types = ENUM_TYPES.into();
            if init {
                p.var_tag("c", "Color", None, Some("Color#Green")).var_tag("d", "Color", None, Some("Color#Blue")).var_tag("l", "Level", None, Some("Level#High"));
            } else {
                p.var_tag("c", "Color", None, None).var_tag("d", "Color", None, None).var_tag("l", "Level", None, None).stmt("d := Color#Blue;");
            }
            p.var_tag("g", "BOOL", Some(Ty::Bool), Some("TRUE")).var_tag("k", "INT", Some(Ty::Int), Some("INT#2")).var_tag("r", rt, elem(rt), None).stmt(format!("r := {call};"));
            let _ = init;
            out.push(p.case(cls.to_string()));
        }
    }
    // CASE over an enumeration (labels bare / typed), IF chain, enum as array index, FB input
    for (body, cls) in [
        ("CASE c OF Red: k := INT#1; Green: k := INT#2; ELSE k := INT#3; END_CASE;", "enum:case-selector:bare-labels"),
        ("CASE c OF Color#Red: k := INT#1; Color#Green: k := INT#2; ELSE k := INT#3; END_CASE;", "enum:case-selector"),
        ("CASE c OF Color#Red: k := INT#1; END_CASE; c := Color#Blue;", "enum:case-selector"),
        ("IF c = Color#Red THEN c := Color#Green; ELSIF c = Color#Green THEN c := Color#Blue; ELSE c := Color#Red; END_IF;", "enum:cycle-through-values"),
        ("CASE l OF Level#Low: k := INT#1; Level#High: k := INT#2; END_CASE; l := Level#High;", "enum:case-selector"),
        ("FOR c := Color#Red TO Color#Blue DO k := k + INT#1; END_FOR;", "enum:for-control"),
    ] {
        let mut p = P::new();
        p.types = ENUM_TYPES.into();
        p.var_tag("c", "Color", None, None).var_tag("l", "Level", None, None).var("k", "INT").stmt(body);
        out.push(p.case(cls.into()));
    }
    // structures, arrays and FB instances through SEL / MUX / MOVE / EQ
    let st = "TYPE St : STRUCT a : INT; b : REAL; END_STRUCT END_TYPE\n";
    let fb = "FUNCTION_BLOCK Fb\nVAR_INPUT i : INT; END_VAR\nVAR_OUTPUT o : INT; END_VAR\n    o := i;\nEND_FUNCTION_BLOCK\n";
    for (t, tcls) in [("St", "struct"), ("ARRAY[0..2] OF INT", "array"), ("Fb", "fb-instance"), ("REF_TO INT", "reference")] {
        for (call, rt, cls) in [("SEL(g, x, y)", t, "SEL"), ("MUX(k, x, y)", t, "MUX"), ("MOVE(x)", t, "MOVE"), ("EQ(x, y)", "BOOL", "EQ"), ("x = y", "BOOL", "op-eq"), ("MAX(x, y)", t, "MAX"), ("LIMIT(x, y, x)", t, "LIMIT")] {
            let mut p = P::new();
            p.types = st.into();
            p.pous = fb.into();
            p.var_tag("x", t, None, None).var_tag("y", t, None, None).var_tag("g", "BOOL", Some(Ty::Bool), Some("TRUE")).var_tag("k", "INT", Some(Ty::Int), Some("INT#1")).var_tag("r", rt, elem(rt), None).stmt(format!("r := {call};"));
            let _ = tcls;
            out.push(p.case(format!("aggregate:{cls}")));
        }
    }
}

/// Feature of a subrange/alias case: the integer type is reduced to its signedness (C03
/// signatures carry the declared type anyway); the declaration style is kept except for the two
/// cause classes that do not depend on it.
fn sr(style: &str, t: &str, what: &str) -> String {
    let sg = if is_signed(t) { "signed" } else { "unsigned" };
    match what {
        "initialiser-untyped" => "subrange:initialiser-untyped-literal".to_string(),
        "case-selector" => format!("subrange:case-selector:{sg}"),
        _ => format!("subrange:{what}:{style}:{sg}"),
    }
}

fn subranges(out: &mut Vec<Case>, _thorough: bool) {
    // named and inline subranges / aliases of every integer type: initialiser, assignment from a
    // variable out of range, arithmetic that leaves the range, as argument and result of standard functions
    for t in INTS {
        let ty = elem(t);
        let (lo, hi) = if is_signed(t) { (-5, 5) } else { (0, 10) };
        for (decl_ty, types, style) in [
            ("Sub".to_string(), format!("TYPE Sub : {t}({lo}..{hi}); END_TYPE\n"), "named-subrange"),
            (format!("{t}({lo}..{hi})"), String::new(), "inline-subrange"),
            ("Ali".to_string(), format!("TYPE Ali : {t}; END_TYPE\n"), "alias"),
        ] {
            let mk = |body: &str, init: Option<&str>, extra: &[(&str, &str, &str)]| -> P {
                let mut p = P::new();
                p.types = types.clone();
                p.var_tag("s", &decl_ty, ty, init);
                for (n, tt, i) in extra {
                    p.var_tag(n, tt, elem(tt), Some(i));
                }
                if !body.is_empty() {
                    p.stmt(body);
                }
                p
            };
            let k_out = format!("{t}#20");
            let k_in = format!("{t}#3");
            out.push(mk("", Some("3"), &[]).case(sr(style, t, "initialiser-untyped")));
            out.push(mk("", Some(&k_in), &[]).case(sr(style, t, "initialiser-typed")));
            out.push(mk("", None, &[]).case(sr(style, t, "default-initial")));
            out.push(mk("s := k;", None, &[("k", t, &k_in)]).case(sr(style, t, "assign-in-range")));
            out.push(mk("s := k;", None, &[("k", t, &k_out)]).case(sr(style, t, "assign-out-of-range")));
            out.push(mk("s := s + k;", Some(&k_in), &[("k", t, &k_in)]).case(sr(style, t, "add-leaves-range-in-cycle-2")));
            out.push(mk("s := ABS(k);", None, &[("k", t, &k_out)]).case(sr(style, t, "ABS-result-out-of-range")));
            out.push(mk("s := MAX(s, k);", None, &[("k", t, &k_out)]).case(sr(style, t, "MAX-result-out-of-range")));
            out.push(mk("s := MOVE(k);", None, &[("k", t, &k_in)]).case(sr(style, t, "MOVE-result")));
            out.push(mk("s := LIMIT(s, k, s);", Some(&k_in), &[("k", t, &k_out)]).case(sr(style, t, "LIMIT-result")));
            out.push(mk("s := SEL(g, s, k);", Some(&k_in), &[("k", t, &k_out), ("g", "BOOL", "TRUE")]).case(sr(style, t, "SEL-result-out-of-range")));
            out.push(mk("r := ABS(s);", Some(&k_in), &[("r", t, &k_in)]).case(sr(style, t, "ABS-argument")));
            out.push(mk("r := ADD(s, k);", Some(&k_in), &[("r", t, &k_in), ("k", t, &k_in)]).case(sr(style, t, "ADD-argument")));
            out.push(mk("r := MIN(s, k);", Some(&k_in), &[("r", t, &k_in), ("k", t, &k_in)]).case(sr(style, t, "MIN-argument")));
            out.push(mk("r := MUX(s, k, k, k, k);", Some(&k_in), &[("r", t, &k_in), ("k", t, &k_in)]).case(sr(style, t, "MUX-selector")));
            out.push(mk("w := SHL(w, s);", Some(&k_in), &[("w", "WORD", "WORD#16#1")]).case(sr(style, t, "shift-count")));
            out.push(mk(&format!("r := {t}_TO_LREAL(s);"), Some(&k_in), &[("r", "LREAL", "LREAL#0.0")]).case(sr(style, t, "typed-conversion-argument")));
            out.push(mk(&format!("s := LREAL_TO_{t}(x);"), None, &[("x", "LREAL", "LREAL#20.0")]).case(sr(style, t, "conversion-result-out-of-range")));
            out.push(mk(&format!("FOR s := 0 TO 20 DO k := k + {t}#1; END_FOR;"), None, &[("k", t, &k_in)]).case(sr(style, t, "for-control-leaves-range")));
            out.push(mk("CASE s OF 3: k := k; ELSE s := k; END_CASE;", Some(&k_in), &[("k", t, &k_in)]).case(sr(style, t, "case-selector")));
        }
    }
    for (decl, cls) in [("REAL(0.0..1.0)", "real-subrange"), ("Sub2", "subrange-of-subrange"), ("ARRAY[0..2] OF Sub", "array-of-subrange")] {
        let mut p = P::new();
        p.types = "TYPE Sub : INT(0..10); END_TYPE\nTYPE Sub2 : Sub(2..5); END_TYPE\n".into();
        p.var_tag("s", decl, None, None).var_tag("k", "INT", Some(Ty::Int), Some("INT#20"));
        p.stmt(if cls == "array-of-subrange" { "s[1] := k;" } else if cls == "real-subrange" { "s := REAL#2.0;" } else { "s := k;" });
        out.push(p.case(format!("subrange:{cls}:assign-out-of-range")));
    }
}

// ---------------------------------------------------------------------------------------------
// 7. references
// ---------------------------------------------------------------------------------------------

fn references(out: &mut Vec<Case>, _thorough: bool) {
    let st = "TYPE St : STRUCT a : INT; b : REAL; END_STRUCT END_TYPE\n";
    // POUs a case may need (a case names the ones it uses, so that one construct the checker
    // refuses cannot make the whole group vacuous)
    let pou = |name: &str| -> &'static str {
        match name {
            "Fb" => "FUNCTION_BLOCK Fb\nVAR_INPUT i : INT; END_VAR\nVAR_OUTPUT o : INT; END_VAR\nVAR v : INT; END_VAR\n    o := o + i;\n    v := i;\nEND_FUNCTION_BLOCK\n",
            "FbKeep" => "FUNCTION_BLOCK FbKeep\nVAR_INPUT i : INT; END_VAR\nVAR_OUTPUT v : INT; END_VAR\nVAR keep : REF_TO INT; END_VAR\nVAR_TEMP t : INT; END_VAR\n    t := i;\n    IF keep <> NULL THEN v := keep^; END_IF;\n    keep := REF(t);\nEND_FUNCTION_BLOCK\n",
            "Through" => "FUNCTION Through : INT\nVAR_INPUT p : REF_TO INT; END_VAR\nVAR q : REF_TO INT; END_VAR\n    q := p;\n    q^ := q^ + INT#1;\n    Through := q^;\nEND_FUNCTION\n",
            "Dangling" => "FUNCTION Dangling : REF_TO INT\nVAR x : INT; END_VAR\n    x := INT#7;\n    Dangling := REF(x);\nEND_FUNCTION\n",
            "InOut" => "FUNCTION InOut : INT\nVAR_IN_OUT x : INT; END_VAR\nVAR p : REF_TO INT; END_VAR\n    p := REF(x);\n    p^ := p^ + INT#1;\n    InOut := x;\nEND_FUNCTION\n",
            _ => "",
        }
    };
    let decls = "x : INT := INT#5; y : INT; k : INT; b : BOOL; i : INT := INT#1; j : INT := INT#3;\n    p : REF_TO INT; q : REF_TO INT; n : REF_TO INT := NULL;\n    arr : ARRAY[0..2] OF INT; s : St;\n    ps : REF_TO St; pa : REF_TO ARRAY[0..2] OF INT; pp : REF_TO REF_TO INT; pr : REF_TO REAL; pstr : REF_TO STRING; str : STRING := 'abc'; xr : REAL;";
    let cases: &[(&str, &[&str], &str)] = &[
        ("null:read", &[], "k := p^;"),
        ("null:write", &[], "p^ := INT#1;"),
        ("null:explicit-initialiser:read", &[], "k := n^;"),
        ("null:assigned:read", &[], "p := REF(x); p := NULL; k := p^;"),
        ("null:struct-field-read", &[], "k := ps^.a;"),
        ("null:struct-field-write", &[], "ps^.a := INT#1;"),
        ("null:array-element-read", &[], "k := pa^[1];"),
        ("null:array-element-write", &[], "pa^[1] := INT#1;"),
        ("null:ref-to-ref", &[], "k := pp^^;"),
        ("null:string", &[], "str := pstr^;"),
        ("null:fb-member", &["Fb"], "k := pf^.o;"),
        ("null:fb-call", &["Fb"], "pf^(i := INT#1);"),
        ("null:as-argument", &["Through"], "k := Through(p);"),
        ("null:compare-eq", &[], "b := p = NULL;"),
        ("null:compare-ne", &[], "b := p <> NULL;"),
        ("null:compare-reversed", &[], "b := NULL = p;"),
        ("null:compare-two-nulls", &[], "b := p = q;"),
        ("null:in-condition-short-circuit", &[], "IF p <> NULL AND p^ > INT#0 THEN k := INT#1; END_IF;"),
        ("var:read-write", &[], "p := REF(x); p^ := INT#7; k := p^;"),
        ("var:increment-to-overflow", &[], "p := REF(x); x := INT#32766; p^ := p^ + INT#1; p^ := p^ + INT#1;"),
        ("var:compare-refs", &[], "p := REF(x); q := REF(x); b := p = q; q := REF(y); b := p <> q;"),
        ("var:ref-kept-across-cycles", &[], "IF p = NULL THEN p := REF(x); END_IF; p^ := p^ + INT#1; k := p^;"),
        ("var:self", &[], "p := REF(x); p := REF(p^); k := p^;"),
        ("array:element", &[], "p := REF(arr[1]); p^ := INT#3; k := arr[1];"),
        ("array:element-variable-index", &[], "p := REF(arr[i]); p^ := INT#3; k := p^;"),
        ("array:element-index-out-of-bounds", &[], "p := REF(arr[j]); p^ := INT#3;"),
        ("array:whole", &[], "pa := REF(arr); pa^[1] := INT#4; k := pa^[i];"),
        ("array:whole-index-out-of-bounds", &[], "pa := REF(arr); k := pa^[j];"),
        ("array:whole-write-index-out-of-bounds", &[], "pa := REF(arr); pa^[j] := INT#1;"),
        ("struct:field", &[], "p := REF(s.a); p^ := INT#3; k := s.a;"),
        ("struct:whole", &[], "ps := REF(s); ps^.a := INT#4; k := ps^.a; xr := ps^.b;"),
        ("struct:whole-real-field", &[], "ps := REF(s); ps^.b := REAL#1.5; pr := REF(s.b); xr := pr^;"),
        ("fb:output", &["Fb"], "p := REF(f.o); f(i := INT#2); k := p^;"),
        ("fb:input-write-through", &["Fb"], "p := REF(f.i); p^ := INT#3; f(i := p^); k := f.o;"),
        ("fb:instance", &["Fb"], "pf := REF(f); pf^(i := INT#2); k := pf^.o;"),
        ("fb:temp-kept-in-state", &["FbKeep"], "fk(i := INT#2); fk(i := INT#3); k := fk.v;"),
        ("ref-to-ref:read-write", &[], "p := REF(x); pp := REF(p); pp^^ := INT#9; k := pp^^; q := pp^;"),
        ("string:read-write", &[], "pstr := REF(str); pstr^ := 'xy'; str := CONCAT(pstr^, 'z');"),
        ("function:write-through-argument", &["Through"], "p := REF(x); k := Through(p); k := Through(REF(y));"),
        ("function:returns-ref-to-local", &["Dangling"], "p := Dangling(); k := p^;"),
        ("function:returns-ref-to-local-direct", &["Dangling"], "k := Dangling()^;"),
        ("function:ref-to-in-out", &["InOut"], "k := InOut(x); k := InOut(arr[1]);"),
        ("real:read-write", &[], "pr := REF(xr); pr^ := REAL#1.5; xr := pr^ * REAL#2.0;"),
        ("stdlib:deref-as-argument", &[], "p := REF(x); k := ABS(p^); k := MAX(p^, y); k := LIMIT(p^, p^, p^);"),
        ("stdlib:null-deref-as-argument", &[], "k := ABS(p^);"),
        ("stdlib:MOVE-of-ref", &[], "p := REF(x); q := MOVE(p); k := q^;"),
        ("ref-call:formal", &[], "p := REF(IN := x); k := p^;"),
        ("ref-call:of-literal", &[], "p := REF(INT#1);"),
        ("ref-call:of-expression", &[], "p := REF(x + y);"),
        ("ref-call:no-argument", &[], "p := REF();"),
        ("ref-call:two-arguments", &[], "p := REF(x, y);"),
        ("adr:call", &[], "p := ADR(x); k := p^;"),
        ("deref:non-reference", &[], "k := x^;"),
        ("assign-attempt", &[], "p ?= q;"),
    ];
    for (cls, needs, body) in cases {
        let pous: String = needs.iter().map(|n| pou(n)).collect();
        let mut extra = String::new();
        if needs.contains(&"Fb") {
            extra.push_str(" f : Fb; pf : REF_TO Fb;");
        }
        if needs.contains(&"FbKeep") {
            extra.push_str(" fk : FbKeep;");
        }
        // the declarations are written by hand; declared tags of the elementary variables for C03
        let mut vars: Vec<Decl> = [("x", Ty::Int), ("y", Ty::Int), ("k", Ty::Int), ("b", Ty::Bool), ("i", Ty::Int), ("j", Ty::Int), ("xr", Ty::Real)]
            .iter()
            .map(|(n, t)| Decl::new(n, *t))
            .collect();
        vars.push(Decl { name: "arr".into(), ty: TyX::Arr(0, 2, Ty::Int), init: None });
        let text = format!("{st}{pous}PROGRAM Main\nVAR\n    {decls}{extra}\nEND_VAR\n    {body}\nEND_PROGRAM\n");
        out.push(Case { family: FAM, feature: format!("ref:{cls}"), prog: Prog { vars, ..Default::default() }, cycles: 2, reference: false, raw: Some(text) });
    }
    // assignment through a reference: every (target type, source type) pair; the target must keep its tag
    for t in ELEM {
        for s in ELEM {
            let xs = vals(s);
            let x = xs.iter().find(|x| matches!(x.cls, "one" | "true")).unwrap_or(&xs[0]);
            let mut p = P::new();
            p.var("x", t).val("a", s, x).var_tag("p", &format!("REF_TO {t}"), None, None).stmt("p := REF(x);").stmt("p^ := a;");
            out.push(p.case(format!("ref:assign-through:{}<-{}", type_class(t), type_class(s))));
            if s == t || !is_num(s) {
                continue;
            }
            // untyped literal through the reference; into an array element / struct field reference
            let mut p = P::new();
            p.var("x", t).var_tag("p", &format!("REF_TO {t}"), None, None).stmt("p := REF(x);").stmt(if is_real(s) { "p^ := 1.0;" } else { "p^ := 1;" });
            out.push(p.case("ref:assign-through:untyped-literal".to_string()));
        }
        let mut p = P::new();
        let xs = vals(t);
        p.var_tag("arr", &format!("ARRAY[0..1] OF {t}"), None, None).val("a", t, &xs[xs.len() - 1]).var_tag("p", &format!("REF_TO {t}"), None, None).stmt("p := REF(arr[1]);").stmt("p^ := a;").var("r", t).stmt("r := p^;");
        out.push(p.case(format!("ref:array-element:{t}")));
    }
}

// ---------------------------------------------------------------------------------------------
// 8. calls with an empty argument list (found while writing the reference cases: `f()` on a
//    POU whose only parameters are outputs)
// ---------------------------------------------------------------------------------------------

fn empty_calls(out: &mut Vec<Case>) {
    for (cls, pou, decl, body) in [
        ("fb:outputs-only", "FUNCTION_BLOCK Fb\nVAR_OUTPUT o : INT; END_VAR\n    o := o + INT#1;\nEND_FUNCTION_BLOCK\n", Some("Fb"), "f(); k := f.o;"),
        ("fb:input-with-default-and-output", "FUNCTION_BLOCK Fb\nVAR_INPUT i : INT := INT#4; END_VAR\nVAR_OUTPUT o : INT; END_VAR\n    o := o + i;\nEND_FUNCTION_BLOCK\n", Some("Fb"), "f(); k := f.o;"),
        ("fb:no-parameters", "FUNCTION_BLOCK Fb\nVAR v : INT; END_VAR\n    v := v + INT#1;\nEND_FUNCTION_BLOCK\n", Some("Fb"), "f();"),
        ("function:outputs-only", "FUNCTION Fn : INT\nVAR_OUTPUT o : INT; END_VAR\n    o := INT#1;\n    Fn := INT#2;\nEND_FUNCTION\n", None, "k := Fn();"),
        ("function:input-with-default", "FUNCTION Fn : INT\nVAR_INPUT a : INT := INT#3; END_VAR\n    Fn := a;\nEND_FUNCTION\n", None, "k := Fn();"),
        ("function:no-parameters", "FUNCTION Fn : INT\n    Fn := INT#5;\nEND_FUNCTION\n", None, "k := Fn();"),
    ] {
        let mut p = P::new();
        p.pous = pou.into();
        if let Some(t) = decl {
            p.var_tag("f", t, None, None);
        }
        p.var("k", "INT").stmt(body);
        // the parameter shape is the case, the POU kind is the cause class
        out.push(p.case(format!("call:empty-argument-list:{}", cls.split(':').next().unwrap_or(""))));
    }
}

/// Family F13, simplest first within each group.
pub fn cases(thorough: bool) -> Vec<Case> {
    let mut out = Vec::new();
    numeric(&mut out, thorough);
    bits(&mut out, thorough);
    conversions(&mut out, thorough);
    strings(&mut out, thorough);
    times(&mut out, thorough);
    compare(&mut out, thorough);
    subranges(&mut out, thorough);
    references(&mut out, thorough);
    empty_calls(&mut out);
    // identical texts (a value menu whose entries coincide) are one case
    let mut seen = std::collections::HashSet::new();
    out.retain(|c| seen.insert((c.feature.clone(), c.raw.clone())));
    out
}
