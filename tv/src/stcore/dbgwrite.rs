//! C03 family "debugger writes": values written through `DebugControl` (queued writes, forces,
//! instance writes) with the tags real front ends send (the control endpoint sends every integer
//! as LINT and TRUE/FALSE as BOOL) must never change the type tag of the target variable.

use super::ast::*;
use crate::fw::*;
use serde_json::json;
use trust_runtime::harness::TestHarness;
use trust_runtime::memory::InstanceId;
use trust_runtime::value::Value;

const TYPES: [Ty; 14] = [
    Ty::SInt, Ty::Int, Ty::DInt, Ty::LInt, Ty::USInt, Ty::UInt, Ty::UDInt, Ty::ULInt, Ty::Real, Ty::LReal, Ty::Byte, Ty::Word, Ty::DWord, Ty::LWord,
];

fn program() -> String {
    let mut s = String::from("CONFIGURATION Conf\nVAR_GLOBAL\n");
    for t in TYPES {
        s.push_str(&format!("    g_{0} : {0};\n", t.name()));
    }
    s.push_str("    g_BOOL : BOOL;\nEND_VAR\nVAR_GLOBAL RETAIN\n");
    for t in TYPES {
        s.push_str(&format!("    r_{0} : {0};\n", t.name()));
    }
    s.push_str("END_VAR\nPROGRAM P1 : Main;\nEND_CONFIGURATION\n\nFUNCTION_BLOCK DbgBase\nVAR\n");
    for t in TYPES {
        s.push_str(&format!("    b_{0} : {0};\n", t.name()));
    }
    s.push_str("END_VAR\nEND_FUNCTION_BLOCK\n\nFUNCTION_BLOCK DbgDerived EXTENDS DbgBase\nVAR\n    own : DINT;\nEND_VAR\n    own := own + DINT#1;\nEND_FUNCTION_BLOCK\n\nPROGRAM Main\nVAR\n");
    for t in TYPES {
        s.push_str(&format!("    v_{0} : {0};\n", t.name()));
    }
    s.push_str("    fb : DbgDerived;\n    k : DINT;\nEND_VAR\n    k := k + DINT#1;\n    fb();\nEND_PROGRAM\n");
    s
}

/// (cases executed, violations)
pub fn run() -> (u64, Vec<Violation>) {
    let text = program();
    let values: Vec<(&str, Value)> = vec![
        ("LInt-small", Value::LInt(5)),
        ("LInt-negative", Value::LInt(-3)),
        ("LInt-large", Value::LInt(70_000)),
        ("LInt-huge", Value::LInt(i64::MAX)),
        ("Bool", Value::Bool(true)),
        ("DInt", Value::DInt(7)),
        ("LReal", Value::LReal(1.5)),
    ];
    let mut out = Vec::new();
    let mut n = 0u64;
    for api in ["queued-write", "force", "instance-write", "retain-write", "inherited-member-write"] {
        for (vname, value) in &values {
            for t in TYPES {
                n += 1;
                let r = catch(|| {
                    let mut h = TestHarness::from_source(&text).map_err(|e| e.to_string())?;
                    let control = h.runtime_mut().enable_debug();
                    let mut inst: Option<(String, InstanceId)> = None;
                    let mut inherited: Option<InstanceId> = None;
                    for (gname, gval) in h.runtime().storage().globals() {
                        if let Value::Instance(id) = gval {
                            if h.runtime().storage().get_instance_var(*id, "v_SINT").is_some() {
                                inst = Some((gname.to_string(), *id));
                            }
                        }
                    }
                    let (path, name) = match api {
                        "queued-write" => {
                            control.enqueue_global_write(format!("g_{}", t.name()), value.clone());
                            (format!("g_{}", t.name()), "global")
                        }
                        "force" => {
                            control.force_global(format!("g_{}", t.name()), value.clone());
                            (format!("g_{}", t.name()), "global")
                        }
                        "retain-write" => {
                            control.enqueue_global_write(format!("r_{}", t.name()), value.clone());
                            (format!("r_{}", t.name()), "retain-global")
                        }
                        "inherited-member-write" => {
                            // the member is declared in the base FB and lives in the parent instance
                            // (which the structural dump does not descend into): read it back the
                            // way the evaluator does
                            let (iname, id) = inst.clone().ok_or("no program instance")?;
                            let Some(Value::Instance(fb)) = h.runtime().storage().get_instance_var(id, "fb").cloned() else {
                                return Err("no fb instance".to_string());
                            };
                            inherited = Some(fb);
                            control.enqueue_instance_write(fb, format!("b_{}", t.name()), value.clone());
                            (format!("{iname}.fb.b_{}", t.name()), "inherited-fb-member")
                        }
                        _ => {
                            let (iname, id) = inst.ok_or("no program instance")?;
                            control.enqueue_instance_write(id, format!("v_{}", t.name()), value.clone());
                            (format!("{iname}.v_{}", t.name()), "program-var")
                        }
                    };
                    let res = h.cycle();
                    let res2 = h.cycle();
                    let mut dump = crate::dump::dump_runtime(h.runtime());
                    if let Some(fb) = inherited {
                        let name = format!("b_{}", t.name());
                        let leaf = match h.runtime().storage().get_instance_var_recursive(fb, &name) {
                            Some(Value::Real(f)) => format!("Real({:?}/{:#x})", f, f.to_bits()),
                            Some(Value::LReal(f)) => format!("LReal({:?}/{:#x})", f, f.to_bits()),
                            Some(other) => format!("{other:?}"),
                            None => "<missing>".to_string(),
                        };
                        dump.insert(path.clone(), leaf);
                    }
                    Ok::<_, String>((path, name, dump, format!("{:?}{:?}", res.errors, res2.errors)))
                });
                let (path, kind, dump, errs) = match r {
                    Ok(Ok(x)) => x,
                    Ok(Err(e)) => {
                        out.push(Violation { signature: "C03/machinery/debug-write".into(), what: e, case: json!({}) });
                        return (n, out);
                    }
                    Err(m) => {
                        out.push(Violation {
                            signature: format!("C03/panic/debug-write:{api}"),
                            what: format!("writing {vname} to a {} variable through {api} panicked: {m}", t.name()),
                            case: json!({"kind": "debug-write", "api": api, "value": vname, "type": t.name()}),
                        });
                        continue;
                    }
                };
                let leaf = dump.get(&path).cloned().unwrap_or_default();
                let (tag, mag) = super::run::parse_leaf(&leaf);
                let in_range = !t.is_int() || mag.map(|m| t.in_range(m)).unwrap_or(true);
                if tag != t.tag() || !in_range {
                    out.push(Violation {
                        signature: format!("C03/tag/debug-write:{api}:{}<-{}", if t.is_bits() { "BITS" } else if t.is_real() { "REAL" } else { "INT" }, tag),
                        what: format!("{kind} {path} declared {} holds {leaf} after a debugger {api} of {vname} (cycle errors {errs})", t.name()),
                        case: json!({"kind": "debug-write", "api": api, "value": vname, "type": t.name()}),
                    });
                }
            }
        }
    }
    (n, out)
}
