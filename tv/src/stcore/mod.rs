//! The shared ST-core corpus: a typed AST for a core of Structured Text, a printer to ST text,
//! an independent reference evaluator (`refsem`) and the program families (`families`).
//! Used by the engines of C01, C02, C03 (and as a program source by C05).

pub mod ast;
pub mod dbgwrite;
pub mod exec;
pub mod families;
pub mod iolatch;
pub mod judge;
pub mod refsem;
pub mod run;
pub mod stdlib;
pub mod oop;
