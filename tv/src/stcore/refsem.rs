//! Independent reference semantics for the ST core (IEC 61131-3 + docs/specs):
//! exact integer arithmetic in the result type with a fault on overflow, truncating division,
//! short-circuit AND/OR, FOR test before each iteration, by-value inputs, by-reference in-outs.
//! Written against the generated AST, shares no code with the runtime.

use super::ast::*;
use std::collections::BTreeMap;

#[derive(Clone, Debug, PartialEq)]
pub enum Fault {
    DivisionByZero,
    ModuloByZero,
    Overflow,
    IndexOutOfBounds,
    ForStepZero,
}

impl Fault {
    pub fn name(&self) -> &'static str {
        match self {
            Fault::DivisionByZero => "DivisionByZero",
            Fault::ModuloByZero => "ModuloByZero",
            Fault::Overflow => "Overflow",
            Fault::IndexOutOfBounds => "IndexOutOfBounds",
            Fault::ForStepZero => "ForStepZero",
        }
    }
}

/// Evaluation left the reference-defined subset (the case is then not compared by C02).
#[derive(Clone, Debug, PartialEq)]
pub enum Stop {
    Fault(Fault),
    /// construct whose meaning the documents leave open
    Undefined(&'static str),
    /// evaluation budget exceeded (non-terminating loop in the reference)
    Budget,
}

#[derive(Clone, Debug, PartialEq)]
pub enum Val {
    S(V),
    Arr { lo: Vec<i64>, hi: Vec<i64>, elems: Vec<V> },
    Struct(BTreeMap<String, V>),
    Fb(BTreeMap<String, Val>),
}

pub type Env = BTreeMap<String, Val>;

enum Flow {
    Next,
    Exit,
    Continue,
    Return,
}

pub struct Interp<'p> {
    prog: &'p Prog,
    pub budget: u64,
}

fn default_val(p: &Prog, d: &Decl) -> Val {
    match &d.ty {
        TyX::Elem(t) => Val::S(d.init.unwrap_or_else(|| V::zero(*t))),
        TyX::Arr(lo, hi, t) => Val::Arr {
            lo: vec![*lo],
            hi: vec![*hi],
            elems: vec![V::zero(*t); (*hi - *lo + 1).max(0) as usize],
        },
        TyX::Arr2(a, b, c, d2, t) => Val::Arr {
            lo: vec![*a, *c],
            hi: vec![*b, *d2],
            elems: vec![V::zero(*t); ((*b - *a + 1).max(0) * (*d2 - *c + 1).max(0)) as usize],
        },
        TyX::Struct(n) => {
            let sd = p.structs.iter().find(|s| &s.name == n).expect("struct def");
            Val::Struct(sd.fields.iter().map(|(f, t)| (f.clone(), V::zero(*t))).collect())
        }
        TyX::Fb(n) => {
            let fd = p.fbs.iter().find(|f| &f.name == n).expect("fb def");
            let mut m = BTreeMap::new();
            for d in fd.inputs.iter().chain(&fd.outputs).chain(&fd.vars) {
                m.insert(d.name.clone(), default_val(p, d));
            }
            Val::Fb(m)
        }
    }
}

pub fn initial_env(p: &Prog) -> Env {
    p.vars.iter().map(|d| (d.name.clone(), default_val(p, d))).collect()
}

/// smallest signed type that holds the value (decimal untyped literal typing, docs §5.2.1)
fn smallest_signed(v: i128) -> Option<Ty> {
    SIGNED.iter().copied().find(|t| t.in_range(v))
}

fn wider(a: Ty, b: Ty) -> Option<Ty> {
    if a == b {
        return Some(a);
    }
    if (a.is_signed() && b.is_signed()) || (a.is_unsigned() && b.is_unsigned()) {
        return Some(if a.rank() >= b.rank() { a } else { b });
    }
    if a.is_real() && b.is_real() {
        return Some(Ty::LReal);
    }
    None
}

/// implicit widening along a promotion chain (assignment / argument passing)
pub fn widen(v: V, to: Ty) -> Result<V, Stop> {
    let from = v.ty();
    if from == to {
        return Ok(v);
    }
    match (v, to) {
        (V::I(f, x), t) if t.is_int() => {
            if (f.is_signed() == t.is_signed()) && t.rank() >= f.rank() {
                Ok(V::I(t, x))
            } else {
                Err(Stop::Undefined("integer conversion outside the promotion chain"))
            }
        }
        (V::I(_, x), Ty::Real) => Ok(V::R(x as f32)),
        (V::I(_, x), Ty::LReal) => Ok(V::L(x as f64)),
        (V::R(x), Ty::LReal) => Ok(V::L(x as f64)),
        _ => Err(Stop::Undefined("conversion not defined by the reference")),
    }
}

impl<'p> Interp<'p> {
    pub fn new(prog: &'p Prog) -> Self {
        Interp { prog, budget: 200_000 }
    }

    fn tick(&mut self) -> Result<(), Stop> {
        if self.budget == 0 {
            return Err(Stop::Budget);
        }
        self.budget -= 1;
        Ok(())
    }

    /// One scan cycle of the program body.
    pub fn cycle(&mut self, env: &mut Env) -> Result<(), Stop> {
        let body = &self.prog.body;
        self.block(env, body).map(|_| ())
    }

    fn read_scalar(&self, env: &Env, name: &str) -> Result<V, Stop> {
        match env.get(name) {
            Some(Val::S(v)) => Ok(*v),
            _ => Err(Stop::Undefined("non-scalar read")),
        }
    }

    fn arr_offset(lo: &[i64], hi: &[i64], idx: &[i128]) -> Result<usize, Stop> {
        if idx.len() != lo.len() {
            return Err(Stop::Undefined("index arity"));
        }
        let mut off = 0usize;
        for k in 0..lo.len() {
            let i = idx[k];
            if i < lo[k] as i128 || i > hi[k] as i128 {
                return Err(Stop::Fault(Fault::IndexOutOfBounds));
            }
            let extent = (hi[k] - lo[k] + 1) as usize;
            off = off * extent + (i - lo[k] as i128) as usize;
        }
        Ok(off)
    }

    fn idx_vals(&mut self, env: &mut Env, idx: &[E]) -> Result<Vec<i128>, Stop> {
        let mut out = Vec::new();
        for e in idx {
            match self.eval(env, e, None)? {
                V::I(_, v) => out.push(v),
                _ => return Err(Stop::Undefined("non-integer index")),
            }
        }
        Ok(out)
    }

    /// `expect`: the type expected by the context, used only to type a bare untyped literal
    /// (docs §5.2.1 last bullet).
    pub fn eval(&mut self, env: &mut Env, e: &E, expect: Option<Ty>) -> Result<V, Stop> {
        self.tick()?;
        match e {
            E::Lit(v, typed) => {
                if *typed {
                    return Ok(*v);
                }
                match (*v, expect) {
                    (V::I(_, x), Some(t)) if t.is_int() => {
                        if t.in_range(x) {
                            Ok(V::I(t, x))
                        } else {
                            Err(Stop::Undefined("untyped literal outside the expected type"))
                        }
                    }
                    (V::I(_, x), Some(Ty::Real)) => Ok(V::R(x as f32)),
                    (V::I(_, x), Some(Ty::LReal)) => Ok(V::L(x as f64)),
                    (V::I(_, x), _) => smallest_signed(x)
                        .map(|t| V::I(t, x))
                        .ok_or(Stop::Undefined("untyped literal too large")),
                    (V::R(x), Some(Ty::Real)) => Ok(V::R(x)),
                    (V::L(x), Some(Ty::Real)) => Ok(V::R(x as f32)),
                    (V::R(x), _) => Ok(V::L(x as f64)),
                    (V::L(x), _) => Ok(V::L(x)),
                    (other, _) => Ok(other),
                }
            }
            E::Var(n) => self.read_scalar(env, n),
            E::Paren(x) => self.eval(env, x, expect),
            E::Neg(x) => match self.eval(env, x, None)? {
                V::I(t, v) if t.is_signed() => {
                    let r = -v;
                    if t.in_range(r) {
                        Ok(V::I(t, r))
                    } else {
                        Err(Stop::Fault(Fault::Overflow))
                    }
                }
                V::R(f) => Ok(V::R(-f)),
                V::L(f) => Ok(V::L(-f)),
                _ => Err(Stop::Undefined("negation of a non-signed operand")),
            },
            E::Not(x) => match self.eval(env, x, None)? {
                V::B(b) => Ok(V::B(!b)),
                V::Bits(t, v) => Ok(V::Bits(t, !v & (t.max_bits()))),
                _ => Err(Stop::Undefined("NOT of a non-boolean")),
            },
            E::Bin(op, a, b) => self.binary(env, *op, a, b),
            E::Flat(_, tree) => self.eval(env, tree, expect),
            E::Idx(name, idx) => {
                let iv = self.idx_vals(env, idx)?;
                match env.get(name) {
                    Some(Val::Arr { lo, hi, elems }) => {
                        let off = Self::arr_offset(lo, hi, &iv)?;
                        Ok(elems[off])
                    }
                    _ => Err(Stop::Undefined("index of a non-array")),
                }
            }
            E::Fld(name, f) => match env.get(name) {
                Some(Val::Struct(m)) => m.get(f).copied().ok_or(Stop::Undefined("missing field")),
                Some(Val::Fb(m)) => match m.get(f) {
                    Some(Val::S(v)) => Ok(*v),
                    _ => Err(Stop::Undefined("non-scalar FB member")),
                },
                _ => Err(Stop::Undefined("field of a non-struct")),
            },
            E::Call(f, args) => {
                let r = self.call(env, f, args)?;
                r.ok_or(Stop::Undefined("function without result used in an expression"))
            }
        }
    }

    fn binary(&mut self, env: &mut Env, op: Op, a: &E, b: &E) -> Result<V, Stop> {
        // short-circuit forms first (the right operand may fault or have side effects)
        if matches!(op, Op::And | Op::Or) {
            let l = self.eval(env, a, None)?;
            if let V::B(lb) = l {
                if op == Op::And && !lb {
                    return Ok(V::B(false));
                }
                if op == Op::Or && lb {
                    return Ok(V::B(true));
                }
                return match self.eval(env, b, None)? {
                    V::B(rb) => Ok(V::B(rb)),
                    _ => Err(Stop::Undefined("logic on mixed operands")),
                };
            }
            return Err(Stop::Undefined("bit-string logic"));
        }
        let l = self.eval(env, a, None)?;
        let r = self.eval(env, b, None)?;
        if op == Op::Xor {
            return match (l, r) {
                (V::B(x), V::B(y)) => Ok(V::B(x ^ y)),
                _ => Err(Stop::Undefined("bit-string logic")),
            };
        }
        match (l, r) {
            (V::I(ta, x), V::I(tb, y)) => {
                let Some(t) = wider(ta, tb) else {
                    return Err(Stop::Undefined("mixed signed/unsigned operands"));
                };
                if op.is_cmp() {
                    return Ok(V::B(cmp_ord(op, x.cmp(&y))));
                }
                let res = match op {
                    Op::Add => x + y,
                    Op::Sub => x - y,
                    Op::Mul => x * y,
                    Op::Div => {
                        if y == 0 {
                            return Err(Stop::Fault(Fault::DivisionByZero));
                        }
                        x / y // truncates toward zero
                    }
                    Op::Mod => {
                        if y == 0 {
                            return Err(Stop::Fault(Fault::ModuloByZero));
                        }
                        x % y // sign of the dividend
                    }
                    _ => unreachable!(),
                };
                if t.in_range(res) {
                    Ok(V::I(t, res))
                } else {
                    Err(Stop::Fault(Fault::Overflow))
                }
            }
            (V::R(x), V::R(y)) => real32(op, x, y),
            (V::L(x), V::L(y)) => real64(op, x, y),
            (V::R(x), V::L(y)) => real64(op, x as f64, y),
            (V::L(x), V::R(y)) => real64(op, x, y as f64),
            (V::B(x), V::B(y)) => match op {
                Op::Eq => Ok(V::B(x == y)),
                Op::Ne => Ok(V::B(x != y)),
                _ => Err(Stop::Undefined("ordering of BOOL")),
            },
            (V::T(x), V::T(y)) => {
                if op.is_cmp() {
                    Ok(V::B(cmp_ord(op, x.cmp(&y))))
                } else {
                    Err(Stop::Undefined("TIME arithmetic"))
                }
            }
            (V::Bits(ta, x), V::Bits(tb, y)) if ta == tb && matches!(op, Op::Eq | Op::Ne) => {
                Ok(V::B((x == y) == (op == Op::Eq)))
            }
            _ => Err(Stop::Undefined("mixed operand kinds")),
        }
    }

    fn block(&mut self, env: &mut Env, ss: &[S]) -> Result<Flow, Stop> {
        for s in ss {
            match self.stmt(env, s)? {
                Flow::Next => {}
                other => return Ok(other),
            }
        }
        Ok(Flow::Next)
    }

    fn lv_type(&self, env: &Env, l: &LV) -> Result<Ty, Stop> {
        match l {
            LV::Var(n) => match env.get(n) {
                Some(Val::S(v)) => Ok(v.ty()),
                _ => Err(Stop::Undefined("non-scalar assignment target")),
            },
            LV::Idx(n, _) => match env.get(n) {
                Some(Val::Arr { elems, .. }) => elems.first().map(|v| v.ty()).ok_or(Stop::Undefined("empty array")),
                _ => Err(Stop::Undefined("index of a non-array")),
            },
            LV::Fld(n, f) => match env.get(n) {
                Some(Val::Struct(m)) => m.get(f).map(|v| v.ty()).ok_or(Stop::Undefined("missing field")),
                Some(Val::Fb(m)) => match m.get(f) {
                    Some(Val::S(v)) => Ok(v.ty()),
                    _ => Err(Stop::Undefined("non-scalar FB member")),
                },
                _ => Err(Stop::Undefined("field of a non-struct")),
            },
        }
    }

    fn store(&mut self, env: &mut Env, l: &LV, v: V) -> Result<(), Stop> {
        match l {
            LV::Var(n) => {
                env.insert(n.clone(), Val::S(v));
                Ok(())
            }
            LV::Idx(n, idx) => {
                let iv = self.idx_vals(env, idx)?;
                match env.get_mut(n) {
                    Some(Val::Arr { lo, hi, elems }) => {
                        let off = Self::arr_offset(lo, hi, &iv)?;
                        elems[off] = v;
                        Ok(())
                    }
                    _ => Err(Stop::Undefined("index of a non-array")),
                }
            }
            LV::Fld(n, f) => match env.get_mut(n) {
                Some(Val::Struct(m)) => {
                    m.insert(f.clone(), v);
                    Ok(())
                }
                Some(Val::Fb(m)) => {
                    m.insert(f.clone(), Val::S(v));
                    Ok(())
                }
                _ => Err(Stop::Undefined("field of a non-struct")),
            },
        }
    }

    fn cond(&mut self, env: &mut Env, e: &E) -> Result<bool, Stop> {
        match self.eval(env, e, Some(Ty::Bool))? {
            V::B(b) => Ok(b),
            _ => Err(Stop::Undefined("non-BOOL condition")),
        }
    }

    fn stmt(&mut self, env: &mut Env, s: &S) -> Result<Flow, Stop> {
        self.tick()?;
        match s {
            S::Assign(LV::Var(target), E::Var(source))
                if matches!(env.get(source), Some(Val::Arr { .. } | Val::Struct(_)))
                    && std::mem::discriminant(env.get(source).unwrap())
                        == env.get(target).map(std::mem::discriminant).unwrap_or(std::mem::discriminant(&Val::S(V::B(false)))) =>
            {
                // whole-aggregate assignment copies the value
                let v = env.get(source).cloned().unwrap();
                env.insert(target.clone(), v);
                Ok(Flow::Next)
            }
            S::Assign(l, e) => {
                let t = self.lv_type(env, l)?;
                let v = self.eval(env, e, Some(t))?;
                let v = widen(v, t)?;
                self.store(env, l, v)?;
                Ok(Flow::Next)
            }
            S::If(arms, els) => {
                for (c, b) in arms {
                    if self.cond(env, c)? {
                        return self.block(env, b);
                    }
                }
                if let Some(b) = els {
                    return self.block(env, b);
                }
                Ok(Flow::Next)
            }
            S::Case(sel, arms, els) => {
                let v = match self.eval(env, sel, None)? {
                    V::I(_, v) => v,
                    _ => return Err(Stop::Undefined("non-integer CASE selector")),
                };
                for (labels, b) in arms {
                    let hit = labels.iter().any(|l| match l {
                        Label::One(x) => *x == v,
                        Label::Range(a, z) => v >= *a && v <= *z,
                    });
                    if hit {
                        return self.block(env, b);
                    }
                }
                if let Some(b) = els {
                    return self.block(env, b);
                }
                Ok(Flow::Next)
            }
            S::For { var, from, to, by, body } => {
                let t = match env.get(var) {
                    Some(Val::S(V::I(t, _))) => *t,
                    _ => return Err(Stop::Undefined("FOR control variable")),
                };
                let as_int = |v: V| match v {
                    V::I(_, x) => Ok(x),
                    _ => Err(Stop::Undefined("FOR bound")),
                };
                let from_v = as_int(self.eval(env, from, Some(t))?)?;
                let to_v = as_int(self.eval(env, to, Some(t))?)?;
                let by_v = match by {
                    Some(b) => as_int(self.eval(env, b, Some(t))?)?,
                    None => 1,
                };
                if by_v == 0 {
                    return Err(Stop::Fault(Fault::ForStepZero));
                }
                if !t.in_range(from_v) {
                    return Err(Stop::Undefined("FOR start outside the control type"));
                }
                let mut i = from_v;
                loop {
                    self.tick()?;
                    let done = if by_v > 0 { i > to_v } else { i < to_v };
                    if done {
                        break;
                    }
                    env.insert(var.clone(), Val::S(V::I(t, i)));
                    match self.block(env, body)? {
                        Flow::Exit => break,
                        Flow::Return => return Ok(Flow::Return),
                        Flow::Next | Flow::Continue => {}
                    }
                    // the body may change the control variable: IEC leaves that open
                    if env.get(var) != Some(&Val::S(V::I(t, i))) {
                        return Err(Stop::Undefined("FOR control variable modified in the body"));
                    }
                    i += by_v;
                    if !t.in_range(i) {
                        return Err(Stop::Undefined("FOR increment leaves the control type's range"));
                    }
                }
                // value of the control variable after the loop is left open: poison it
                env.insert(var.clone(), Val::S(V::I(t, i128::MIN)));
                Ok(Flow::Next)
            }
            S::While(c, b) => {
                loop {
                    self.tick()?;
                    if !self.cond(env, c)? {
                        break;
                    }
                    match self.block(env, b)? {
                        Flow::Exit => break,
                        Flow::Return => return Ok(Flow::Return),
                        _ => {}
                    }
                }
                Ok(Flow::Next)
            }
            S::Repeat(b, c) => {
                loop {
                    self.tick()?;
                    match self.block(env, b)? {
                        Flow::Exit => break,
                        Flow::Return => return Ok(Flow::Return),
                        _ => {}
                    }
                    if self.cond(env, c)? {
                        break;
                    }
                }
                Ok(Flow::Next)
            }
            S::Exit => Ok(Flow::Exit),
            S::Continue => Ok(Flow::Continue),
            S::Return => Ok(Flow::Return),
            S::FbCall(inst, args) => {
                self.fb_call(env, inst, args)?;
                Ok(Flow::Next)
            }
            S::CallStmt(f, args) => {
                self.call(env, f, args)?;
                Ok(Flow::Next)
            }
        }
    }

    fn call(&mut self, env: &mut Env, fname: &str, args: &[Arg]) -> Result<Option<V>, Stop> {
        let prog = self.prog;
        let f = prog.funcs.iter().find(|f| f.name.eq_ignore_ascii_case(fname)).ok_or(Stop::Undefined("unknown function"))?;
        // callee frame
        let mut frame: Env = Env::new();
        for d in f.inputs.iter().chain(&f.outputs).chain(&f.locals).chain(&f.inouts) {
            frame.insert(d.name.clone(), default_val(prog, d));
        }
        if let Some(t) = f.ret {
            frame.insert(f.name.clone(), Val::S(V::zero(t)));
        }
        // formal order for positional binding: inputs, in-outs, outputs (declaration order)
        let formals: Vec<(&Decl, u8)> = f
            .inputs
            .iter()
            .map(|d| (d, 0u8))
            .chain(f.inouts.iter().map(|d| (d, 1u8)))
            .chain(f.outputs.iter().map(|d| (d, 2u8)))
            .collect();
        let mut inout_binds: Vec<(String, String)> = Vec::new();
        let mut out_binds: Vec<(String, String)> = Vec::new();
        let mut pos = 0usize;
        for a in args {
            match a {
                Arg::Pos(e) => {
                    let Some((d, kind)) = formals.get(pos) else { return Err(Stop::Undefined("too many arguments")) };
                    pos += 1;
                    match kind {
                        0 => {
                            let TyX::Elem(t) = d.ty else { return Err(Stop::Undefined("aggregate parameter")) };
                            let v = self.eval(env, e, Some(t))?;
                            frame.insert(d.name.clone(), Val::S(widen(v, t)?));
                        }
                        1 => {
                            let E::Var(actual) = e else { return Err(Stop::Undefined("in-out needs a variable")) };
                            frame.insert(d.name.clone(), env.get(actual).cloned().ok_or(Stop::Undefined("in-out actual"))?);
                            inout_binds.push((d.name.clone(), actual.clone()));
                        }
                        _ => {
                            let E::Var(actual) = e else { return Err(Stop::Undefined("output needs a variable")) };
                            out_binds.push((d.name.clone(), actual.clone()));
                        }
                    }
                }
                Arg::In(n, e) => {
                    // formal names are case-insensitive identifiers
                    if let Some(d) = f.inputs.iter().find(|d| d.name.eq_ignore_ascii_case(n)) {
                        let TyX::Elem(t) = d.ty else { return Err(Stop::Undefined("aggregate parameter")) };
                        let v = self.eval(env, e, Some(t))?;
                        frame.insert(d.name.clone(), Val::S(widen(v, t)?));
                    } else if let Some(d) = f.inouts.iter().find(|d| d.name.eq_ignore_ascii_case(n)) {
                        let E::Var(actual) = e else { return Err(Stop::Undefined("in-out needs a variable")) };
                        frame.insert(d.name.clone(), env.get(actual).cloned().ok_or(Stop::Undefined("in-out actual"))?);
                        inout_binds.push((d.name.clone(), actual.clone()));
                    } else {
                        return Err(Stop::Undefined("unknown formal"));
                    }
                }
                Arg::Out(n, actual) => {
                    let d = f.outputs.iter().find(|d| d.name.eq_ignore_ascii_case(n)).ok_or(Stop::Undefined("unknown output"))?;
                    out_binds.push((d.name.clone(), actual.clone()));
                }
            }
        }
        // by-reference in-outs: the body must not also reach the actual by another name; the
        // generator guarantees functions only touch their own frame, so copy-in/copy-out is
        // indistinguishable from by-reference here
        let res = self.block(&mut frame, &f.body);
        // a fault inside the callee: in-outs written so far are visible (by reference)
        for (formal, actual) in &inout_binds {
            if let Some(v) = frame.get(formal) {
                env.insert(actual.clone(), v.clone());
            }
        }
        res?;
        for (formal, actual) in &out_binds {
            if let (Some(Val::S(v)), Some(Val::S(cur))) = (frame.get(formal), env.get(actual)) {
                let w = widen(*v, cur.ty())?;
                env.insert(actual.clone(), Val::S(w));
            }
        }
        Ok(f.ret.map(|_| match frame.get(&f.name) {
            Some(Val::S(v)) => *v,
            _ => V::B(false),
        }))
    }

    fn fb_call(&mut self, env: &mut Env, inst: &str, args: &[Arg]) -> Result<(), Stop> {
        let prog = self.prog;
        let Some(Val::Fb(members)) = env.get(inst).cloned() else { return Err(Stop::Undefined("not an FB instance")) };
        let decl = prog.vars.iter().find(|d| d.name == inst).ok_or(Stop::Undefined("instance decl"))?;
        let TyX::Fb(tn) = &decl.ty else { return Err(Stop::Undefined("instance type")) };
        let fd = prog.fbs.iter().find(|f| &f.name == tn).ok_or(Stop::Undefined("fb def"))?;
        let mut frame: Env = members.into_iter().collect();
        let mut out_binds: Vec<(String, String)> = Vec::new();
        let mut pos = 0usize;
        for a in args {
            match a {
                Arg::Pos(e) => {
                    let Some(d) = fd.inputs.get(pos) else { return Err(Stop::Undefined("too many arguments")) };
                    pos += 1;
                    let TyX::Elem(t) = d.ty else { return Err(Stop::Undefined("aggregate parameter")) };
                    let v = self.eval(env, e, Some(t))?;
                    frame.insert(d.name.clone(), Val::S(widen(v, t)?));
                }
                Arg::In(n, e) => {
                    let d = fd.inputs.iter().find(|d| d.name.eq_ignore_ascii_case(n)).ok_or(Stop::Undefined("unknown formal"))?;
                    let TyX::Elem(t) = d.ty else { return Err(Stop::Undefined("aggregate parameter")) };
                    let v = self.eval(env, e, Some(t))?;
                    frame.insert(d.name.clone(), Val::S(widen(v, t)?));
                }
                Arg::Out(n, actual) => {
                    let d = fd.outputs.iter().find(|d| d.name.eq_ignore_ascii_case(n)).ok_or(Stop::Undefined("unknown output"))?;
                    out_binds.push((d.name.clone(), actual.clone()));
                }
            }
        }
        let res = self.block(&mut frame, &fd.body);
        env.insert(inst.to_string(), Val::Fb(frame.clone().into_iter().collect()));
        res?;
        for (formal, actual) in &out_binds {
            if let (Some(Val::S(v)), Some(Val::S(cur))) = (frame.get(formal), env.get(actual)) {
                let w = widen(*v, cur.ty())?;
                env.insert(actual.clone(), Val::S(w));
            }
        }
        Ok(())
    }
}

impl Ty {
    pub fn max_bits(self) -> u64 {
        if self.bits() >= 64 {
            u64::MAX
        } else {
            (1u64 << self.bits()) - 1
        }
    }
}

fn cmp_ord(op: Op, o: std::cmp::Ordering) -> bool {
    use std::cmp::Ordering::*;
    match op {
        Op::Eq => o == Equal,
        Op::Ne => o != Equal,
        Op::Lt => o == Less,
        Op::Le => o != Greater,
        Op::Gt => o == Greater,
        Op::Ge => o != Less,
        _ => false,
    }
}

fn real32(op: Op, x: f32, y: f32) -> Result<V, Stop> {
    if op.is_cmp() {
        return match x.partial_cmp(&y) {
            Some(o) => Ok(V::B(cmp_ord(op, o))),
            None => Err(Stop::Undefined("NaN comparison")),
        };
    }
    let r = match op {
        Op::Add => x + y,
        Op::Sub => x - y,
        Op::Mul => x * y,
        Op::Div => {
            if y == 0.0 {
                return Err(Stop::Undefined("REAL division by zero"));
            }
            x / y
        }
        _ => return Err(Stop::Undefined("REAL MOD")),
    };
    if !r.is_finite() {
        return Err(Stop::Undefined("REAL overflow"));
    }
    Ok(V::R(r))
}

fn real64(op: Op, x: f64, y: f64) -> Result<V, Stop> {
    if op.is_cmp() {
        return match x.partial_cmp(&y) {
            Some(o) => Ok(V::B(cmp_ord(op, o))),
            None => Err(Stop::Undefined("NaN comparison")),
        };
    }
    let r = match op {
        Op::Add => x + y,
        Op::Sub => x - y,
        Op::Mul => x * y,
        Op::Div => {
            if y == 0.0 {
                return Err(Stop::Undefined("LREAL division by zero"));
            }
            x / y
        }
        _ => return Err(Stop::Undefined("LREAL MOD")),
    };
    if !r.is_finite() {
        return Err(Stop::Undefined("LREAL overflow"));
    }
    Ok(V::L(r))
}

/// Flatten an environment to dump paths ("Main.x", "Main.a[3]", "Main.s.f", "Main.fb.v").
/// Poisoned FOR control variables (i128::MIN) are rendered as `None` = do not compare.
pub fn flatten(env: &Env) -> BTreeMap<String, Option<String>> {
    fn put(out: &mut BTreeMap<String, Option<String>>, path: String, v: &V) {
        if let V::I(_, x) = v {
            if *x == i128::MIN {
                out.insert(path, None);
                return;
            }
        }
        out.insert(path, Some(v.render()));
    }
    fn walk(out: &mut BTreeMap<String, Option<String>>, path: String, v: &Val) {
        match v {
            Val::S(s) => put(out, path, s),
            Val::Arr { elems, .. } => {
                for (i, e) in elems.iter().enumerate() {
                    put(out, format!("{path}[{i}]"), e);
                }
            }
            Val::Struct(m) => {
                for (f, e) in m {
                    put(out, format!("{path}.{f}"), e);
                }
            }
            Val::Fb(m) => {
                for (f, e) in m {
                    walk(out, format!("{path}.{f}"), e);
                }
            }
        }
    }
    let mut out = BTreeMap::new();
    for (n, v) in env {
        walk(&mut out, format!("Main.{n}"), v);
    }
    out
}
