//! Crash-isolated execution of a corpus: programs run in worker processes in batches; a batch
//! whose worker dies or times out is re-run one program at a time to attribute the failure.

use super::run::{run_text_full, v_to_cell, Case, CycleObs};
use crate::fw::Machinery;
use crate::iso::{self, Outcome, PoolCfg};
use serde_json::{json, Value};
use std::collections::BTreeMap;
use std::time::{Duration, Instant};

#[derive(Clone, Debug)]
pub enum ProgResult {
    /// rejected by the compiler: not a case
    Rejected(String),
    Ran(Vec<CycleObs>),
    /// the process died (abort, stack overflow, out of memory)
    Abort(String),
    /// no answer within the per-program limit
    Hang,
}

pub fn worker_batch(case: &Value) -> Value {
    let mut out = Vec::new();
    for p in case["progs"].as_array().cloned().unwrap_or_default() {
        let text = p["text"].as_str().unwrap_or("");
        let cycles = p["cycles"].as_u64().unwrap_or(1) as usize;
        let parsed = if p["inputs"].is_null() { Ok(Vec::new()) } else { serde_json::from_value::<Vec<Vec<(String, super::ast::V)>>>(p["inputs"].clone()) };
        let Ok(parsed) = parsed else {
            out.push(json!({"rejected": "harness: input trace not decodable"}));
            continue;
        };
        let inputs: Vec<Vec<(String, trust_runtime::value::Value)>> = parsed
            .iter()
            .map(|c| c.iter().map(|(a, v)| (a.clone(), v_to_cell(a, v))).collect())
            .collect();
        match run_text_full(text, cycles, &inputs, p["budget_ms"].as_u64()) {
            Err(e) => out.push(json!({"rejected": e})),
            Ok(obs) => out.push(json!({"cycles": obs.iter().map(|o| json!({"outcome": o.outcome, "frames": o.frames, "dump": o.dump})).collect::<Vec<_>>()})),
        }
    }
    json!(out)
}

fn parse_result(v: &Value) -> ProgResult {
    if let Some(e) = v.get("rejected").and_then(Value::as_str) {
        return ProgResult::Rejected(e.to_string());
    }
    let mut obs = Vec::new();
    for c in v["cycles"].as_array().cloned().unwrap_or_default() {
        let dump: BTreeMap<String, String> = c["dump"]
            .as_object()
            .map(|m| m.iter().map(|(k, v)| (k.clone(), v.as_str().unwrap_or("").to_string())).collect())
            .unwrap_or_default();
        obs.push(CycleObs {
            outcome: c["outcome"].as_str().unwrap_or("").to_string(),
            frames: c["frames"].as_u64().unwrap_or(0) as usize,
            dump,
        });
    }
    ProgResult::Ran(obs)
}

pub fn pool(threads: usize, deadline: Option<Instant>, per_case: Duration) -> PoolCfg {
    PoolCfg {
        worker: "stcore_batch",
        procs: threads,
        rlimit_as: 4 << 30,
        per_case,
        deadline,
        env: vec![],
        stack: 8 << 20,
    }
}

/// Runs all cases; `None` = not executed because the deadline passed.
pub fn run_corpus(threads: usize, cases: &[Case], deadline: Option<Instant>) -> Result<Vec<Option<ProgResult>>, Machinery> {
    let batch = 64usize;
    let texts: Vec<Value> = cases.iter().map(|c| json!({"text": c.text(), "cycles": c.cycles, "inputs": c.input_writes(), "budget_ms": c.prog.budget_ms})).collect();
    let batches: Vec<Value> = texts.chunks(batch).map(|c| json!({"progs": c})).collect();
    let cfg = pool(threads, deadline, Duration::from_secs(120));
    let outs = iso::run_pool(&cfg, &batches).map_err(Machinery)?;
    let mut results: Vec<Option<ProgResult>> = vec![None; cases.len()];
    let mut retry: Vec<usize> = Vec::new();
    for (bi, o) in outs.into_iter().enumerate() {
        let base = bi * batch;
        let n = (cases.len() - base).min(batch);
        match o {
            Some(Outcome::Ok(v)) => {
                let arr = v.as_array().cloned().unwrap_or_default();
                if arr.len() != n {
                    return Err(Machinery(format!("batch {bi}: {} results for {n} programs", arr.len())));
                }
                for (k, r) in arr.iter().enumerate() {
                    results[base + k] = Some(parse_result(r));
                }
            }
            Some(Outcome::Panic(m)) => return Err(Machinery(format!("stcore worker panicked outside the subject: {m}"))),
            Some(Outcome::Died(_)) | Some(Outcome::Timeout) => retry.extend(base..base + n),
            None => {}
        }
    }
    if !retry.is_empty() {
        // attribute: one program per request
        let singles: Vec<Value> = retry.iter().map(|&i| json!({"progs": [texts[i].clone()]})).collect();
        let cfg = pool(threads, None, Duration::from_secs(30));
        let outs = iso::run_pool(&cfg, &singles).map_err(Machinery)?;
        for (&i, o) in retry.iter().zip(outs) {
            results[i] = Some(match o {
                Some(Outcome::Ok(v)) => v.as_array().and_then(|a| a.first()).map(parse_result).unwrap_or(ProgResult::Abort("empty reply".into())),
                Some(Outcome::Panic(m)) => ProgResult::Abort(format!("panic outside catch: {m}")),
                Some(Outcome::Died(m)) => ProgResult::Abort(m),
                Some(Outcome::Timeout) => ProgResult::Hang,
                None => continue,
            });
        }
    }
    Ok(results)
}
