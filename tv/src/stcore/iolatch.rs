//! C03 family "I/O latching": variables located at flat and hierarchical %I / %M addresses; the
//! image is written through the public direct-I/O API with cell values of the right width, of
//! another width and with non-cell values; after the cycle every bound variable (and a plain
//! variable it is copied to) must still hold its declared type. A fault is acceptable.

use super::ast::*;
use crate::fw::*;
use serde_json::json;
use trust_runtime::harness::TestHarness;
use trust_runtime::value::Value;

const BOUND: [(Ty, &str); 12] = [
    (Ty::Bool, "X"),
    (Ty::SInt, "B"),
    (Ty::USInt, "B"),
    (Ty::Byte, "B"),
    (Ty::Int, "W"),
    (Ty::UInt, "W"),
    (Ty::Word, "W"),
    (Ty::DInt, "D"),
    (Ty::UDInt, "D"),
    (Ty::Real, "D"),
    (Ty::LInt, "L"),
    (Ty::LReal, "L"),
];

fn address(area: &str, size: &str, hier: bool) -> String {
    match (size, hier) {
        ("X", false) => format!("%{area}X4.1"),
        ("X", true) => format!("%{area}X1.2.3"),
        (s, false) => format!("%{area}{s}8"),
        (s, true) => format!("%{area}{s}1.2"),
    }
}

pub fn run() -> (u64, Vec<Violation>) {
    let values: Vec<(&str, Value)> = vec![
        ("Bool", Value::Bool(true)),
        ("Byte", Value::Byte(7)),
        ("Word", Value::Word(7)),
        ("DWord", Value::DWord(7)),
        ("LWord", Value::LWord(7)),
        ("Int", Value::Int(7)),
        ("DInt-large", Value::DInt(70_000)),
        ("LInt", Value::LInt(5)),
        ("Real", Value::Real(1.5)),
    ];
    let mut out = Vec::new();
    let mut n = 0u64;
    let mut latched_ok = 0u64;
    for area in ["I", "M"] {
        for hier in [false, true] {
            for (t, size) in BOUND {
                let addr = address(area, size, hier);
                let text = format!(
                    "PROGRAM Main\nVAR\n    b AT {addr} : {0};\n    c : {0};\n    k : DINT;\nEND_VAR\n    c := b;\n    k := k + DINT#1;\nEND_PROGRAM\n",
                    t.name()
                );
                for (vname, value) in &values {
                    n += 1;
                    let r = catch(|| {
                        let mut h = match TestHarness::from_source(&text) {
                            Ok(h) => h,
                            Err(e) => return Err(e.to_string()),
                        };
                        let wrote = h.set_direct_input(&addr, value.clone()).is_ok();
                        let r1 = h.cycle();
                        let dump = crate::dump::dump_runtime(h.runtime());
                        Ok((wrote, r1.errors.iter().map(|e| format!("{e:?}")).collect::<Vec<_>>(), dump))
                    });
                    let (wrote, errs, dump) = match r {
                        Ok(Ok(x)) => x,
                        Ok(Err(_)) => continue, // address form not accepted by the compiler: not a case
                        Err(m) => {
                            out.push(Violation {
                                signature: format!("C03/panic/io-latch:{}", if hier { "hierarchical" } else { "flat" }),
                                what: format!("writing {vname} to {addr} bound to a {} variable and running a cycle panicked: {m}", t.name()),
                                case: json!({"kind": "io-latch", "addr": addr, "type": t.name(), "value": vname}),
                            });
                            continue;
                        }
                    };
                    if wrote && errs.is_empty() {
                        latched_ok += 1;
                    }
                    for path in ["Main.b", "Main.c"] {
                        let leaf = dump.get(path).cloned().unwrap_or_default();
                        let (tag, mag) = super::run::parse_leaf(&leaf);
                        let in_range = !t.is_int() || mag.map(|m| t.in_range(m)).unwrap_or(true);
                        if tag != t.tag() || !in_range {
                            out.push(Violation {
                                signature: format!(
                                    "C03/tag/io-latch:%{area}:{}:{}<-{}",
                                    if hier { "hierarchical" } else { "flat" },
                                    t.name(),
                                    tag
                                ),
                                what: format!("{path} declared {} AT {addr} holds {leaf} after the image was written with {vname} (write accepted: {wrote}, cycle errors {errs:?})", t.name()),
                                case: json!({"kind": "io-latch", "addr": addr, "type": t.name(), "value": vname}),
                            });
                            break;
                        }
                    }
                }
            }
        }
    }
    // character types (outside `Ty`): a CHAR / WCHAR located at %I / %M keeps its tag through the latch
    for area in ["I", "M"] {
        for (tname, tag, size) in [("CHAR", "Char", "B"), ("WCHAR", "WChar", "W")] {
            let addr = address(area, size, false);
            let text = format!("TYPE Rec : STRUCT tag : {tname}; n : INT; END_STRUCT END_TYPE\nPROGRAM Main\nVAR\n    b AT {addr} : {tname};\n    c : {tname};\n    k : DINT;\nEND_VAR\n    c := b;\n    k := k + DINT#1;\nEND_PROGRAM\n");
            for (vname, value) in [("Byte", Value::Byte(65)), ("Word", Value::Word(66))] {
                n += 1;
                let r = catch(|| {
                    let mut h = match TestHarness::from_source(&text) {
                        Ok(h) => h,
                        Err(e) => return Err(e.to_string()),
                    };
                    let wrote = h.set_direct_input(&addr, value.clone()).is_ok();
                    let r1 = h.cycle();
                    Ok((wrote, r1.errors.len(), crate::dump::dump_runtime(h.runtime())))
                });
                let Ok(Ok((wrote, errs, dump))) = r else { continue };
                if wrote && errs == 0 {
                    latched_ok += 1;
                }
                for path in ["Main.b", "Main.c"] {
                    let leaf = dump.get(path).cloned().unwrap_or_default();
                    let (got, _) = super::run::parse_leaf(&leaf);
                    if got != tag {
                        out.push(Violation {
                            signature: format!("C03/tag/io-latch:%{area}:flat:{tname}<-{got}"),
                            what: format!("{path} declared {tname} AT {addr} holds {leaf} after the image was written with {vname} (write accepted: {wrote}, cycle errors {errs})"),
                            case: json!({"kind": "io-latch", "addr": addr, "type": tname, "value": vname}),
                        });
                        break;
                    }
                }
            }
        }
    }
    if latched_ok == 0 {
        out.push(Violation { signature: "C03/machinery/io-latch".into(), what: "no write was ever latched without a fault: family vacuous".into(), case: json!({}) });
    }
    (n, out)
}
