//! Executing generated programs on the real runtime and comparing with the reference.

use super::ast::*;
use super::refsem::{self, Stop};
use serde_json::{json, Value};
use std::collections::BTreeMap;
use trust_runtime::harness::TestHarness;

#[derive(Clone, Debug)]
pub struct CycleObs {
    /// "ok" | "fault:<Variant>" | "panic:<message>"
    pub outcome: String,
    pub frames: usize,
    pub dump: BTreeMap<String, String>,
}

pub fn error_variant(e: &trust_runtime::error::RuntimeError) -> String {
    let s = format!("{e:?}");
    s.split(|c: char| !c.is_alphanumeric()).next().unwrap_or("").to_string()
}

/// Compile and run `cycles` scan cycles. `Err` = rejected by the compiler (not a case).
/// Execution stops after the first faulting / panicking cycle.
pub fn run_text(text: &str, cycles: usize) -> Result<Vec<CycleObs>, String> {
    run_text_inputs(text, cycles, &[])
}

/// Runtime value of a corpus value (the variable's declared type).
pub fn v_to_value(v: &V) -> trust_runtime::value::Value {
    use trust_runtime::value::Value as RV;
    match *v {
        V::B(b) => RV::Bool(b),
        V::I(Ty::SInt, x) => RV::SInt(x as i8),
        V::I(Ty::Int, x) => RV::Int(x as i16),
        V::I(Ty::DInt, x) => RV::DInt(x as i32),
        V::I(Ty::LInt, x) => RV::LInt(x as i64),
        V::I(Ty::USInt, x) => RV::USInt(x as u8),
        V::I(Ty::UInt, x) => RV::UInt(x as u16),
        V::I(Ty::UDInt, x) => RV::UDInt(x as u32),
        V::I(_, x) => RV::ULInt(x as u64),
        V::R(f) => RV::Real(f),
        V::L(f) => RV::LReal(f),
        V::Bits(Ty::Byte, x) => RV::Byte(x as u8),
        V::Bits(Ty::Word, x) => RV::Word(x as u16),
        V::Bits(Ty::DWord, x) => RV::DWord(x as u32),
        V::Bits(_, x) => RV::LWord(x),
        V::T(ns) => RV::LInt(ns),
    }
}

/// The raw cell an I/O driver would put into the image for `v` at `addr` (two's complement /
/// IEEE bits of the variable's declared type, cell size from the address letter).
pub fn v_to_cell(addr: &str, v: &V) -> trust_runtime::value::Value {
    use trust_runtime::value::Value as RV;
    let bits: u64 = match *v {
        V::B(b) => return RV::Bool(b),
        V::I(_, x) => x as i64 as u64,
        V::R(f) => f.to_bits() as u64,
        V::L(f) => f.to_bits(),
        V::Bits(_, x) => x,
        V::T(ns) => ns as u64,
    };
    match addr.chars().nth(2) {
        Some('B') => RV::Byte(bits as u8),
        Some('W') => RV::Word(bits as u16),
        Some('D') => RV::DWord(bits as u32),
        _ => RV::LWord(bits),
    }
}

/// Like `run_text`; before cycle k the values `inputs[k]` = (direct address, value) are written
/// into the input image through the public direct-I/O API (what an I/O driver does).
pub fn run_text_inputs(text: &str, cycles: usize, inputs: &[Vec<(String, trust_runtime::value::Value)>]) -> Result<Vec<CycleObs>, String> {
    run_text_full(text, cycles, inputs, None)
}

/// `budget_ms`: execution budget per cycle (default 8 s, which no terminating corpus program reaches).
pub fn run_text_full(
    text: &str,
    cycles: usize,
    inputs: &[Vec<(String, trust_runtime::value::Value)>],
    budget_ms: Option<u64>,
) -> Result<Vec<CycleObs>, String> {
    let mut h = match crate::fw::catch(|| TestHarness::from_source(text)) {
        Ok(Ok(h)) => h,
        Ok(Err(e)) => return Err(e.to_string()),
        Err(m) => {
            return Ok(vec![CycleObs { outcome: format!("panic:compile:{m}"), frames: 0, dump: BTreeMap::new() }]);
        }
    };
    let mut out = Vec::new();
    for k in 0..cycles {
        if let Some(ins) = inputs.get(k) {
            for (addr, value) in ins {
                if let Err(e) = h.set_direct_input(addr, value.clone()) {
                    // the harness could not deliver the input: not a verdict about the subject
                    return Err(format!("harness: input write {addr} refused: {e:?}"));
                }
            }
        }
        h.runtime_mut()
            .set_execution_deadline(Some(std::time::Instant::now() + std::time::Duration::from_millis(budget_ms.unwrap_or(8000))));
        let r = crate::fw::catch(|| h.cycle());
        match r {
            Ok(res) => {
                let outcome = match res.errors.first() {
                    None => "ok".to_string(),
                    Some(e) => format!("fault:{}", error_variant(e)),
                };
                let stop = outcome != "ok";
                out.push(CycleObs {
                    outcome,
                    frames: h.runtime().storage().frames().len(),
                    dump: crate::dump::dump_runtime(h.runtime()),
                });
                if stop {
                    break;
                }
            }
            Err(m) => {
                out.push(CycleObs { outcome: format!("panic:{m}"), frames: 0, dump: BTreeMap::new() });
                break;
            }
        }
    }
    Ok(out)
}

pub const VALUE_FAULTS: &[&str] = &[
    "DivisionByZero",
    "ModuloByZero",
    "Overflow",
    "IndexOutOfBounds",
    "NullReference",
    "ForStepZero",
    "DateTimeRange",
    "ExecutionTimeout",
];

/// One generated case: the program, how many cycles, and the feature tuple for signatures.
#[derive(Clone, Debug)]
pub struct Case {
    pub family: &'static str,
    /// smallest discriminating feature tuple (operator, types, literal kind, statement kind …)
    pub feature: String,
    pub prog: Prog,
    pub cycles: usize,
    /// compare values with the reference (clean stratum) or only outcome class + tags
    pub reference: bool,
    /// hand-written program text (no AST: outcome class only)
    pub raw: Option<String>,
}

impl Case {
    /// per cycle: (direct address, value) pairs of the input trace
    pub fn input_writes(&self) -> Vec<Vec<(String, V)>> {
        self.prog
            .inputs
            .iter()
            .map(|cyc| {
                cyc.iter()
                    .filter_map(|(n, v)| self.prog.at.iter().find(|(m, _)| m == n).map(|(_, a)| (a.clone(), *v)))
                    .collect()
            })
            .collect()
    }
    pub fn text(&self) -> String {
        match &self.raw {
            Some(t) => t.clone(),
            None => print(&self.prog),
        }
    }
}

/// Declared elementary type of every scalar dump path of the program instance.
pub fn declared_types(p: &Prog) -> BTreeMap<String, Ty> {
    fn add(p: &Prog, out: &mut BTreeMap<String, Ty>, path: String, d: &Decl) {
        match &d.ty {
            TyX::Elem(t) => {
                out.insert(path, *t);
            }
            TyX::Arr(lo, hi, t) => {
                for i in 0..(*hi - *lo + 1).max(0) {
                    out.insert(format!("{path}[{i}]"), *t);
                }
            }
            TyX::Arr2(a, b, c, d2, t) => {
                for i in 0..((*b - *a + 1).max(0) * (*d2 - *c + 1).max(0)) {
                    out.insert(format!("{path}[{i}]"), *t);
                }
            }
            TyX::Struct(n) => {
                if let Some(sd) = p.structs.iter().find(|s| &s.name == n) {
                    for (f, t) in &sd.fields {
                        out.insert(format!("{path}.{f}"), *t);
                    }
                }
            }
            TyX::Fb(n) => {
                if let Some(fd) = p.fbs.iter().find(|f| &f.name == n) {
                    for m in fd.inputs.iter().chain(&fd.outputs).chain(&fd.vars) {
                        add(p, out, format!("{path}.{}", m.name), m);
                    }
                }
            }
        }
    }
    let mut out = BTreeMap::new();
    for d in &p.vars {
        add(p, &mut out, format!("Main.{}", d.name), d);
    }
    out
}

/// tag and magnitude of a rendered leaf ("Int(5)" -> ("Int", Some(5)))
pub fn parse_leaf(s: &str) -> (String, Option<i128>) {
    let tag: String = s.chars().take_while(|c| c.is_alphanumeric()).collect();
    let inner = s.get(tag.len() + 1..s.len().saturating_sub(1)).unwrap_or("");
    (tag, inner.parse::<i128>().ok())
}

/// C03 invariant on one dump: (path, declared, stored tag, in range?)
pub fn tag_violations(decl: &BTreeMap<String, Ty>, dump: &BTreeMap<String, String>) -> Vec<(String, Ty, String, bool)> {
    let mut out = Vec::new();
    for (path, ty) in decl {
        let Some(leaf) = dump.get(path) else {
            // a declared leaf that vanished from a non-empty state (e.g. an array replaced by one of
            // another shape): reported as tag "<missing>"
            if !dump.is_empty() && dump.keys().any(|k| k.starts_with("Main.")) {
                out.push((path.clone(), *ty, "<missing>".to_string(), true));
            }
            continue;
        };
        let (tag, mag) = parse_leaf(leaf);
        if tag != ty.tag() {
            out.push((path.clone(), *ty, tag, true));
        } else if ty.is_int() {
            if let Some(m) = mag {
                if !ty.in_range(m) {
                    out.push((path.clone(), *ty, tag, false));
                }
            }
        }
    }
    out
}

/// Reference run: per cycle (expected outcome, expected flattened state) until the reference
/// stops. `None` for a cycle = the reference does not define it (nothing compared from there on).
pub fn reference_run(p: &Prog, cycles: usize) -> Vec<Option<(String, BTreeMap<String, Option<String>>)>> {
    let mut env = refsem::initial_env(p);
    let mut out = Vec::new();
    for k in 0..cycles {
        if let Some(ins) = p.inputs.get(k) {
            // the input image is latched into the located variables at the start of the cycle
            for (name, v) in ins {
                env.insert(name.clone(), refsem::Val::S(*v));
            }
        }
        let mut it = refsem::Interp::new(p);
        match it.cycle(&mut env) {
            Ok(()) => out.push(Some(("ok".to_string(), refsem::flatten(&env)))),
            Err(Stop::Fault(f)) => {
                out.push(Some((format!("fault:{}", f.name()), refsem::flatten(&env))));
                break;
            }
            Err(_) => {
                out.push(None);
                break;
            }
        }
    }
    out
}

pub fn case_json(c: &Case) -> Value {
    json!({"family": c.family, "feature": c.feature, "cycles": c.cycles, "reference": c.reference, "text": c.text()})
}
